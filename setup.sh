#!/bin/bash
# Builds the overlay interpreter /verif/.venv (Python 3.12 = /venv's python + solver wheels), offline.
set -e
cd "$(dirname "$0")"
if [ ! -x .venv/bin/python ] || ! .venv/bin/python -c "import z3, cvc5, sympy, pandapower, numpy" 2>/dev/null; then
  rm -rf .venv
  /venv/bin/python -m venv .venv
  SP=$(.venv/bin/python -c "import sysconfig; print(sysconfig.get_paths()['purelib'])")
  echo "import site; site.addsitedir('/venv/lib/python3.12/site-packages')" > "$SP/_overlay_venv.pth"
  PIP_NO_INDEX=1 .venv/bin/python -m pip install --quiet --no-index --no-deps --find-links /opt/veriftools/wheels z3-solver cvc5 sympy mpmath
fi
.venv/bin/python -c "import z3, cvc5, sympy, pandapower, numpy, pandas; print('overlay ok', z3.get_version_string(), sympy.__version__, pandapower.__version__)"
mkdir -p evidence replays
if [ -f pyvc/selftest.py ]; then .venv/bin/python -m pyvc.selftest; fi
