"""Value model of the symbolic executor.

Concrete Python values (str, int, float, bool, None, tuple, list, dict, set) are used as they are.
Symbolic values:

  SV      scalar: a z3 term of sort Bool / Int / Real / PV (PV = "some Python value of unknown type")
  CV      complex number: pair of real-valued scalars
  Arr     1-D array in the generic-index abstraction: (space, mask, element-at-generic-row)
  Mat     2-D ppc-style array: families of columns per row segment
  Table   pandas DataFrame: named columns over one row space, index labels
  SymDict dict with tracked concrete keys (+ one generic "rest" key), symbolic presence / value
  Opaque  a value nothing is known about (absorbing; purity assumed and logged)

Floats are mathematical reals (assumption A-REAL), ints mathematical integers (A-INT).
"""
from __future__ import annotations

import itertools
from fractions import Fraction

import z3

_counter = itertools.count()


def fresh_id():
    return next(_counter)


class Imm:
    """Immutable symbolic values are shared between forked states."""

    def __deepcopy__(self, memo):
        return self

    def __copy__(self):
        return self


class EngineError(Exception):
    """The executor met something outside its subset (checker error, exit 3 -- never a violation)."""


class NeedTruth(EngineError):
    pass


# ------------------------------------------------------------------------------------------------
# PV: Python value of statically unknown type (option values, kwargs, ...)
# ------------------------------------------------------------------------------------------------
PV = z3.Datatype("PV")
PV.declare("none")
PV.declare("b", ("bv", z3.BoolSort()))
PV.declare("i", ("iv", z3.IntSort()))
PV.declare("r", ("rv", z3.RealSort()))
PV.declare("s", ("sv", z3.IntSort()))      # interned string id
PV.declare("o", ("ov", z3.IntSort()))      # any other object, by identity
PV = PV.create()

_interned = {}


def intern_str(s: str) -> int:
    if s not in _interned:
        _interned[s] = len(_interned)
    return _interned[s]


def interned_name(k: int):
    for s, i in _interned.items():
        if i == k:
            return s
    return None


R = z3.RealSort()
I = z3.IntSort()
B = z3.BoolSort()
C_inf = z3.Real("+inf")


def realval(x):
    if isinstance(x, bool):
        return z3.RealVal(1 if x else 0)
    if isinstance(x, int):
        return z3.RealVal(x)
    if isinstance(x, Fraction):
        return z3.RealVal(f"{x.numerator}/{x.denominator}")
    if isinstance(x, float):
        if x == float("inf"):
            return C_inf        # +inf as an unspecified (uninterpreted) real: nothing can be proved about it except identity
        if x == float("-inf"):
            return -C_inf
        if x != x:
            raise EngineError(f"NaN in real context (use the extended-real mode)")
        fr = Fraction(repr(x))
        return z3.RealVal(f"{fr.numerator}/{fr.denominator}")
    raise EngineError(f"cannot make a real of {x!r}")


class SV(Imm):
    """Symbolic scalar."""
    __slots__ = ("z",)

    def __init__(self, z):
        assert isinstance(z, z3.ExprRef), z
        self.z = z

    # -- sort helpers ---------------------------------------------------------------------------
    @property
    def sort(self):
        return self.z.sort()

    def is_bool(self):
        return z3.is_bool(self.z)

    def is_int(self):
        return z3.is_int(self.z)

    def is_real(self):
        return z3.is_real(self.z)

    def is_pv(self):
        return self.z.sort() == PV

    def __repr__(self):
        s = str(self.z)
        return f"SV<{s if len(s) < 120 else s[:117] + '...'}>"

    def __bool__(self):
        raise NeedTruth(f"truth value of symbolic {self!r} requested outside the interpreter")

    def __hash__(self):
        return hash(self.z)

    # -- arithmetic -----------------------------------------------------------------------------
    def __add__(self, o): return arith("+", self, o)
    def __radd__(self, o): return arith("+", o, self)
    def __sub__(self, o): return arith("-", self, o)
    def __rsub__(self, o): return arith("-", o, self)
    def __mul__(self, o): return arith("*", self, o)
    def __rmul__(self, o): return arith("*", o, self)
    def __truediv__(self, o): return arith("/", self, o)
    def __rtruediv__(self, o): return arith("/", o, self)
    def __floordiv__(self, o): return arith("//", self, o)
    def __rfloordiv__(self, o): return arith("//", o, self)
    def __mod__(self, o): return arith("%", self, o)
    def __rmod__(self, o): return arith("%", o, self)
    def __pow__(self, o): return arith("**", self, o)
    def __rpow__(self, o): return arith("**", o, self)
    def __neg__(self): return arith("-", 0, self)
    def __pos__(self): return self
    def __abs__(self): return sabs(self)
    # -- comparison -----------------------------------------------------------------------------
    def __lt__(self, o): return compare("<", self, o)
    def __le__(self, o): return compare("<=", self, o)
    def __gt__(self, o): return compare(">", self, o)
    def __ge__(self, o): return compare(">=", self, o)
    def __eq__(self, o): return compare("==", self, o)
    def __ne__(self, o): return compare("!=", self, o)
    # -- logic (numpy style) --------------------------------------------------------------------
    def __and__(self, o): return logic("&", self, o)
    def __rand__(self, o): return logic("&", o, self)
    def __or__(self, o): return logic("|", self, o)
    def __ror__(self, o): return logic("|", o, self)
    def __xor__(self, o): return logic("^", self, o)
    def __rxor__(self, o): return logic("^", o, self)
    def __invert__(self): return snot(self)

    # numpy scalar-like attributes
    @property
    def real(self): return self
    @property
    def imag(self): return 0


class CV(Imm):
    """Complex value re + j*im; parts are SV(Real) or Python numbers."""
    __slots__ = ("re", "im")

    def __init__(self, re, im):
        self.re = re
        self.im = im

    def __repr__(self):
        return f"CV<{self.re!r}, {self.im!r}>"

    def __bool__(self):
        raise NeedTruth("truth value of symbolic complex")

    def __hash__(self):
        return hash((self.re, self.im))

    @property
    def real(self): return self.re
    @property
    def imag(self): return self.im

    def conj(self): return CV(self.re, arith("-", 0, self.im))
    def conjugate(self): return self.conj()

    def __add__(self, o): return carith("+", self, o)
    def __radd__(self, o): return carith("+", o, self)
    def __sub__(self, o): return carith("-", self, o)
    def __rsub__(self, o): return carith("-", o, self)
    def __mul__(self, o): return carith("*", self, o)
    def __rmul__(self, o): return carith("*", o, self)
    def __truediv__(self, o): return carith("/", self, o)
    def __rtruediv__(self, o): return carith("/", o, self)
    def __neg__(self): return CV(arith("-", 0, self.re), arith("-", 0, self.im))
    def __pos__(self): return self
    def __abs__(self): return ssqrt(arith("+", arith("*", self.re, self.re), arith("*", self.im, self.im)))
    def __pow__(self, o):
        if isinstance(o, int) and not isinstance(o, bool) and 0 <= o <= 8:
            r = CV(1, 0)
            for _ in range(o):
                r = carith("*", r, self)
            return r
        raise EngineError(f"complex power {o!r}")
    def __eq__(self, o):
        o = as_complex(o)
        return logic("&", compare("==", self.re, o.re), compare("==", self.im, o.im))
    def __ne__(self, o):
        return snot(self.__eq__(o))


class XV(Imm):
    """extended real: value with a NaN flag (IEEE: NaN propagates through arithmetic, compares false)"""
    __slots__ = ("v", "nan")

    def __init__(self, v, nan):
        if isinstance(v, XV):
            nan = _or_flag(v.nan, nan)
            v = v.v
        self.v = v
        self.nan = nan if isinstance(nan, bool) else z3.simplify(nan)
        if z3.is_true(self.nan) if not isinstance(self.nan, bool) else False:
            self.nan = True
        elif (not isinstance(self.nan, bool)) and z3.is_false(self.nan):
            self.nan = False

    @staticmethod
    def of(x):
        if isinstance(x, XV):
            return x
        if isinstance(x, float) and x != x:
            return XV(0, True)
        return XV(x, False)

    def __repr__(self):
        return f"XV<{self.v!r} nan:{self.nan}>"

    def __bool__(self):
        raise NeedTruth("truth of extended real")

    def __hash__(self):
        return hash((self.v, str(self.nan)))

    def __add__(self, o): return arith("+", self, o)
    def __radd__(self, o): return arith("+", o, self)
    def __sub__(self, o): return arith("-", self, o)
    def __rsub__(self, o): return arith("-", o, self)
    def __mul__(self, o): return arith("*", self, o)
    def __rmul__(self, o): return arith("*", o, self)
    def __truediv__(self, o): return arith("/", self, o)
    def __rtruediv__(self, o): return arith("/", o, self)
    def __pow__(self, o): return arith("**", self, o)
    def __neg__(self): return XV(arith("-", 0, self.v), self.nan)
    def __pos__(self): return self
    def __abs__(self): return XV(sabs(self.v), self.nan)
    def __lt__(self, o): return compare("<", self, o)
    def __le__(self, o): return compare("<=", self, o)
    def __gt__(self, o): return compare(">", self, o)
    def __ge__(self, o): return compare(">=", self, o)
    def __eq__(self, o): return compare("==", self, o)
    def __ne__(self, o): return compare("!=", self, o)

    @property
    def real(self): return self
    @property
    def imag(self): return 0


def _or_flag(a, b):
    if a is True or b is True:
        return True
    if a is False:
        return b
    if b is False:
        return a
    return z3.Or(a, b)


def _flag_z(a):
    return z3.BoolVal(a) if isinstance(a, bool) else a


def _is_nan_float(x):
    return isinstance(x, float) and x != x


def is_sym(x):
    return isinstance(x, (SV, CV, XV))


def is_number(x):
    return isinstance(x, (int, float, Fraction)) and not isinstance(x, bool) or isinstance(x, bool)


def as_complex(x):
    if isinstance(x, CV):
        return x
    if isinstance(x, complex):
        return CV(x.real, x.imag)
    return CV(x, 0)


def to_z(x, want=None):
    """z3 term for a scalar (SV or Python number/bool/str/None)."""
    if isinstance(x, SV):
        z = x.z
    elif isinstance(x, bool):
        z = z3.BoolVal(x)
    elif isinstance(x, int):
        z = z3.IntVal(x)
    elif isinstance(x, (float, Fraction)):
        z = realval(x)
    elif hasattr(x, "dtype") and hasattr(x, "item") and getattr(x, "shape", None) == ():
        return to_z(x.item(), want)
    else:
        if want == PV:
            return to_pv(x)
        raise EngineError(f"no z3 term for {x!r}")
    if want is not None and z.sort() != want:
        z = coerce(z, want)
    return z


def coerce(z, want):
    s = z.sort()
    if s == want:
        return z
    if want == R:
        if s == I:
            if z3.is_int_value(z):
                return z3.RealVal(z.as_long())
            return z3.ToReal(z)
        if s == B:
            return z3.If(z, z3.RealVal(1), z3.RealVal(0))
        if s == PV:
            return pv_num(z)
    if want == I:
        if s == B:
            return z3.If(z, z3.IntVal(1), z3.IntVal(0))
        if s == R:
            # astype(int)/int() on a real: truncation is not modelled; only exact ints are accepted
            return z3.ToInt(z)
    if want == B:
        if s == I:
            return z != 0
        if s == R:
            return z != 0
        if s == PV:
            return pv_truth(z)
    if want == PV:
        if s == B:
            return PV.b(z)
        if s == I:
            return PV.i(z)
        if s == R:
            return PV.r(z)
    raise EngineError(f"cannot coerce {z} : {s} to {want}")


_opaque_ids = {}


def to_pv(x):
    """Embed a value into PV."""
    if isinstance(x, SV):
        return coerce(x.z, PV)
    if x is None:
        return PV.none
    if isinstance(x, bool):
        return PV.b(z3.BoolVal(x))
    if isinstance(x, int):
        return PV.i(z3.IntVal(x))
    if isinstance(x, (float, Fraction)):
        return PV.r(realval(x))
    if isinstance(x, str):
        return PV.s(z3.IntVal(intern_str(x)))
    if hasattr(x, "dtype") and hasattr(x, "item") and getattr(x, "shape", None) == ():
        return to_pv(x.item())
    if isinstance(x, Opaque):
        return z3.Const(f"opaque[{x.why}]", PV)
    # any other object: identity
    key = id(x)
    if key not in _opaque_ids:
        _opaque_ids[key] = (len(_opaque_ids), x)
    return PV.o(z3.IntVal(_opaque_ids[key][0]))


def pv_is_num(z):
    return z3.Or(PV.is_b(z), PV.is_i(z), PV.is_r(z))


def pv_num(z):
    return z3.If(PV.is_b(z), z3.If(PV.bv(z), z3.RealVal(1), z3.RealVal(0)),
                 z3.If(PV.is_i(z), z3.ToReal(PV.iv(z)), PV.rv(z)))


def pv_truth(z):
    # Python truthiness: None False; numbers != 0; strings: the empty string has intern id of ""
    empty = z3.IntVal(intern_str(""))
    return z3.If(PV.is_none(z), z3.BoolVal(False),
                 z3.If(PV.is_b(z), PV.bv(z),
                       z3.If(PV.is_i(z), PV.iv(z) != 0,
                             z3.If(PV.is_r(z), PV.rv(z) != 0,
                                   z3.If(PV.is_s(z), PV.sv(z) != empty, z3.BoolVal(True))))))


def pv_eq(a, b):
    """Python == on PV terms (numeric types compare by value)."""
    return z3.If(z3.And(pv_is_num(a), pv_is_num(b)), pv_num(a) == pv_num(b), a == b)


def _simplify(z):
    return z3.simplify(z)


def _num_sorts(a, b):
    """bring two z3 numeric terms to a common sort (Int or Real)."""
    sa, sb = a.sort(), b.sort()
    if sa == PV:
        a = pv_num(a); sa = R
    if sb == PV:
        b = pv_num(b); sb = R
    if sa == B:
        a = coerce(a, I); sa = I
    if sb == B:
        b = coerce(b, I); sb = I
    if sa == sb:
        return a, b
    return coerce(a, R), coerce(b, R)


def _concrete(x):
    return isinstance(x, (bool, int, float, Fraction))


def arith(op, a, b):
    if isinstance(a, XV) or isinstance(b, XV) or ((_is_nan_float(a) or _is_nan_float(b)) and (is_sym(a) or is_sym(b))):
        a, b = XV.of(a), XV.of(b)
        return XV(arith(op, a.v, b.v), _or_flag(a.nan, b.nan))
    if isinstance(a, CV) or isinstance(b, CV) or isinstance(a, complex) or isinstance(b, complex):
        return carith(op, a, b)
    if not isinstance(a, SV) and not isinstance(b, SV):
        return _py_arith(op, a, b)
    # cheap algebraic simplifications with concrete neutral elements keep terms small
    if op == "*":
        if _concrete(a) and a == 1: return b if not isinstance(b, SV) or not b.is_bool() else SV(coerce(b.z, I))
        if _concrete(b) and b == 1: return a if not isinstance(a, SV) or not a.is_bool() else SV(coerce(a.z, I))
        if _concrete(a) and a == 0 and not isinstance(a, float): return 0
        if _concrete(b) and b == 0 and not isinstance(b, float): return 0
    if op == "+":
        if _concrete(a) and a == 0: return b
        if _concrete(b) and b == 0: return a
    if op == "-":
        if _concrete(b) and b == 0: return a
    if op == "/" and _concrete(b) and b == 1:
        return SV(coerce(to_z(a), R))
    za, zb = _num_sorts(to_z(a), to_z(b))
    if op == "+": r = za + zb
    elif op == "-": r = za - zb
    elif op == "*": r = za * zb
    elif op == "/":
        r = coerce(za, R) / coerce(zb, R)
    elif op == "//":
        if za.sort() == I:
            r = za / zb  # z3 int division (floor for positive divisor)
        else:
            r = z3.ToReal(z3.ToInt(za / zb))
    elif op == "%":
        if za.sort() == I:
            r = za % zb
        else:
            raise EngineError("real modulo")
    elif op == "**":
        if _concrete(b) and float(b).is_integer() and 0 <= int(b) <= 8:
            n = int(b)
            if n == 0:
                return 1
            r = za
            for _ in range(n - 1):
                r = r * za
        elif _concrete(b) and float(b).is_integer() and -4 <= int(b) < 0:
            n = -int(b)
            r = za
            for _ in range(n - 1):
                r = r * za
            r = z3.RealVal(1) / coerce(r, R)
        elif _concrete(b) and b == 0.5:
            return ssqrt(a)
        else:
            return spow(a, b)
    else:
        raise EngineError(f"arith op {op}")
    return SV(r)


def _py_arith(op, a, b):
    # exact rational arithmetic for concrete numbers keeps "1e-9 * x" style constants exact
    if op == "+": return a + b
    if op == "-": return a - b
    if op == "*": return a * b
    if op == "/": return a / b
    if op == "//": return a // b
    if op == "%": return a % b
    if op == "**": return a ** b
    raise EngineError(op)


def carith(op, a, b):
    a, b = as_complex(a), as_complex(b)
    if op == "+":
        return CV(arith("+", a.re, b.re), arith("+", a.im, b.im))
    if op == "-":
        return CV(arith("-", a.re, b.re), arith("-", a.im, b.im))
    if op == "*":
        return CV(arith("-", arith("*", a.re, b.re), arith("*", a.im, b.im)),
                  arith("+", arith("*", a.re, b.im), arith("*", a.im, b.re)))
    if op == "/":
        if _concrete(b.im) and b.im == 0:
            return CV(arith("/", a.re, b.re), arith("/", a.im, b.re))
        den = arith("+", arith("*", b.re, b.re), arith("*", b.im, b.im))
        num = carith("*", a, b.conj())
        return CV(arith("/", num.re, den), arith("/", num.im, den))
    if op == "**":
        return a.__pow__(b.re if _concrete(b.im) and b.im == 0 else b)
    raise EngineError(f"complex op {op}")


def compare(op, a, b):
    if isinstance(a, XV) or isinstance(b, XV) or ((_is_nan_float(a) or _is_nan_float(b)) and (is_sym(a) or is_sym(b))):
        a, b = XV.of(a), XV.of(b)
        anynan = _or_flag(a.nan, b.nan)
        c = compare(op, a.v, b.v)
        if anynan is False:
            return c
        if op == "!=":
            return logic("|", SV(_flag_z(anynan)) if not isinstance(anynan, bool) else anynan, c)
        notnan = (not anynan) if isinstance(anynan, bool) else SV(z3.Not(anynan))
        return logic("&", notnan, c)
    if isinstance(a, CV) or isinstance(b, CV):
        if op == "==":
            return as_complex(a).__eq__(b)
        if op == "!=":
            return as_complex(a).__ne__(b)
        raise EngineError("ordering of complex")
    if not isinstance(a, SV) and not isinstance(b, SV):
        return {"<": a < b, "<=": a <= b, ">": a > b, ">=": a >= b, "==": a == b, "!=": a != b}[op]
    sa = a.z.sort() if isinstance(a, SV) else None
    sb = b.z.sort() if isinstance(b, SV) else None
    if PV in (sa, sb):
        za, zb = to_z(a, PV), to_z(b, PV)
        if op == "==":
            return SV(pv_eq(za, zb))
        if op == "!=":
            return SV(z3.Not(pv_eq(za, zb)))
        za, zb = pv_num(za), pv_num(zb)
    else:
        if (sa == B or isinstance(a, bool)) and (sb == B or isinstance(b, bool)):
            za, zb = to_z(a), to_z(b)
            if op == "==":
                return SV(za == zb)
            if op == "!=":
                return SV(za != zb)
        if not _concrete(a) and not isinstance(a, SV) or not _concrete(b) and not isinstance(b, SV):
            # number vs str/None: Python == is False
            if op == "==":
                return False
            if op == "!=":
                return True
            raise EngineError(f"ordering {a!r} {op} {b!r}")
        za, zb = _num_sorts(to_z(a), to_z(b))
    r = {"<": lambda: za < zb, "<=": lambda: za <= zb, ">": lambda: za > zb, ">=": lambda: za >= zb,
         "==": lambda: za == zb, "!=": lambda: za != zb}[op]()
    return SV(r)


def logic(op, a, b):
    if not isinstance(a, SV) and not isinstance(b, SV):
        return {"&": lambda: a & b, "|": lambda: a | b, "^": lambda: a ^ b}[op]()
    if isinstance(a, bool):
        if op == "&": return b if a else False
        if op == "|": return True if a else b
    if isinstance(b, bool):
        if op == "&": return a if b else False
        if op == "|": return True if b else a
    za, zb = to_z(a), to_z(b)
    if za.sort() != B or zb.sort() != B:
        if za.sort() == PV: za = pv_truth(za)
        if zb.sort() == PV: zb = pv_truth(zb)
        # boolean column combined with a 0/1 float column (pandas casts the float operand to bool)
        if za.sort() == B and zb.sort() == R:
            zb = zb != 0
        elif zb.sort() == B and za.sort() == R:
            za = za != 0
        if za.sort() != B or zb.sort() != B:
            raise EngineError(f"bitwise {op} on non-boolean symbolic values {a!r} {b!r}")
    if op == "&": return SV(z3.And(za, zb))
    if op == "|": return SV(z3.Or(za, zb))
    if op == "^": return SV(z3.Xor(za, zb))
    raise EngineError(op)


def snot(a):
    if isinstance(a, Opaque):
        return Opaque(f"not({a.why})")
    if isinstance(a, SV):
        z = a.z
        if z.sort() == PV:
            z = pv_truth(z)
        if z.sort() != B:
            raise EngineError(f"~ on non-boolean {a!r}")
        return SV(z3.Not(z))
    if isinstance(a, bool):
        return not a
    return ~a


def sabs(a):
    if isinstance(a, Opaque):
        return Opaque(f"abs({a.why})")
    if isinstance(a, XV):
        return a.__abs__()
    if isinstance(a, CV):
        return a.__abs__()
    if isinstance(a, SV):
        z = a.z
        if z.sort() == B:
            return a
        return SV(z3.If(z >= 0, z, -z))
    return abs(a)


def ite(c, a, b):
    """if-then-else on scalars."""
    if isinstance(c, bool):
        return a if c else b
    cz = truth_z(c)
    if isinstance(a, XV) or isinstance(b, XV) or ((_is_nan_float(a) or _is_nan_float(b)) and (is_sym(a) or is_sym(b))):
        a, b = XV.of(a), XV.of(b)
        return XV(ite(c, a.v, b.v), z3.If(cz, _flag_z(a.nan), _flag_z(b.nan)))
    if isinstance(a, CV) or isinstance(b, CV) or isinstance(a, complex) or isinstance(b, complex):
        a, b = as_complex(a), as_complex(b)
        return CV(ite(c, a.re, b.re), ite(c, a.im, b.im))
    if a is b:
        return a
    if not isinstance(a, SV) and not isinstance(b, SV) and type(a) is type(b) and a == b:
        return a
    try:
        za, zb = to_z(a), to_z(b)
    except EngineError:
        za, zb = to_pv(a), to_pv(b)
    if za.sort() != zb.sort():
        if PV in (za.sort(), zb.sort()):
            za, zb = coerce(za, PV), coerce(zb, PV)
        elif B in (za.sort(), zb.sort()) and za.sort() != zb.sort():
            za, zb = _num_sorts(za, zb)
        else:
            za, zb = _num_sorts(za, zb)
    return SV(z3.If(cz, za, zb))


def truth_z(c):
    """z3 Bool for the Python truth value of a scalar."""
    if isinstance(c, SV):
        return coerce(c.z, B)
    if isinstance(c, CV):
        return z3.Or(truth_z(c.re), truth_z(c.im))
    if isinstance(c, XV):
        return z3.Or(_flag_z(c.nan), truth_z(c.v))
    return z3.BoolVal(bool(c))


# ------------------------------------------------------------------------------------------------
# transcendental / algebraic functions as uninterpreted symbols with instantiated axioms
# ------------------------------------------------------------------------------------------------
F_sqrt = z3.Function("u_sqrt", R, R)
F_exp = z3.Function("u_exp", R, R)
F_log10 = z3.Function("u_log10", R, R)
F_pow = z3.Function("u_pow", R, R, R)
F_sin = z3.Function("u_sin", R, R)
F_cos = z3.Function("u_cos", R, R)
F_arctan2 = z3.Function("u_arctan2", R, R, R)
F_arcsin = z3.Function("u_arcsin", R, R)
F_arccos = z3.Function("u_arccos", R, R)
C_pi = z3.Real("pi")


class Axioms:
    """Instantiated axioms about uninterpreted function applications created during a run."""

    def __init__(self):
        self.facts = []
        self._seen = set()
        self.add("pi", z3.And(C_pi > z3.RealVal("3.14159"), C_pi < z3.RealVal("3.1416")))

    def add(self, key, fact):
        if key in self._seen:
            return
        self._seen.add(key)
        self.facts.append(fact)

    def reset(self):
        self.__init__()


AX = Axioms()


def ssqrt(a):
    if isinstance(a, CV):
        raise EngineError("complex sqrt")
    if not isinstance(a, SV):
        if isinstance(a, (int, Fraction)) or float(a).is_integer():
            n = int(a)
            import math
            if n >= 0 and math.isqrt(n) ** 2 == n:
                return math.isqrt(n)
        a = SV(realval(a))
    t = coerce(a.z, R)
    t = z3.simplify(t)
    s = F_sqrt(t)
    AX.add(("sqrt", t.get_id()), z3.Implies(t >= 0, z3.And(s >= 0, s * s == t)))
    return SV(s)


def sexp(a):
    t = z3.simplify(coerce(to_z(a), R))
    if z3.is_rational_value(t) and t.numerator_as_long() == 0:
        return SV(z3.RealVal(1))
    s = F_exp(t)
    AX.add(("exp", t.get_id()), z3.And(s > 0, z3.Implies(t <= 0, s <= 1), z3.Implies(t >= 0, s >= 1),
                                       z3.Implies(t == 0, s == 1)))
    return SV(s)


def slog10(a):
    t = z3.simplify(coerce(to_z(a), R))
    s = F_log10(t)
    AX.add(("log10", t.get_id()), z3.And(z3.Implies(t == 1, s == 0), z3.Implies(t > 1, s > 0),
                                         z3.Implies(z3.And(t > 0, t < 1), s < 0)))
    return SV(s)


def spow(a, b):
    ta = z3.simplify(coerce(to_z(a), R))
    tb = z3.simplify(coerce(to_z(b), R))
    s = F_pow(ta, tb)
    AX.add(("pow", ta.get_id(), tb.get_id()),
           z3.And(z3.Implies(ta > 0, s > 0), z3.Implies(ta == 1, s == 1), z3.Implies(tb == 0, s == 1),
                  z3.Implies(tb == 1, s == ta),
                  z3.Implies(z3.And(ta > 1, tb > 0), s > 1), z3.Implies(z3.And(ta > 0, ta < 1, tb > 0), s < 1)))
    return SV(s)


def ssin(a):
    t = z3.simplify(coerce(to_z(a), R))
    s, c = F_sin(t), F_cos(t)
    AX.add(("trig", t.get_id()), z3.And(s * s + c * c == 1, z3.Implies(t == 0, z3.And(s == 0, c == 1))))
    return SV(s)


def scos(a):
    t = z3.simplify(coerce(to_z(a), R))
    s, c = F_sin(t), F_cos(t)
    AX.add(("trig", t.get_id()), z3.And(s * s + c * c == 1, z3.Implies(t == 0, z3.And(s == 0, c == 1))))
    return SV(c)


def pi():
    return SV(C_pi)


# ------------------------------------------------------------------------------------------------
# fresh symbols
# ------------------------------------------------------------------------------------------------
def fresh(name, sort=R):
    return SV(z3.Const(f"{name}!{fresh_id()}", sort))


def const(name, sort=R):
    return SV(z3.Const(name, sort))


def real(name): return const(name, R)
def integer(name): return const(name, I)
def boolean(name): return const(name, B)
def pyval(name): return const(name, PV)


# ------------------------------------------------------------------------------------------------
# Opaque
# ------------------------------------------------------------------------------------------------
class Opaque(Imm):
    """A value about which nothing is known. Operations on it give fresh opaque values (purity assumed)."""
    log = []

    def __init__(self, why=""):
        self.why = why
        self.id = fresh_id()

    def __repr__(self):
        return f"Opaque<{self.why}>"
