"""Dicts and sets with symbolic presence (the "generic key" abstraction of DESIGN 2.3).

Keys are concrete (the tracked keys: every literal the code can compare a key with, plus designated
generic extra keys that occur nowhere in the code and therefore stand for "any other key").
Presence of a key is a z3 Bool (or Python True); values are arbitrary engine values.
"""
from __future__ import annotations

import z3

from .values import SV, EngineError, ite, truth_z, to_pv, PV, Imm


def _p(z):
    """normalise presence: True / False / z3 Bool"""
    if isinstance(z, bool):
        return z
    if isinstance(z, SV):
        z = truth_z(z)
    z = z3.simplify(z)
    if z3.is_true(z):
        return True
    if z3.is_false(z):
        return False
    return z


def p_and(a, b):
    if a is False or b is False:
        return False
    if a is True:
        return b
    if b is True:
        return a
    return _p(z3.And(a, b))


def p_or(a, b):
    if a is True or b is True:
        return True
    if a is False:
        return b
    if b is False:
        return a
    return _p(z3.Or(a, b))


def p_not(a):
    if isinstance(a, bool):
        return not a
    return _p(z3.Not(a))


def p_sv(a):
    return a if isinstance(a, bool) else SV(a)


def merge_val(c, a, b):
    """value-level ite; non-scalar values must be identical"""
    if a is b:
        return a
    try:
        return ite(p_sv(c) if not isinstance(c, SV) else c, a, b)
    except EngineError:
        raise


class PDict:
    """dict with concrete keys and symbolic presence. Insertion order is kept (as in Python)."""

    def __init__(self, init=None):
        self.e = {}  # key -> [presence, value]
        if init is not None:
            if isinstance(init, PDict):
                for k, (p, v) in init.e.items():
                    self.e[k] = [p, v]
            elif isinstance(init, dict):
                for k, v in init.items():
                    self.e[k] = [True, v]
            else:
                for k, v in init:
                    self.e[k] = [True, v]

    # -- presence ---------------------------------------------------------------------------------
    def presence(self, k):
        if k in self.e:
            return self.e[k][0]
        return False

    def raw(self, k):
        return self.e[k][1]

    def set(self, k, v, when=True):
        """d[k] = v under condition `when`"""
        _check_key(k)
        when = _p(when)
        if when is False:
            return
        if k in self.e and when is not True:
            p, old = self.e[k]
            if p is False:
                self.e[k] = [when, v]
            else:
                self.e[k] = [p_or(p, when), merge_val(when, v, old)]
        elif when is True:
            if k in self.e:
                self.e[k] = [True, v]
            else:
                self.e[k] = [True, v]
        else:
            self.e[k] = [when, v]

    def delete(self, k, when=True):
        when = _p(when)
        if k in self.e:
            p, v = self.e[k]
            self.e[k] = [p_and(p, p_not(when)), v]
            if self.e[k][0] is False:
                del self.e[k]

    def keys_list(self):
        return [k for k, (p, v) in self.e.items() if p is not False]

    def is_concrete(self):
        return all(p is True for p, v in self.e.values())

    def to_dict(self):
        if not self.is_concrete():
            raise EngineError("dict with symbolic presence used where a concrete dict is needed")
        return {k: v for k, (p, v) in self.e.items()}

    def copy(self):
        return PDict(self)

    def __len__(self):
        if self.is_concrete():
            return len(self.e)
        raise EngineError("len() of a dict with symbolic presence: use sym_len")

    def sym_len(self):
        n = 0
        for p, v in self.e.values():
            n = n + (1 if p is True else SV(z3.If(p, z3.IntVal(1), z3.IntVal(0))))
        return n

    def __repr__(self):
        return "PDict{" + ", ".join(f"{k!r}{'' if p is True else '?'}: {v!r}" for k, (p, v) in self.e.items()) + "}"

    def update_from(self, other, when=True):
        if isinstance(other, dict):
            other = PDict(other)
        for k, (p, v) in other.e.items():
            self.set(k, v, p_and(p, when))


def _check_key(k):
    if isinstance(k, SV):
        raise EngineError("symbolic dict key (keys must be tracked concretely)")
    hash(k)


class PSet:
    def __init__(self, items=None):
        self.e = {}  # key -> presence
        if items is not None:
            if isinstance(items, PSet):
                self.e = dict(items.e)
            else:
                for k in items:
                    _check_key(k)
                    self.e[k] = True

    def add(self, k, when=True):
        _check_key(k)
        self.e[k] = p_or(self.e.get(k, False), _p(when))

    def presence(self, k):
        return self.e.get(k, False)

    def is_concrete(self):
        return all(p is True for p in self.e.values())

    def to_set(self):
        if not self.is_concrete():
            raise EngineError("set with symbolic membership used concretely")
        return set(self.e)

    def sym_len(self):
        n = 0
        for p in self.e.values():
            if p is False:
                continue
            n = n + (1 if p is True else SV(z3.If(p, z3.IntVal(1), z3.IntVal(0))))
        return n

    def __len__(self):
        if self.is_concrete():
            return len(self.e)
        raise EngineError("len() of a set with symbolic membership")

    def intersect(self, o):
        r = PSet()
        for k, p in self.e.items():
            q = p_and(p, o.presence(k))
            if q is not False:
                r.e[k] = q
        return r

    def union(self, o):
        r = PSet(self)
        for k, p in o.e.items():
            r.e[k] = p_or(r.e.get(k, False), p)
        return r

    def difference(self, o):
        r = PSet()
        for k, p in self.e.items():
            q = p_and(p, p_not(o.presence(k)))
            if q is not False:
                r.e[k] = q
        return r

    def keys_list(self):
        return [k for k, p in self.e.items() if p is not False]

    def __repr__(self):
        return "PSet{" + ", ".join(f"{k!r}{'' if p is True else '?'}" for k, p in self.e.items()) + "}"
