"""pyvc -- a small verification-condition generator for the Python text of pandapower.

The real function source is re-read from /repo on every run (pyvc.source), executed symbolically
(pyvc.interp) over the value model of pyvc.values, and the obligations stated by the sidecar
contracts in /verif/contracts are discharged by z3 / cvc5 / a polynomial normaliser (pyvc.solve).
"""
