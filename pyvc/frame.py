"""Frame-tracking execution: "which cells of the user's element tables may have been written, and were they restored?"

Element tables are abstract objects: reads give unknown values (Opaque, purity assumed and logged); every syntactic
form that stores into a table, a column, a view of a column (.values) or rebinds a table in the net is tracked:

  column state   token per (table, column): 'orig' until something is stored, a fresh 'mod#k' token after a store,
                 the saved token again after a store of a value that was copied from the column earlier
                 (x = copy.deepcopy(net.load.scaling) ... net.load.scaling = x)
  row state      token per table: changes when rows are added / dropped
  snapshots      copy.deepcopy(table) / table.copy(): a new table object carrying the tokens of the moment

At the end of a path  frame_ok(net0, net)  demands for every element table: the object bound in the net carries the
original row token and the original token for every column that was ever touched.
"""
from __future__ import annotations

import itertools

from .values import Opaque, EngineError, SV, Imm, fresh_id
from .containers import PDict
from .interp import Native, PyRaise, CannotMerge
from .netmodel import Net

_tok = itertools.count()


class Tracker:
    def __init__(self):
        self.log = []     # (table name, what, via)
        self.touched = {}  # table family id -> set(cols)


class FTable:
    def __init__(self, name, tracker, family=None, cols=None, rows=None):
        self.name = name
        self.tr = tracker
        self.family = family if family is not None else fresh_id()
        self.cols = dict(cols or {})      # col -> token (missing: ('orig', col))
        self.rows = rows if rows is not None else ("orig-rows",)
        self.oid = fresh_id()

    def token(self, col):
        return self.cols.get(col, ("orig", col))

    def write_col(self, it, col, value=None, via="store"):
        if it.ctx.merge_mode:
            raise CannotMerge()
        tok = None
        if isinstance(value, FSaved) and value.family == self.family and value.col == col:
            tok = value.tok
        elif isinstance(value, FCol) and value.table.family == self.family and value.col == col:
            tok = value.table.token(col)
        if tok is None:
            tok = ("mod", next(_tok))
        self.cols[col] = tok
        self.tr.touched.setdefault(self.family, set()).add(col)
        self.tr.log.append((self.name, f"column {col}", via))

    def write_rows(self, it, via="rows"):
        if it.ctx.merge_mode:
            raise CannotMerge()
        self.rows = ("mod-rows", next(_tok))
        self.tr.log.append((self.name, "rows", via))

    def write_unknown(self, it, via):
        """a store whose target column is not statically known: every column may be affected"""
        if it.ctx.merge_mode:
            raise CannotMerge()
        self.cols["*"] = ("mod", next(_tok))
        self.tr.touched.setdefault(self.family, set()).add("*")
        self.tr.log.append((self.name, "unknown cells", via))

    def snapshot(self):
        return FTable(self.name, self.tr, self.family, dict(self.cols), self.rows)

    # ---- interpreter protocol ---------------------------------------------------------------------
    def sym_getitem(self, it, key):
        if isinstance(key, str):
            return FCol(self, key)
        return Opaque(f"{self.name}[...]")

    def sym_setitem(self, it, key, val):
        if isinstance(key, str):
            self.write_col(it, key, val, via="df[col] = ...")
        elif isinstance(key, (list, tuple)) and all(isinstance(k, str) for k in key):
            for k in key:
                self.write_col(it, k, None, via="df[cols] = ...")
        else:
            self.write_unknown(it, "df[...] = ...")

    def sym_contains(self, it, key):
        return Opaque(f"'{key}' in {self.name}")

    def sym_len(self, it):
        return SV(__import__("z3").Int(f"len[{self.name}#{self.rows[-1]}]"))

    def sym_deepcopy(self, it):
        return self.snapshot()

    def sym_copy(self, it):
        return self.snapshot()

    def sym_isinstance(self, it, cls):
        return getattr(cls, "__name__", str(cls)) in ("DataFrame", "object", "NDFrame")

    def sym_iter(self, it):
        raise EngineError("iteration over a frame-tracked table")

    def __repr__(self):
        return f"<FTable {self.name} fam{self.family} rows={self.rows} cols={self.cols}>"


MUTATING_DF_METHODS = {"drop", "set_index", "sort_index", "sort_values", "fillna", "rename", "reset_index", "replace",
                       "update", "insert", "pop", "drop_duplicates", "dropna", "clip", "where", "mask", "interpolate"}


def ftable_attr(it, t, name):
    if name in ("loc", "at", "iloc", "iat"):
        return FIndexer(t, None)
    if name in ("index", "columns", "dtypes", "empty", "shape", "size", "T", "values"):
        if name == "values":
            return FView(t, "*")
        return Opaque(f"{t.name}.{name}")
    if name == "copy":
        return Native(lambda it, **k: t.snapshot(), name="DataFrame.copy")
    if name in MUTATING_DF_METHODS:
        def meth(it, *a, **k):
            if k.get("inplace", False) is True or name in ("update", "insert", "pop"):
                if name in ("drop", "drop_duplicates", "dropna", "reset_index", "set_index", "sort_index", "sort_values"):
                    t.write_rows(it, via=f".{name}(inplace=True)")
                else:
                    t.write_unknown(it, f".{name}(inplace)")
                return None
            if isinstance(k.get("inplace", False), (SV, Opaque)):
                raise EngineError("inplace= with a non-constant value")
            return Opaque(f"{t.name}.{name}()")
        return Native(meth, pure=False, name=f"DataFrame.{name}")
    if name == "iterrows" or name == "itertuples":
        return Native(lambda it, **k: Opaque(f"{t.name}.{name}()"), name=name)
    if name.startswith("_") and name != "_is_copy":
        return Opaque(f"{t.name}.{name}")
    # any other attribute: a column (net.gen.slack) or a read-only method; both are reads
    return FColOrMethod(t, name)


def ftable_setattr(it, t, name, val):
    t.write_col(it, name, val, via=f"df.{name} = ...")
    return None


class FCol(Imm):
    """a column of a tracked table (Series): reads are opaque, stores are tracked"""
    opaque_like = True

    def __init__(self, table, col):
        self.table = table
        self.col = col
        self.why = f"{table.name}.{col}"

    def sym_getitem(self, it, key):
        return Opaque(f"{self.why}[...]")

    def sym_setitem(self, it, key, val):
        self.table.write_col(it, self.col, None, via="series[...] = ...")

    def sym_deepcopy(self, it):
        return FSaved(self.table.family, self.col, self.table.token(self.col))

    def sym_copy(self, it):
        return FSaved(self.table.family, self.col, self.table.token(self.col))

    def sym_binop(self, it, op, a, b):
        return Opaque(f"binop {op} on {self.why}")

    def sym_compare(self, it, op, a, b):
        return Opaque(f"compare on {self.why}")

    def sym_unop(self, it, op):
        return Opaque(f"unop on {self.why}")

    def sym_len(self, it):
        return self.table.sym_len(it)

    def sym_iop(self, it, op, rhs):
        self.table.write_col(it, self.col, None, via=f"series {op}= ...")
        return self

    def sym_any(self, it):
        return Opaque(f"any({self.why})")

    def sym_all(self, it):
        return Opaque(f"all({self.why})")

    def sym_abs(self, it):
        return Opaque(f"abs({self.why})")

    def sym_truth(self, it):
        return Opaque(f"truth({self.why})")


class FColOrMethod(FCol):
    """df.<name>: a column when read / stored, an (assumed pure) method when called"""

    def __init__(self, table, name):
        super().__init__(table, name)


class FSaved(Imm):
    """a value copied out of a column earlier (deepcopy / .copy()): storing it back restores the column"""

    opaque_like = True

    def __init__(self, family, col, tok):
        self.family, self.col, self.tok = family, col, tok
        self.why = f"saved copy of column {col}"

    def sym_deepcopy(self, it):
        return self

    def sym_copy(self, it):
        return self


class FView:
    """numpy view of a column (.values): stores through it write the table"""
    opaque_like = True

    def __init__(self, table, col):
        self.table = table
        self.col = col
        self.why = f"{table.name}.{col}.values"
        self.is_view = True

    def sym_getitem(self, it, key):
        return Opaque(f"{self.why}[...]")

    def sym_setitem(self, it, key, val):
        if self.col == "*":
            self.table.write_unknown(it, "values[...] = ...")
        else:
            self.table.write_col(it, self.col, None, via="store through .values view")

    def sym_iop(self, it, op, rhs):
        self.sym_setitem(it, None, None)
        return self

    def sym_binop(self, it, op, a, b):
        return Opaque(f"binop {op} on {self.why}")

    def sym_compare(self, it, op, a, b):
        return Opaque(f"compare on {self.why}")

    def sym_unop(self, it, op):
        return Opaque(f"unop on {self.why}")

    def sym_len(self, it):
        return self.table.sym_len(it)

    def sym_copy(self, it):
        return Opaque(f"copy of {self.why}")

    def sym_deepcopy(self, it):
        return FSaved(self.table.family, self.col, self.table.token(self.col))

    def sym_any(self, it):
        return Opaque(f"any({self.why})")

    def sym_all(self, it):
        return Opaque(f"all({self.why})")

    def sym_isnan(self, it):
        return Opaque(f"isnan({self.why})")


def fcol_attr(it, c, name):
    if name in ("values", "array"):
        return FView(c.table, c.col)
    if name == "to_numpy":
        return Native(lambda it, **k: FView(c.table, c.col) if not k.get("copy", False) else Opaque("to_numpy(copy)"), name="to_numpy")
    if name in ("loc", "at", "iloc", "iat"):
        return FIndexer(c.table, c.col)
    if name == "copy":
        return Native(lambda it, **k: FSaved(c.table.family, c.col, c.table.token(c.col)), name="Series.copy")
    if name in MUTATING_DF_METHODS:
        def meth(it, *a, **k):
            if k.get("inplace", False) is True:
                c.table.write_col(it, c.col, None, via=f"series.{name}(inplace=True)")
                return None
            return Opaque(f"{c.why}.{name}()")
        return Native(meth, pure=False, name=f"Series.{name}")
    return OpaqueMethod(f"{c.why}.{name}")


class OpaqueMethod(Opaque):
    pass


def fview_attr(it, v, name):
    if name == "fill":
        return Native(lambda it, x: v.sym_setitem(it, None, x), pure=False, name="ndarray.fill")
    if name in ("copy", "astype"):
        return Native(lambda it, *a, **k: Opaque(f"{v.why}.{name}()"), name=name)
    if name in ("sort", "put", "itemset", "resize", "partition"):
        return Native(lambda it, *a, **k: v.sym_setitem(it, None, None), pure=False, name=name)
    return Opaque(f"{v.why}.{name}")


class FIndexer:
    def __init__(self, table, col):
        self.table = table
        self.col = col

    def sym_getitem(self, it, key):
        if self.col is None and isinstance(key, tuple) and len(key) == 2 and isinstance(key[1], str) and \
                isinstance(key[0], slice) and key[0] == slice(None, None, None):
            return FCol(self.table, key[1])
        return Opaque(f"{self.table.name}.loc[...]")

    def sym_setitem(self, it, key, val):
        col = self.col
        if col is None and isinstance(key, tuple) and len(key) == 2:
            col = key[1]
        if isinstance(col, str):
            self.table.write_col(it, col, None, via=".loc/.at[...] = ...")
        elif isinstance(col, (list, tuple)) and all(isinstance(c, str) for c in col):
            for c in col:
                self.table.write_col(it, c, None, via=".loc[..., cols] = ...")
        else:
            # new label => may add a row
            self.table.write_unknown(it, ".loc[...] = ...")
            self.table.write_rows(it, ".loc[new label] = ...")


ELEMENT_TABLES_EXCLUDED_PREFIXES = ("_", "res_")
NON_TABLE_FIELDS = {"sn_mva", "f_hz", "name", "version", "format_version", "std_types", "user_pf_options", "converged",
                    "OPF_converged", "convergence", "trafo_shift_degree", "trafo_shift_percent"}


class FrameNet(Net):
    """pandapowerNet whose element tables are frame-tracked"""

    def __init__(self, tracker=None, extra=None):
        super().__init__({}, strict=False, name="net")
        self.tr = tracker or Tracker()
        self.orig = {}
        for k, v in (extra or {}).items():
            self.fields.set(k, v)

    def _is_table(self, key):
        return isinstance(key, str) and not key.startswith(ELEMENT_TABLES_EXCLUDED_PREFIXES) and key not in NON_TABLE_FIELDS

    def sym_getitem(self, it, key):
        if isinstance(key, (Opaque, SV)):
            # net[<unknown name>]: some table of the net; a store into it cannot be attributed and counts as a violation
            if "<some table>" not in self.orig:
                t = FTable("<some table>", self.tr)
                self.orig["<some table>"] = t
                self.fields.set("<some table>", t)
            return self.fields.raw("<some table>")
        if self.fields.presence(key) is True:
            return self.fields.raw(key)
        if self._is_table(key):
            t = FTable(key, self.tr)
            self.orig[key] = t
            self.fields.set(key, t)
            return t
        return super().sym_getitem(it, key)

    def sym_setitem(self, it, key, val):
        if it.ctx.merge_mode:
            raise CannotMerge()
        if self._is_table(key) and key not in self.orig:
            self.sym_getitem(it, key)
        if self._is_table(key):
            self.tr.log.append((key, "table rebound", "net[...] = ..."))
        self.fields.set(key, val)

    def sym_contains(self, it, key):
        if self.fields.presence(key) is True:
            return True
        return Opaque(f"'{key}' in net")

    def sym_deepcopy(self, it):
        n = FrameNet(self.tr)
        for k in list(self.fields.e):
            v = self.fields.raw(k)
            n.fields.set(k, v.snapshot() if isinstance(v, FTable) else v)
        # tables of a deep copy belong to new families: nothing done to them can affect the original
        for k in list(n.fields.e):
            v = n.fields.raw(k)
            if isinstance(v, FTable):
                v.family = fresh_id()
        n.orig = {}
        n.is_copy = True
        return n

    def sym_copy(self, it):
        n = FrameNet(self.tr)
        n.fields = PDict(self.fields)
        n.orig = self.orig
        return n


def framenet_setattr(it, net, name, val):
    net.sym_setitem(it, name, val)
    return None


def frame_violations(net: FrameNet):
    """list of (table, what) for element tables of the user's net that are not in their original state"""
    bad = []
    for name, t0 in net.orig.items():
        if net.fields.presence(name) is not True:
            bad.append((name, "table removed from the net"))
            continue
        t = net.fields.raw(name)
        if not isinstance(t, FTable):
            bad.append((name, f"table rebound to a {type(t).__name__} that is not a copy of the original"))
            continue
        if t.family != t0.family:
            bad.append((name, "table rebound to another table"))
            continue
        if t.rows != ("orig-rows",):
            bad.append((name, "rows added or removed and not restored"))
        for col in sorted(net.tr.touched.get(t0.family, set()) | set(t.cols)):
            if t.token(col) != ("orig", col):
                bad.append((name, f"column {col} modified and not restored"))
    return bad


def install(it):
    from . import netmodel
    netmodel.install(it)
    it.attr_hooks.insert(0, (FTable, ftable_attr))
    it.attr_hooks.insert(0, (FView, fview_attr))
    it.attr_hooks.insert(0, (FCol, fcol_attr))
    it.setattr_hooks = [(FTable, ftable_setattr), (FrameNet, framenet_setattr)] + list(it.setattr_hooks)
    it.opaque_loops = True
    it.lenient_numpy = True
    from .frame_syntactic import Checker
    ck = Checker()

    def fallback(it2, f):
        a = f.node.args
        params = [x.arg for x in a.posonlyargs + a.args + a.kwonlyargs]
        if a.vararg:
            params.append(a.vararg.arg)
        if a.kwarg:
            params.append(a.kwarg.arg)
        ok = ck.readonly(f.modenv.modname, f.qualname, params)
        if ok:
            it2.ctx.ghost.setdefault("readonly_by_syntactic_check", set()).add(f.key)
        return ok
    it.frame_fallback = fallback
