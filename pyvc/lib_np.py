"""numpy / pandas summaries over the generic-index arrays (assumed contracts A-NUMPY / A-PANDAS, DESIGN 2.11).
Every summary is a pointwise definition; anything else raises EngineError (checker error, never a violation)."""
from __future__ import annotations

import math

import z3

from .values import (SV, CV, XV, Opaque, EngineError, to_z, truth_z, ite, arith, compare, logic, snot, sabs, PV, to_pv,
                     fresh, B, I, R, coerce, is_sym, ssqrt, sexp, slog10, ssin, scos, pi, spow, fresh_id, _flag_z,
                     F_arctan2)
from .interp import Native, Namespace, PyRaise, CannotMerge, FuncVal
from . import tabletheory
from .arrays import (require_same_mask, Arr, Series, Table, Mat, Space, MultiArr, elementwise, any_, all_, is_scalar, scalar_ite, scalar_isnan,
                     map_generic, subst, _mask_and, _is_boolish, FilteredTable, Cols, _key, _mask_eq)


def _arr(x):
    return x.arr() if isinstance(x, Series) or type(x).__name__ == "IndexVal" else x


def _ew(fn):
    def f(it, *args, **kw):
        out = kw.pop("out", None)
        where = kw.pop("where", None)
        kw.pop("dtype", None)
        if any(isinstance(a, Opaque) or getattr(a, "opaque_like", False) for a in list(args) + [out, where]):
            # unknown operands (frame-tracking mode): unknown result; a store through out= is tracked
            if out is not None and hasattr(out, "sym_setitem") and getattr(out, "opaque_like", False):
                out.sym_setitem(it, None, None)
                return out
            return Opaque("ufunc(unknown)")
        if kw:
            raise EngineError(f"numpy ufunc keyword {list(kw)}")
        if any(isinstance(a, Rows) for a in args) and out is None and where is None:
            n = len(next(a for a in args if isinstance(a, Rows)).rows)
            return Rows([f(it, *[(a.rows[k] if isinstance(a, Rows) else a) for a in args]) for k in range(n)])
        if any(isinstance(a, SmallMat) for a in args) and out is None and where is None:
            m = next(a for a in args if isinstance(a, SmallMat))
            ex = lambda v: SV(z3.RealVal(v)) if isinstance(v, int) and not isinstance(v, bool) else v     # exact arithmetic on integer entries
            return SmallMat([[fn(it, *[ex(a.rows[i][j] if isinstance(a, SmallMat) else a) for a in args]) for j in range(len(m.rows[i]))]
                             for i in range(len(m.rows))])
        r = elementwise(it, lambda *xs: fn(it, *xs), *args)
        if out is not None or where is not None:
            if where is None:
                r0 = r
            else:
                if out is None:
                    raise EngineError("ufunc where= without out=")
                r0 = elementwise(it, lambda w, new, old: scalar_ite(w if isinstance(w, bool) else SV(truth_z(w)), new, old), where, r, out)
            if isinstance(out, Arr):
                out.set_e(it, r0.e if isinstance(r0, Arr) else r0)
                return out
            return r0
        return r
    return f


def s_sqrt(it, x):
    if isinstance(x, XV):
        return XV(s_sqrt(it, x.v), x.nan)
    if isinstance(x, CV):
        raise EngineError("complex sqrt")
    if not is_sym(x):
        if isinstance(x, (int, float)) and x >= 0:
            r = math.sqrt(x)
            return int(r) if float(r).is_integer() and float(x).is_integer() else ssqrt(x)
        raise EngineError(f"sqrt({x!r})")
    return ssqrt(x)


def s_square(it, x):
    return it.binop("*", x, x)


def s_abs(it, x):
    return sabs(x)


def s_where(it, c, a, b):
    cz = c if isinstance(c, bool) else SV(truth_z(c))
    return scalar_ite(cz, a, b)


def s_max(it, a, b):
    # np.maximum: NaN propagates
    if isinstance(a, XV) or isinstance(b, XV):
        a2, b2 = XV.of(a), XV.of(b)
        return XV(ite(compare(">=", a2.v, b2.v), a2.v, b2.v), z3.Or(_flag_z(a2.nan), _flag_z(b2.nan)))
    if not is_sym(a) and not is_sym(b):
        return max(a, b)
    return ite(compare(">=", a, b), a, b)


def s_min(it, a, b):
    if isinstance(a, XV) or isinstance(b, XV):
        a2, b2 = XV.of(a), XV.of(b)
        return XV(ite(compare("<=", a2.v, b2.v), a2.v, b2.v), z3.Or(_flag_z(a2.nan), _flag_z(b2.nan)))
    if not is_sym(a) and not is_sym(b):
        return min(a, b)
    return ite(compare("<=", a, b), a, b)


def s_fmax(it, a, b):
    # np.fmax: NaN is ignored unless both are NaN
    a2, b2 = XV.of(a), XV.of(b)
    an, bn = _flag_z(a2.nan), _flag_z(b2.nan)
    v = ite(SV(an), b2.v, ite(SV(bn), a2.v, ite(compare(">=", a2.v, b2.v), a2.v, b2.v)))
    r = XV(v, z3.And(an, bn))
    return r if r.nan is not False else r.v


def s_fmin(it, a, b):
    a2, b2 = XV.of(a), XV.of(b)
    an, bn = _flag_z(a2.nan), _flag_z(b2.nan)
    v = ite(SV(an), b2.v, ite(SV(bn), a2.v, ite(compare("<=", a2.v, b2.v), a2.v, b2.v)))
    r = XV(v, z3.And(an, bn))
    return r if r.nan is not False else r.v


def s_isnan(it, x):
    return scalar_isnan(x)


def s_nan_to_num(it, x, nan=0.0):
    if isinstance(x, XV):
        return ite(SV(_flag_z(x.nan)), nan, x.v) if x.nan is not False else x.v
    if isinstance(x, float) and x != x:
        return nan
    return x


def s_real(it, x):
    return x.re if isinstance(x, CV) else (x.real if isinstance(x, complex) else x)


def s_imag(it, x):
    return x.im if isinstance(x, CV) else (x.imag if isinstance(x, complex) else 0)


def s_conj(it, x):
    return x.conj() if isinstance(x, CV) else (x.conjugate() if isinstance(x, complex) else x)


def s_exp(it, x):
    if isinstance(x, CV):
        # exp(a + jb) = exp(a) (cos b + j sin b)
        m = 1 if (not is_sym(x.re) and x.re == 0) else sexp(x.re)
        return CV(arith("*", m, scos(x.im)), arith("*", m, ssin(x.im)))
    if isinstance(x, complex):
        return s_exp(it, CV(x.real, x.imag))
    if not is_sym(x):
        return math.exp(x)
    return sexp(x)


def s_sign(it, x):
    if not is_sym(x):
        return (x > 0) - (x < 0)
    return ite(compare(">", x, 0), 1, ite(compare("<", x, 0), -1, 0))


def s_deg2rad(it, x):
    return arith("/", arith("*", x, pi()), 180)


def s_rad2deg(it, x):
    return arith("/", arith("*", x, 180), pi())


def _xv1(f, x):
    """a real function applied to a value with NaN flag: NaN propagates"""
    if isinstance(x, XV):
        return XV(f(x.v), x.nan)
    return f(x)


def _uf1(name):
    f = z3.Function(name, R, R)

    def g(it, x):
        if isinstance(x, XV):
            return XV(g(it, x.v), x.nan)
        if not is_sym(x):
            return getattr(math, name[2:])(x)
        t = z3.simplify(coerce(to_z(x), R))
        if name in ("u_asin", "u_atan", "u_tan"):
            from .values import AX
            AX.add((name, t.get_id()), z3.Implies(t == 0, f(t) == 0))
        return SV(f(t))
    return g


s_arcsin, s_arctan, s_arccos, s_tan = _uf1("u_asin"), _uf1("u_atan"), _uf1("u_acos"), _uf1("u_tan")


def s_angle(it, x, deg=False):
    x = x if isinstance(x, CV) else CV(x, 0)
    t = SV(F_arctan2(coerce(to_z(x.im), R), coerce(to_z(x.re), R)))
    return s_rad2deg(it, t) if deg else t


def s_logical_and(it, a, b):
    return logic("&", a if isinstance(a, bool) else SV(truth_z(a)), b if isinstance(b, bool) else SV(truth_z(b)))


def s_logical_or(it, a, b):
    return logic("|", a if isinstance(a, bool) else SV(truth_z(a)), b if isinstance(b, bool) else SV(truth_z(b)))


def s_logical_not(it, a):
    return (not a) if isinstance(a, bool) else snot(SV(truth_z(a)))


def s_clip(it, x, lo, hi):
    r = x
    if lo is not None:
        r = s_max(it, r, lo)
    if hi is not None:
        r = s_min(it, r, hi)
    return r


def s_isclose(it, a, b, rtol=1e-05, atol=1e-08, equal_nan=False):
    # numpy's definition: |a - b| <= atol + rtol * |b|
    if isinstance(a, SV) and a.is_pv() or isinstance(b, SV) and b.is_pv():
        from .values import pv_num
        a = SV(pv_num(a.z)) if isinstance(a, SV) and a.is_pv() else a
        b = SV(pv_num(b.z)) if isinstance(b, SV) and b.is_pv() else b
    return compare("<=", sabs(arith("-", a, b)), arith("+", atol, arith("*", rtol, sabs(b))))


def s_power(it, a, b):
    return it.binop("**", a, b)


def make_numpy(it):
    import numpy as real_np

    def nat(fn, pure=True, name=None):
        return Native(fn, pure=pure, name=name or fn.__name__)

    def astype(it, x, t=None, **k):
        return elementwise(it, lambda e: it.builtins["__astype__"](it, e, t), x) if isinstance(x, (Arr, Series)) else it.builtins["__astype__"](it, x, t)

    def np_array(it, x, dtype=None, **k):
        if isinstance(x, (Arr, Series)):
            a = _arr(x)
            r = Arr(a.space, a.e, a.mask)
            return astype(it, r, dtype) if dtype is not None else r
        if isinstance(x, Opaque):
            return x
        if type(x).__name__ == "BroadcastList":
            n = x.n
            if isinstance(n, SV) and z3.is_const(n.z) and n.z.decl().name().startswith("n@"):
                return Arr(Space.get(n.z.decl().name()[2:]), x.x if x.x is not None else SV(PV.none), True)
            return Opaque("np.array([x] * n)")
        if is_scalar(x):
            return astype(it, x, dtype) if dtype is not None else x
        if isinstance(x, (Rows, SmallMat)):
            return x
        if isinstance(x, (list, tuple)) and x and all(isinstance(r, (list, tuple)) for r in x) and len({len(r) for r in x}) == 1 and \
                any(is_sym(e) for r in x for e in r):
            return SmallMat(x)
        if isinstance(x, (list, tuple)):
            if getattr(it, "lenient_numpy", False):
                return Opaque("np.array([...])")
            if any(isinstance(e, Opaque) or getattr(e, "opaque_like", False) for e in x):
                return Opaque("np.array([...unknown...])")
            if all(not is_sym(e) and not isinstance(e, (Arr, Series)) for e in x):
                dt = dtype.py if isinstance(dtype, TypeTag) else (dtype.typ if hasattr(dtype, "typ") else dtype)
                return real_np.array(x, dtype=dt) if dt is not None else real_np.array(x)
            return SmallVec(list(x))
        raise EngineError(f"np.array({type(x).__name__})")

    def zeros_like(it, x, dtype=None, **k):
        a = _arr(x)
        if isinstance(a, Arr):
            v = 0.0
            nm = getattr(dtype, "__name__", str(dtype))
            if dtype is not None and "bool" in nm:
                v = False
            elif dtype is not None and "int" in nm:
                v = 0
            return Arr(a.space, v, a.mask)
        raise EngineError("zeros_like")

    def full_like(it, x, val=None, dtype=None, fill_value=None, **k):
        a = _arr(x)
        return Arr(a.space, val if val is not None else fill_value, a.mask)

    def ones_like(it, x, dtype=None, **k):
        a = _arr(x)
        return Arr(a.space, 1.0, a.mask)

    def _alloc(it, n, val):
        """np.zeros(len(x)) etc: the length must be the symbolic length of a known space"""
        if isinstance(n, tuple) and len(n) == 1:
            n = n[0]
        if isinstance(getattr(n, "length_of", None), Cat):
            return Cat([Arr(part.space, val, part.mask) for part in n.length_of.parts])
        if isinstance(n, SV) and z3.is_const(n.z) and n.z.decl().name().startswith("n@"):
            return Arr(Space.get(n.z.decl().name()[2:]), val, True)
        if isinstance(n, int):
            return real_np.full(n, val)
        if getattr(it, "lenient_numpy", False):
            return Opaque("np allocation")
        if isinstance(n, tuple) and len(n) == 2 and isinstance(n[1], int) and not isinstance(n[0], int):
            return Cols([_alloc(it, n[0], val) for _ in range(n[1])])
        if isinstance(n, tuple) and len(n) == 2:
            raise EngineError("2-D allocation")
        raise EngineError(f"allocation of symbolic length {n!r}")

    def np_setdiff1d(it, a, b, **k):
        # a scalar against a concrete list: empty iff the scalar is one of the items (only the length is used)
        if is_scalar(a) and isinstance(b, (list, tuple)) and all(not is_sym(x) for x in b):
            member = False
            for x in b:
                c = compare("==", a, x)
                member = c if member is False else logic("|", member, c)
            return _Count(ite(member, 0, 1) if is_sym(member) else (0 if member else 1))
        raise EngineError("numpy.setdiff1d of symbolic arrays has no summary")

    def np_any(it, x, axis=None, **k):
        if isinstance(x, Opaque):
            return Opaque(f"np.any({x.why})")
        if isinstance(x, (Arr, Series)):
            return any_(it, _arr(x))
        return it.call(it.builtins["any"], [x if not is_scalar(x) else [x]], {})

    def np_all(it, x, axis=None, **k):
        if isinstance(x, Opaque):
            return Opaque(f"np.all({x.why})")
        if isinstance(x, (Arr, Series)):
            return all_(it, _arr(x))
        if isinstance(x, (list, tuple)) and x and all(isinstance(e, (Arr, Series)) for e in x):
            acc = True
            for e in x:
                r = all_(it, _arr(e))
                acc = r if acc is True else logic("&", acc, r)
            return acc
        return it.call(it.builtins["all"], [x if not is_scalar(x) else [x]], {})

    def np_isin(it, x, test, **k):
        invert = k.get("invert", False)
        a = _arr(x)
        r = isin(it, a, test)
        if invert:
            return elementwise(it, lambda e: s_logical_not(it, e), r)
        return r

    def np_sum(it, x, axis=None, **k):
        if isinstance(x, (Arr, Series)):
            return sum_(it, _arr(x))
        if isinstance(x, Opaque):
            return Opaque("np.sum")
        return it.call(it.builtins["sum"], [x], {})

    def hstack(it, xs, **k):
        if isinstance(xs, Opaque) or getattr(it, "lenient_numpy", False):
            return Opaque("np.hstack(...)")
        xs = [x for x in xs if not (isinstance(x, real_np.ndarray) and x.size == 0)]
        if any(isinstance(x, Opaque) for x in xs):
            return Opaque("np.hstack([... unknown ...])")
        xs = [y for x in xs for y in (x.parts if isinstance(x, Cat) else [x])]
        if all(isinstance(x, (Arr, Series)) for x in xs):
            return Cat([_arr(x) for x in xs])
        raise EngineError(f"hstack of non-arrays: {[type(x).__name__ for x in xs]}")

    def errstate(it, **k):
        return None

    attrs = {
        "sqrt": nat(_ew(s_sqrt), name="sqrt"), "square": nat(_ew(s_square), name="square"),
        "abs": nat(_ew(s_abs), name="abs"), "absolute": nat(_ew(s_abs), name="absolute"),
        "where": nat(lambda it, c, *ab: _ew(s_where)(it, c, *ab) if ab else np_nonzero(it, c), name="where"),
        "maximum": nat(_ew(s_max), name="maximum"), "minimum": nat(_ew(s_min), name="minimum"),
        "fmax": nat(_ew(s_fmax), name="fmax"), "fmin": nat(_ew(s_fmin), name="fmin"),
        "isnan": nat(_ew(s_isnan), name="isnan"), "isfinite": nat(_ew(lambda it, x: s_logical_not(it, s_isnan(it, x))), name="isfinite"),
        "nan_to_num": nat(lambda it, x, nan=0.0, **k: elementwise(it, lambda e: s_nan_to_num(it, e, nan), x), name="nan_to_num"),
        "real": nat(_ew(s_real), name="real"), "imag": nat(_ew(s_imag), name="imag"), "conj": nat(_ew(s_conj), name="conj"),
        "conjugate": nat(_ew(s_conj), name="conjugate"),
        "exp": nat(_ew(s_exp), name="exp"), "sign": nat(_ew(s_sign), name="sign"),
        "log10": nat(_ew(lambda it, x: slog10(x) if is_sym(x) else math.log10(x)), name="log10"),
        "sin": nat(_ew(lambda it, x: _xv1(ssin, x) if is_sym(x) else math.sin(x)), name="sin"),
        "cos": nat(_ew(lambda it, x: _xv1(scos, x) if is_sym(x) else math.cos(x)), name="cos"),
        "deg2rad": nat(_ew(s_deg2rad), name="deg2rad"), "rad2deg": nat(_ew(s_rad2deg), name="rad2deg"),
        "arcsin": nat(_ew(s_arcsin), name="arcsin"), "arctan": nat(_ew(s_arctan), name="arctan"),
        "arccos": nat(_ew(s_arccos), name="arccos"), "tan": nat(_ew(s_tan), name="tan"),
        "radians": nat(_ew(s_deg2rad), name="radians"), "degrees": nat(_ew(s_rad2deg), name="degrees"),
        "angle": nat(lambda it, x, deg=False: elementwise(it, lambda e: s_angle(it, e, deg), x), name="angle"),
        "logical_and": nat(_ew(s_logical_and), name="logical_and"), "logical_or": nat(_ew(s_logical_or), name="logical_or"),
        "logical_not": nat(_ew(s_logical_not), name="logical_not"),
        "clip": nat(lambda it, x, a_min=None, a_max=None, **k: elementwise(it, lambda e, lo, hi: s_clip(it, e, lo, hi), x, a_min, a_max)
                    if not (a_min is None or a_max is None) else elementwise(it, lambda e: s_clip(it, e, a_min, a_max), x), name="clip"),
        "isclose": nat(lambda it, a, b, **k: elementwise(it, lambda x, y: s_isclose(it, x, y, **k), a, b), name="isclose"),
        "allclose": nat(lambda it, a, b, **k: np_all(it, elementwise(it, lambda x, y: s_isclose(it, x, y, **k), a, b)), name="allclose"),
        "power": nat(_ew(s_power), name="power"),
        "matmul": nat(np_matmul, name="matmul"),
        "multiply": nat(_ew(lambda it, a, b: it.binop("*", a, b)), name="multiply"),
        "divide": nat(_ew(lambda it, a, b: it.binop("/", a, b)), name="divide"),
        "add": nat(_ew(lambda it, a, b: it.binop("+", a, b)), name="add"),
        "subtract": nat(_ew(lambda it, a, b: it.binop("-", a, b)), name="subtract"),
        "array": nat(np_array, name="array"), "asarray": nat(np_array, name="asarray"),
        "zeros_like": nat(zeros_like, name="zeros_like"), "ones_like": nat(ones_like, name="ones_like"),
        "full_like": nat(full_like, name="full_like"), "empty_like": nat(zeros_like, name="empty_like"),
        "zeros": nat(lambda it, n=None, dtype=None, shape=None, **k: _alloc(it, n if n is not None else shape, False if "bool" in getattr(dtype, "__name__", str(dtype)) else 0.0), name="zeros"),
        "ones": nat(lambda it, n=None, dtype=None, shape=None, **k: _alloc(it, n if n is not None else shape, True if "bool" in getattr(dtype, "__name__", str(dtype)) else 1.0), name="ones"),
        "full": nat(lambda it, n=None, v=None, dtype=None, shape=None, fill_value=None, **k: _alloc(it, n if n is not None else shape, v if v is not None else fill_value), name="full"),
        "empty": nat(lambda it, n=None, dtype=None, shape=None, **k: _alloc(it, n if n is not None else shape, 0.0), name="empty"),
        "any": nat(np_any, name="any"), "all": nat(np_all, name="all"), "sum": nat(np_sum, name="sum"),
        "max": nat(lambda it, x, axis=None, **k: _reduce2d(it, x, axis, s_max, "max"), name="max"),
        "min": nat(lambda it, x, axis=None, **k: _reduce2d(it, x, axis, s_min, "min"), name="min"),
        "amax": nat(lambda it, x, axis=None, **k: _reduce2d(it, x, axis, s_max, "max"), name="amax"),
        "isin": nat(np_isin, name="isin"), "in1d": nat(np_isin, name="in1d"),
        "arange": nat(np_arange, name="arange"),
        "nonzero": nat(np_nonzero, name="nonzero"),
        "flatnonzero": nat(lambda it, x: Arr(_arr(x).space, SV(_arr(x).space.i), _mask_and(_arr(x).mask, truth_z(_arr(x).e))), name="flatnonzero"),
        "hstack": nat(hstack, name="hstack"), "concatenate": nat(hstack, name="concatenate"),
        "vstack": nat(lambda it, xs, **k: Rows([_arr(x) for x in it.iterate(xs)]), name="vstack"),
        "errstate": nat(errstate, name="errstate"),
        "setdiff1d": nat(np_setdiff1d, name="setdiff1d"),
        "count_nonzero": nat(lambda it, x, **k: SV(__import__("pyvc.arrays", fromlist=["_count"])._count(it, _arr(x).space, _mask_and(_arr(x).mask, truth_z(_arr(x).e)))), name="count_nonzero"),
        "finfo": nat(lambda it, t=float, **k: __import__("numpy").finfo(float), name="finfo"),
        "copy": nat(lambda it, x: it.call(it.stub_modules["copy"].get("copy"), [x], {}), name="copy"),
        "nan": float("nan"), "inf": float("inf"), "pi": pi(), "newaxis": None, "e": math.e,
        "int64": TypeTag("int64", int), "float64": TypeTag("float64", float), "bool_": TypeTag("bool_", bool),
        "complex128": TypeTag("complex128", complex), "int32": TypeTag("int32", int), "float32": TypeTag("float32", float),
        "ndarray": TypeTag("ndarray", None), "integer": TypeTag("integer", int), "floating": TypeTag("floating", float),
        "number": TypeTag("number", None), "generic": TypeTag("generic", None), "intp": TypeTag("intp", int),
        "uint8": TypeTag("uint8", int), "object_": TypeTag("object", object), "str_": TypeTag("str_", str),
        "complex64": TypeTag("complex64", complex), "int8": TypeTag("int8", int), "int16": TypeTag("int16", int),
        "uint32": TypeTag("uint32", int), "uint64": TypeTag("uint64", int), "float16": TypeTag("float16", float),
        "bool": TypeTag("bool", bool), "complexfloating": TypeTag("complexfloating", complex),
    }
    it.builtins["__np_astype__"] = astype

    def lenient(nv):
        f0 = nv.fn

        def f(it, *a, **k):
            if getattr(it, "lenient_numpy", False) and any(
                    isinstance(x, Opaque) or getattr(x, "opaque_like", False) for x in list(a) + list(k.values())):
                out = k.get("out")
                if out is not None and getattr(out, "opaque_like", False) and hasattr(out, "sym_setitem"):
                    out.sym_setitem(it, None, None)      # a store through out= into a tracked view
                    return out
                return Opaque(f"np.{nv.name}(unknown)")
            return f0(it, *a, **k)
        return Native(f, pure=nv.pure, name=nv.name)
    for k0, v0 in list(attrs.items()):
        if isinstance(v0, Native):
            attrs[k0] = lenient(v0)

    def default(attr):
        if getattr(it, "lenient_numpy", False):
            return Opaque(f"np.{attr}")      # frame-tracking mode: unknown numpy members are unknown pure values

        def fallback(it, *a, **k):
            if any(isinstance(x, Opaque) for x in list(a) + list(k.values())):
                from .interp import _why
                return Opaque(f"np.{attr}({', '.join(_why(x) for x in a)})")
            if getattr(it, "lenient_numpy", False):
                return Opaque(f"np.{attr}(...)")
            raise EngineError(f"numpy.{attr} has no summary")
        return Native(fallback, name=f"np.{attr}")
    return Namespace("numpy", attrs, default=default)


class Rows:
    """np.vstack([a, b, c]): a 2-D array given by its rows (aligned 1-D arrays); .T gives the column view"""
    is_array = True

    def __init__(self, rows):
        self.rows = list(rows)

    def sym_binop(self, it, op, a, b):
        if isinstance(a, Rows) and isinstance(b, Rows):
            if len(a.rows) != len(b.rows):
                raise PyRaise(ValueError("operands could not be broadcast together"))
            return Rows([it.binop(op, x, y) for x, y in zip(a.rows, b.rows)])
        if isinstance(a, Rows) and is_scalar(b):
            return Rows([it.binop(op, x, b) for x in a.rows])
        if isinstance(b, Rows) and is_scalar(a):
            return Rows([it.binop(op, a, y) for y in b.rows])
        return NotImplemented

    def sym_getitem(self, it, key):
        if isinstance(key, tuple) and len(key) == 2 and isinstance(key[0], int) and isinstance(key[1], slice) and key[1] == slice(None, None, None):
            return self.rows[key[0]]
        if isinstance(key, int):
            return self.rows[key]
        if isinstance(key, tuple) and len(key) == 2 and isinstance(key[0], slice) and key[0] == slice(None, None, None):
            return Rows([it.getitem(r, key[1]) for r in self.rows])
        raise EngineError("index into stacked rows")


class SmallMat:
    """np.array([[...], [...]]) of (symbolic) scalars: a small constant-shape matrix"""

    def __init__(self, rows):
        self.rows = [list(r) for r in rows]

    def sym_binop(self, it, op, a, b):
        if isinstance(a, SmallMat) and is_scalar(b):
            return SmallMat([[it.binop(op, x, b) for x in r] for r in a.rows])
        if isinstance(b, SmallMat) and is_scalar(a):
            return SmallMat([[it.binop(op, a, y) for y in r] for r in b.rows])
        return NotImplemented


def np_matmul(it, m, x):
    if isinstance(m, SmallMat) and isinstance(x, Rows):
        if any(len(r) != len(x.rows) for r in m.rows):
            raise PyRaise(ValueError("matmul: shapes do not match"))
        out = []
        for r in m.rows:
            acc = None
            for c, row in zip(r, x.rows):
                term = it.binop("*", c, row)
                acc = term if acc is None else it.binop("+", acc, term)
            out.append(acc)
        return Rows(out)
    if isinstance(m, SmallMat) and isinstance(x, SmallMat):
        cols = list(zip(*x.rows))
        return SmallMat([[_dot(it, r, c) for c in cols] for r in m.rows])
    raise EngineError("np.matmul outside the small-matrix fragment")


def _dot(it, r, c):
    acc = None
    for a, b in zip(r, c):
        t = it.binop("*", a, b)
        acc = t if acc is None else it.binop("+", acc, t)
    return acc


def _reduce2d(it, x, axis, fn, name):
    if isinstance(x, Cols) and axis == 1:
        return x.reduce_axis1(it, lambda a, b: fn(it, a, b))
    if isinstance(x, Rows) and axis == 0:
        return Cols(x.rows).reduce_axis1(it, lambda a, b: fn(it, a, b))
    _no_reduce(name)


def rows_attr(it, r, name):
    if name == "T":
        return Cols(r.rows)
    if name in ("real", "imag"):
        return Rows([it.getattr(x, name) for x in r.rows])
    if name in ("conjugate", "conj"):
        return Native(lambda it: Rows([it.call(it.getattr(x, name), [], {}) for x in r.rows]), name=name)
    raise EngineError(f"vstack(...).{name}")


def _no_reduce(name):
    raise EngineError(f"reduction np.{name} over rows is outside the generic-index fragment")


def np_arange(it, *a, **k):
    from .arrays import SegRows, seg_between
    if len(a) == 2 and all(type(x).__name__ == "SegBound" for x in a):
        sg = seg_between(a[0], a[1])
        if sg is not None:
            return SegRows(sg)
    if len(a) == 1 and isinstance(a[0], SV) and z3.is_const(a[0].z) and a[0].z.decl().name().startswith("n@"):
        sp = Space.get(a[0].z.decl().name()[2:])
        return Arr(sp, SV(sp.i), True)          # the positions 0..n-1 of a row space
    if any(is_sym(x) or isinstance(x, Opaque) for x in a):
        if getattr(it, "lenient_numpy", False):
            return Opaque("np.arange(...)")
        raise EngineError("np.arange over symbolic bounds")
    import numpy as real_np
    return real_np.arange(*a, **k)


def np_nonzero(it, c):
    """np.nonzero(a) / np.where(cond): the positions where a is non-zero. In the generic-index fragment a position list is
    only usable as an index (x[idx], x[idx] = v): it is represented by the boolean mask itself (numpy returns a 1-tuple)."""
    if isinstance(c, Opaque) or getattr(c, "opaque_like", False):
        return (Opaque(f"nonzero({getattr(c, 'why', '?')})"),)
    a = _arr(c)
    if isinstance(a, Arr):
        e = a.e
        m = e if _is_boolish(e) else compare("!=", e, 0)
        return (Arr(a.space, m, a.mask),)
    raise EngineError("np.nonzero of a non-array")


class _Count:
    """a selection of which only the number of elements is known"""

    def __init__(self, n):
        self.n = n

    def sym_len(self, it):
        return self.n


class TypeTag:
    """numpy dtype objects used in astype()/isinstance()"""

    def __init__(self, name, py):
        self.__name__ = name
        self.py = py

    def __deepcopy__(self, memo):
        return self

    @property
    def dtype(self):
        # lets concrete numpy arrays of the interpreted program take the tag as a dtype argument
        if self.py in (int, float, bool, complex, str, object):
            return __import__("numpy").dtype(self.py)
        raise AttributeError("dtype")

    def _pyvc_isinstance(self, x):
        nm = self.__name__
        if isinstance(x, (Arr,)):
            return nm == "ndarray"
        if isinstance(x, SV):
            if nm in ("number", "generic"):
                return not x.is_pv()
            if nm in ("integer", "int64", "int32", "intp"):
                return x.is_int()
            if nm in ("floating", "float64"):
                return x.is_real()
            if nm in ("bool_", "bool"):
                return x.is_bool()
            return False
        if isinstance(x, CV):
            return nm in ("number", "generic", "complex128", "complexfloating")
        if isinstance(x, bool):
            return False
        if isinstance(x, (int, float, complex, str, type(None))):
            return False
        import numpy as real_np
        real = getattr(real_np, nm, None)
        try:
            return isinstance(x, real) if real is not None else False
        except TypeError:
            return False


class SmallVec:
    """np.array([a, b, c]) of symbolic scalars: a short concrete-length vector"""

    def __init__(self, items):
        self.items = items

    def sym_getitem(self, it, key):
        if isinstance(key, int):
            return self.items[key]
        if isinstance(key, slice):
            return SmallVec(self.items[key])
        raise EngineError("SmallVec index")

    def sym_len(self, it):
        return len(self.items)

    def sym_iter(self, it):
        return list(self.items)

    def sym_binop(self, it, op, a, b):
        if isinstance(a, SmallVec) and isinstance(b, SmallVec):
            if len(a.items) != len(b.items):
                raise PyRaise(ValueError("operands could not be broadcast together"))
            return SmallVec([it.binop(op, x, y) for x, y in zip(a.items, b.items)])
        if isinstance(a, SmallVec):
            if is_scalar(b):
                return SmallVec([it.binop(op, x, b) for x in a.items])
        elif is_scalar(a):
            return SmallVec([it.binop(op, a, y) for y in b.items])
        return NotImplemented

    def sym_sum(self, it):
        acc = 0
        for x in self.items:
            acc = it.binop("+", acc, x)
        return acc


class Cat:
    """np.hstack of arrays living in different spaces: piecewise array"""

    def __init__(self, parts):
        self.parts = parts

    def sym_unop(self, it, op):
        return Cat([it.unop(op, x) for x in self.parts])

    def sym_len(self, it):
        tot = None
        for part in self.parts:
            n = part.sym_len(it) if hasattr(part, "sym_len") else len(part)
            tot = n if tot is None else it.binop("+", tot, n)
        if isinstance(tot, SV):
            tot = SV(tot.z)
            tot.length_of = self        # np.zeros(len(cat)) allocates a piecewise array of the same structure
        return tot if tot is not None else 0

    def sym_binop(self, it, op, a, b):
        if isinstance(a, Cat) and isinstance(b, Cat):
            if len(a.parts) != len(b.parts):
                raise EngineError("Cat op Cat with different structure")
            return Cat([it.binop(op, x, y) for x, y in zip(a.parts, b.parts)])
        if isinstance(a, Cat) and is_scalar(b):
            return Cat([it.binop(op, x, b) for x in a.parts])
        if isinstance(b, Cat) and is_scalar(a):
            return Cat([it.binop(op, a, y) for y in b.parts])
        return NotImplemented


def isin(it, a, test):
    """np.isin(a, test): per-row membership. For a symbolic test array from another space the result is an
    uninterpreted membership predicate with the obvious axiom for the generic row of that space."""
    a = _arr(a)
    test = _arr(test)
    if isinstance(test, Arr) and (isinstance(test.e, CV) or (isinstance(a, Arr) and isinstance(a.e, CV))):
        # complex keys (pairs packed as re + im*1j): membership predicate over both components
        te, ae = (test.e if isinstance(test.e, CV) else CV(test.e, 0)), (a.e if isinstance(a.e, CV) else CV(a.e, 0))
        pred = z3.Function(f"isin2[{test.space.name},{_key(test.mask)},{_expr_key(SV(to_z(te.re, R)))},{_expr_key(SV(to_z(te.im, R)))}]", R, R, B)
        m = z3.BoolVal(True) if test.mask is True else test.mask
        it.ctx.axiom(z3.Implies(m, pred(to_z(te.re, R), to_z(te.im, R))))
        return Arr(a.space, SV(pred(to_z(ae.re, R), to_z(ae.im, R))), a.mask)
    if isinstance(test, Arr):
        pred = z3.Function(f"isin[{test.space.name},{_key(test.mask)},{_expr_key(test.e)}]", to_z(a.e).sort(), B)
        # axiom: the generic row's own value is a member
        m = z3.BoolVal(True) if test.mask is True else test.mask
        it.ctx.facts.append(z3.Implies(m, pred(to_z(test.e, to_z(a.e).sort()))))
        # witness (Skolem function): a value found in the selection is the value of some selected row
        az = to_z(a.e) if isinstance(a, Arr) else to_z(a)
        wit = z3.Function("wit:" + pred.name(), az.sort(), I)(az)
        ti = test.space.i
        te = to_z(test.e, az.sort())
        it.ctx.facts.append(z3.Implies(pred(az), z3.And(wit >= 0, wit < test.space.n, z3.substitute(m, (ti, wit)), z3.substitute(te, (ti, wit)) == az)))
        if getattr(it, "quantified_witnesses", False):
            # the same for every argument (needed when the membership formula is later instantiated for another element)
            y = z3.Const("y!" + pred.name(), az.sort())
            wy = z3.Function("wit:" + pred.name(), az.sort(), I)(y)
            it.ctx.facts.append(z3.ForAll([y], z3.Implies(pred(y), z3.And(wy >= 0, wy < test.space.n, z3.substitute(m, (ti, wy)),
                                                                       z3.substitute(te, (ti, wy)) == y)), patterns=[pred(y)]))
        return Arr(a.space, SV(pred(to_z(a.e))), a.mask) if isinstance(a, Arr) else SV(pred(to_z(a)))
    items = it.iterate(test)
    def f(e):
        acc = False
        for x in items:
            c = compare("==", e, x)
            acc = c if acc is False else logic("|", acc, c)
        return acc
    return Arr(a.space, f(a.e), a.mask) if isinstance(a, Arr) else f(a)


def _expr_key(e):
    if isinstance(e, SV):
        return _key(e.z == e.z) if False else __import__("hashlib").sha1(z3.simplify(e.z).sexpr().encode()).hexdigest()[:10]
    return repr(e)


def sum_(it, a):
    """sum over all rows: uninterpreted linear functional of the element expression (A-SUM)"""
    from .sigma import sigma
    return sigma(it, a)


# ------------------------------------------------------------------------------------------------
# attribute hooks for arrays / series / tables
# ------------------------------------------------------------------------------------------------
def arr_attr(it, a, name):
    def nat(fn, pure=True):
        return Native(fn, pure=pure, name=f"ndarray.{name}")
    if name == "astype":
        return nat(lambda it, t=None, **k: elementwise(it, lambda e: it.builtins["__astype__"](it, e, t), a))
    if name == "copy":
        return nat(lambda it: Arr(a.space, a.e, a.mask))
    if name in ("values", "to_numpy"):
        return a if name == "values" else nat(lambda it, **k: a)
    if name == "real":
        return a.like(s_real(it, a.e))
    if name == "imag":
        return a.like(s_imag(it, a.e))
    if name in ("conj", "conjugate"):
        return nat(lambda it: a.like(s_conj(it, a.e)))
    if name == "any":
        return nat(lambda it, **k: any_(it, a))
    if name == "all":
        return nat(lambda it, **k: all_(it, a))
    if name == "sum":
        return nat(lambda it, **k: sum_(it, a))
    if name in ("flatten", "ravel", "squeeze"):
        return nat(lambda it: a)
    if name in ("set_axis", "reset_index", "rename"):
        return nat(lambda it, *x, **k: a)
    if name == "fill":
        return nat(lambda it, v: a.set_e(it, v), pure=False)
    if name == "shape":
        return (a.sym_len(it),)
    if name == "size":
        return a.sym_len(it)
    if name == "dtype":
        return DType(a.e)
    if name == "T":
        return a
    if name == "equals":
        def equals(it, other):
            o = other.arr() if hasattr(other, "arr") else other
            if isinstance(o, Arr) and o.space is a.space and is_sym(a.e) and is_sym(o.e) and z3.eq(to_z(a.e), to_z(o.e)):
                return True
            return SV(z3.Bool(f"equals[{a.space.name},{_expr_key(a.e) if isinstance(a.e, SV) else '?'}]"))
        return nat(equals)
    if name == "fillna":
        return nat(lambda it, v, **k: elementwise(it, lambda x, y: s_nan_to_num(it, x, y), a, v))
    if name == "isin":
        return nat(lambda it, test: isin(it, a, test))
    if name in ("isnull", "isna"):
        return nat(lambda it: a.like(scalar_isnan(a.e)))
    if name in ("notnull", "notna"):
        return nat(lambda it: a.like(s_logical_not(it, scalar_isnan(a.e))))
    if name == "tolist":
        return nat(lambda it: a)
    if name == "clip":
        return nat(lambda it, lo=None, hi=None, **k: a.like(s_clip(it, a.e, k.get("lower", lo), k.get("upper", hi))))
    if name in ("max", "min"):
        raise EngineError(f"reduction ndarray.{name} is outside the generic-index fragment")
    raise EngineError(f"ndarray.{name} not modelled")


class DType(object):
    def __init__(self, e):
        self.e = e

    def __deepcopy__(self, memo):
        return self


def series_attr(it, s, name):
    def nat(fn, pure=True):
        return Native(fn, pure=pure, name=f"Series.{name}")
    if name == "values":
        return s.arr(view=True)
    if name == "to_numpy":
        return nat(lambda it, **k: s.arr(view=True))
    if name == "index":
        return Arr(s.table.space, s.table.index_e, True)
    if name in ("at", "loc"):
        return LabelIndexer(s.table, s.col)
    if name in ("iat", "iloc"):
        return PosIndexer(s.table, s.col)
    if name == "empty":
        return SV(s.table.space.n == 0)
    if name == "name":
        return s.col
    return arr_attr(it, s.arr(), name)


class _ColsAdapter:
    """undo-log view of a table's columns (same protocol as the guarded dict stores)"""

    def __init__(self, t):
        self.e = t.cols


class LabelIndexer:
    mergeable_store = True

    def __init__(self, table, col=None):
        self.table = table
        self.col = col

    def sym_getitem(self, it, key):
        t = self.table
        col = self.col
        if col is None and isinstance(key, (LabelList, IndexVal)) and key.table is t:
            return t        # .loc[all labels]: all rows in table order
        if col is None and isinstance(key, (Arr, Series)):
            m = key.arr() if isinstance(key, Series) else key
            if m.space is t.space and _is_boolish(m.e):
                return FilteredTable(t, _mask_and(m.mask, truth_z(m.e)))
        from .arrays import SetVal as _SetVal
        if col is not None and isinstance(key, _SetVal):
            # rows whose label belongs to the set (labels that do not exist select nothing: callers intersect with the index first)
            return Arr(t.space, t.cols[col], key.mem(to_z(t.index_e)))
        if col is None:
            if not isinstance(key, tuple) or len(key) != 2:
                raise EngineError(f".loc[{key!r}] without column")
            key, col = key
            if not isinstance(col, str):
                raise EngineError(".loc with non-constant column")
            if col in t.optional:
                if not it.ctx.expect(t.optional[col], tag=f"column {col} exists"):
                    raise PyRaise(KeyError(col))
            if col not in t.cols:
                raise PyRaise(KeyError(col))
        if isinstance(key, Series):
            key = key.arr()
        if isinstance(key, Arr):
            if _is_boolish(key.e):
                if key.space is not t.space:
                    raise EngineError(".loc[mask] with a mask from another table")
                return Arr(t.space, t.cols[col], _mask_and(key.mask, truth_z(key.e)))
            # labels from another table: gather by label
            return Arr(key.space, subst(t.cols[col], t.space.i, t.pos_of(to_z(key.e, I))), key.mask)
        if isinstance(key, slice) and key == slice(None, None, None):
            return Series(t, col)
        if isinstance(key, (int, SV)) and not isinstance(key, bool):
            return subst(t.cols[col], t.space.i, t.pos_of(to_z(key, I)))
        raise EngineError(f".loc/.at[{type(key).__name__}]")

    def sym_setitem(self, it, key, val):
        t = self.table
        col = self.col
        if col is None:
            if not isinstance(key, tuple) or len(key) != 2:
                raise EngineError(".loc store without column")
            key, col = key
        if isinstance(key, Series):
            key = key.arr()
        if isinstance(val, Series):
            val = val.arr()
        if isinstance(key, Arr) and _is_boolish(key.e) and key.space is t.space:
            m = _mask_and(key.mask, truth_z(key.e))
            v = val.e if isinstance(val, Arr) else val
            cur = t.cols.get(col)
            if cur is None:
                cur = XV(0, True)
            t.write(it, col, scalar_ite(SV(m), v, cur), via="loc")
            return
        if isinstance(key, Arr) and not _is_boolish(key.e) and key.space is t.space and is_sym(key.e) and is_sym(t.index_e) and \
                z3.eq(to_z(key.e), to_z(t.index_e)):
            # .loc[<labels of the rows selected by a mask>, col] = values : a masked store into the table's own rows
            m = key.mask
            if isinstance(val, Arr):
                if val.space is not t.space:
                    raise EngineError(".loc[labels] store: value of another row space")
                require_same_mask(it, val.mask, m, ".loc[labels] store")
                v = val.e
            elif is_scalar(val):
                v = val
            else:
                raise EngineError(".loc[labels] store value")
            cur = t.cols.get(col, XV(0, True))
            t.write(it, col, scalar_ite(SV(m if m is not True else z3.BoolVal(True)), v, cur), via="loc")
            return
        if isinstance(key, slice) and key == slice(None, None, None):
            t.write(it, col, val.e if isinstance(val, Arr) else val, via="loc")
            return
        if isinstance(key, (int, SV)) and not isinstance(key, bool):
            # single cell: the generic row is affected iff its label equals key
            cur = t.cols.get(col, XV(0, True))
            own = compare("==", t.index_e, key)
            if it.ctx.merge_mode and len(it.ctx.merge_guards) == it.ctx.merge_mode and is_scalar(val) and not isinstance(val, Opaque):
                # store inside a speculatively executed branch: guarded by the branch conditions (undone if the merge is abandoned)
                g = z3.And(*[x for x in it.ctx.merge_guards]) if it.ctx.merge_guards else z3.BoolVal(True)
                it.ctx.undo.append((_ColsAdapter(t), col, t.cols.get(col)))
                t.cols[col] = scalar_ite(SV(z3.And(g, truth_z(own))), val, cur)
                t.writes.append((col, "at"))
                return
            t.write(it, col, scalar_ite(own, val, cur), via="at")
            return
        raise EngineError(f".loc/.at store with key {type(key).__name__}")


class PosIndexer:
    def __init__(self, table, col=None):
        self.table = table
        self.col = col

    def sym_getitem(self, it, key):
        t = self.table
        if self.col is not None and isinstance(key, (int, SV)) and not isinstance(key, bool):
            return subst(t.cols[self.col], t.space.i, to_z(key, I))
        raise EngineError(".iloc/.iat access")

    def sym_setitem(self, it, key, val):
        t = self.table
        if self.col is not None and isinstance(key, SV) and z3.eq(z3.simplify(to_z(key, I)), t.space.i) and is_scalar(val):
            # .iat[i] = v inside the generic iteration over the rows: row i gets v
            t.write(it, self.col, val, via="iat")
            return
        raise EngineError(".iloc/.iat store")


def table_attr(it, t, name):
    def nat(fn, pure=True):
        return Native(fn, pure=pure, name=f"DataFrame.{name}")
    if name in ("loc", "at"):
        return LabelIndexer(t)
    if name in ("iloc", "iat"):
        return PosIndexer(t)
    if name == "index":
        return IndexVal(t)
    if name == "columns":
        return ColumnsView(t)
    if name == "values":
        return TableValues(t)
    if name == "empty":
        return SV(t.space.n == 0)
    if name == "get":
        def get(it, col, default=None):
            h = t.has(it, col)
            if h is True:
                return Series(t, col)
            if h is False:
                return default
            if it.truth(h, tag=f"column {col} exists"):
                return Series(t, col)
            return default
        return nat(get)
    if name == "set_index":
        def set_index(it, idx, inplace=False, **k):
            # the row labels change, the rows (positions) do not
            a = idx.arr() if hasattr(idx, "arr") else idx
            new = a.e if isinstance(a, Arr) and a.space is t.space else Opaque("new index")
            if inplace:
                t.index_e = new
                t.writes.append(("<index>", "set_index"))
                return None
            t2 = Table(t.name + "'reindexed", t.space, dict(t.cols), new, dict(t.optional))
            return t2
        return Native(set_index, name="set_index", pure=False)
    if name == "drop_duplicates":
        def drop_duplicates(it, subset=None, keep="first", **k):
            if not (isinstance(subset, (list, tuple)) and len(subset) == 1 and isinstance(subset[0], str) and keep in ("first", "last")):
                raise EngineError("drop_duplicates: only a single key column with keep='first' / 'last' is modelled")
            return tabletheory.KeyedRows(t, subset[0], keep)
        return nat(drop_duplicates)
    if name == "merge":
        return nat(lambda it, right, **k: tabletheory.merge(it, t, right, **k))
    if name == "query":
        return nat(lambda it, q, **k: Opaque(f"{t.name}.query({q!r})"))
    if name in ("itertuples", "iterrows"):
        def rows(it, **k):
            from .interp import ObjVal
            attrs = dict(t.cols)
            attrs["Index"] = t.index_e
            attrs["name"] = t.index_e
            cols_ = dict(t.cols)
            attrs["get"] = Native(lambda it, k, d=None: cols_.get(k, d), name="row.get")
            row = ObjVal(None, attrs)
            return RowsIter(t, row if name == "itertuples" else (t.index_e, row))
        return nat(rows)
    if name == "groupby":
        def groupby(it, col, **k):
            v = t.cols[col]
            if is_sym(v):
                raise EngineError("groupby over a symbolic key column (enumerate the key in the contract)")
            return [(v, t)]
        return nat(groupby)
    if name == "shape":
        return (SV(t.space.n), len(t.cols))
    if name == "copy":
        return nat(lambda it, **k: t.sym_deepcopy(it))
    if name in t.cols or name in t.optional:
        return t.sym_getitem(it, name)
    raise EngineError(f"DataFrame.{name} not modelled")


class LabelList:
    """list(df.index): the labels of all rows of a table (members may be removed: the list then names a subset of the rows)"""

    def __init__(self, table):
        self.table = table
        self.removed = []

    def sym_len(self, it):
        return SV(self.table.space.n)

    def arr(self):
        return Arr(self.table.space, self.table.index_e, True)


def labellist_attr(it, ll, name):
    if name == "remove":
        return Native(lambda it, x: ll.removed.append(x), name="remove", pure=False)
    raise EngineError(f"list of labels: .{name}")


class IndexVal:
    def __init__(self, table):
        self.table = table

    def arr(self):
        return Arr(self.table.space, self.table.index_e, True)

    def sym_getitem(self, it, key):
        return self.arr().sym_getitem(it, key)

    def sym_len(self, it):
        return SV(self.table.space.n)

    def sym_set(self, it):
        return Opaque("set(index)")

    def sym_list(self, it):
        return LabelList(self.table)

    def sym_binop(self, it, op, a, b):
        return elementwise(it, lambda x, y: it.binop(op, x, y), a.arr() if isinstance(a, IndexVal) else a,
                           b.arr() if isinstance(b, IndexVal) else b)


def index_attr(it, ix, name):
    if name == "values":
        return ix.arr()
    if name == "get_loc":
        return Native(lambda it, label: SV(ix.table.pos_of(to_z(label, I))), name="Index.get_loc")
    return arr_attr(it, ix.arr(), name)


class ColPos:
    """df.columns.get_loc(name): the position of a column, kept by name"""

    def __init__(self, table, name):
        self.table = table
        self.name = name


class TableValues:
    """df.values: the rows of the table as a 2-D array, indexed by (rows, column position)"""

    def __init__(self, table):
        self.table = table

    def sym_len(self, it):
        return SV(self.table.space.n)

    def sym_getitem(self, it, key):
        if not isinstance(key, tuple) or len(key) != 2:
            raise EngineError("df.values[...] with a single index")
        rows, col = key
        if isinstance(col, (list, tuple)) and len(col) == 1:
            col = col[0]            # a[rows, [c]] with a row selection: one-dimensional result (index broadcasting)
        if not isinstance(col, ColPos) or col.table is not self.table:
            raise EngineError("df.values[...] with a column position that was not obtained from df.columns.get_loc")
        t = self.table
        if col.name in t.optional:
            if not it.ctx.expect(t.optional[col.name], tag=f"column {col.name} exists"):
                raise PyRaise(KeyError(col.name))
        if isinstance(rows, Series):
            rows = rows.arr()
        if isinstance(rows, slice) and rows == slice(None, None, None):
            return Arr(t.space, t.cols[col.name], True)
        if isinstance(rows, Arr) and _is_boolish(rows.e):
            if rows.space is not t.space:
                raise EngineError("df.values[mask, c] with a mask from another table")
            return Arr(t.space, t.cols[col.name], _mask_and(rows.mask, truth_z(rows.e)))
        raise EngineError(f"df.values[{type(rows).__name__}, c]")


class ColumnsView:
    def __init__(self, table):
        self.table = table

    @property
    def get_loc(self):
        def get_loc(it, name):
            t = self.table
            if name in t.optional:
                if not it.ctx.expect(t.optional[name], tag=f"column {name} exists"):
                    raise PyRaise(KeyError(name))
            elif name not in t.cols:
                raise PyRaise(KeyError(name))
            return ColPos(t, name)
        return Native(get_loc, name="columns.get_loc")

    def sym_contains(self, it, col):
        return self.table.has(it, col)

    @property
    def values(self):
        return self         # `name in df.columns.values` is the same membership test

    def sym_iter(self, it):
        return list(self.table.cols)


def ftable_attr(it, ft, name):
    if name in ft.table.cols or name in ft.table.optional:
        return ft.sym_getitem(it, name)
    if name == "index":
        return Arr(ft.table.space, ft.table.index_e, ft.mask)
    raise EngineError(f"filtered DataFrame.{name}")


def cols_attr(it, c, name):
    def nat(fn):
        return Native(fn, name=f"ndarray.{name}")
    if name in ("real", "imag"):
        return elementwise(it, lambda e: (s_real if name == "real" else s_imag)(it, e), c)
    if name == "astype":
        return nat(lambda it, t=None, **k: elementwise(it, lambda e: it.builtins["__astype__"](it, e, t), c))
    if name in ("copy",):
        return nat(lambda it: elementwise(it, lambda e: e, c))
    if name in ("flatten", "ravel"):
        return nat(lambda it: c)
    if name == "T":
        return c
    if name == "values":
        return c
    if name == "any":
        def _any(it, axis=None, **k):
            if axis == 1:
                # per row: some column is truthy
                def row_any(*es):
                    acc = False
                    for e in es:
                        t = it.truth_sv(e)
                        acc = t if acc is False else logic("|", acc, t)
                    return acc
                return elementwise(it, row_any, *[_arr(x) for x in c.cols])
            raise EngineError("2-D any() over rows / all elements")
        return nat(_any)
    if name == "sum":
        def _sum(it, axis=None, **k):
            from .sigma import sigma
            if axis == 0:
                return SmallVec([sigma(it, _arr(x)) for x in c.cols])        # column totals
            if axis is None:
                tot = None
                for x in c.cols:
                    sx = sigma(it, _arr(x))
                    tot = sx if tot is None else it.binop("+", tot, sx)
                return tot
            raise EngineError("row sums of a 2-D array")
        return nat(_sum)
    raise EngineError(f"2-D array attribute .{name}")


def mat_attr(it, m, name):
    if name == "shape":
        n = SV(next(iter(m.segments.values())).n) if len(m.segments) == 1 else m.sym_len(it)
        return (n, Opaque(f"number of columns of {m.name}"))
    return NotImplemented


def setval_attr(it, sv, name):
    if name in ("difference", "intersection", "union"):
        return Native(lambda it, o, **k: getattr(sv, name)(to_setval(it, o, sv.x)), name=name)
    if name in ("tolist", "unique", "copy", "sort_values"):
        return Native(lambda it, *a, **k: sv, name=name)
    raise EngineError(f"set-valued cell .{name}")


def to_setval(it, v, x=None):
    """pd.Index(v) / a collection used as a set: membership of the generic element"""
    from .arrays import SetVal
    if isinstance(v, SetVal):
        return v
    if isinstance(v, (Series, IndexVal, LabelList)):
        v = v.arr()
    if isinstance(v, Arr):
        z = to_z(v.e)
        xx = x if x is not None else z3.Const(f"x@{_key(z)}", z.sort())
        member = isin(it, Arr(Space.get("one"), SV(xx)), v)
        return SetVal(xx, truth_z(member.e))
    raise EngineError(f"cannot view {type(v).__name__} as a set")


class IndexCtor:
    """pd.Index(values): the values as a set (order and duplicates are not modelled)"""
    __name__ = "Index"
    py = None
    typ = "Index"

    def _pyvc_isinstance(self, x):
        from .arrays import SetVal
        return isinstance(x, (IndexVal, SetVal))

    def fn(self, it, data=None, **k):
        if isinstance(data, Opaque):
            return Opaque("Index(...)")
        return to_setval(it, data)


def pyscalar_attr(it, x, name):
    if name == "astype":
        return Native(lambda it, t=None, **k: it.builtins["__astype__"](it, x, t), name="astype")
    return NotImplemented


def cat_attr(it, c, name):
    if name == "size":
        tot = None
        for part in c.parts:
            n = part.sym_len(it) if hasattr(part, "sym_len") else len(part)
            tot = n if tot is None else it.binop("+", tot, n)
        return tot if tot is not None else 0
    if name in ("ravel", "flatten"):
        return Native(lambda it, **k: c, name=name)
    if name == "astype":
        return Native(lambda it, t=None, **k: Cat([it.getattr(part, "astype").fn(it, t) if hasattr(it.getattr(part, "astype"), "fn") else part
                                                   for part in c.parts]), name="astype")
    return NotImplemented


def install(it):
    tabletheory.install(it)
    it.attr_hooks.append((Cat, cat_attr))
    from .arrays import SetVal
    it.attr_hooks.append((SetVal, setval_attr))
    it.attr_hooks.append((LabelList, labellist_attr))
    it.attr_hooks.append(((bool, int, float), pyscalar_attr))
    it.attr_hooks.append((Mat, mat_attr))
    it.attr_hooks.append((Rows, rows_attr))
    it.attr_hooks.append((Cols, cols_attr))
    it.attr_hooks.append((MultiArr, cols_attr))
    it.attr_hooks.append((FilteredTable, ftable_attr))
    np_ns = make_numpy(it)
    it.stub_modules["numpy"] = np_ns
    it.attr_hooks.append((Arr, arr_attr))
    it.attr_hooks.append((Series, series_attr))
    it.attr_hooks.append((Table, table_attr))
    it.attr_hooks.append((IndexVal, index_attr))
    pd_ns = Namespace("pandas", {
        "isnull": Native(_ew(s_isnan), name="isnull"), "isna": Native(_ew(s_isnan), name="isna"),
        "notnull": Native(_ew(lambda it, x: s_logical_not(it, s_isnan(it, x))), name="notnull"),
        "notna": Native(_ew(lambda it, x: s_logical_not(it, s_isnan(it, x))), name="notna"),
        "Series": tabletheory.SeriesCtor(), "DataFrame": tabletheory.DataFrameCtor(), "Index": IndexCtor(),
    }, default=lambda attr: Opaque(f"pd.{attr}"))
    it.stub_modules["pandas"] = pd_ns
    return np_ns


class RowsIter:
    """df.itertuples() / df.iterrows(): the generic row as a record"""

    def __init__(self, table, row):
        self.table = table
        self.row = row

    def generic_row(self):
        return self.table.space, True, self.row

    def make_like(self, e):
        return Arr(self.table.space, e, True)
