"""Builtins, dict/set methods and small stub modules (logging, warnings, inspect, copy, math)."""
from __future__ import annotations

import ast
import builtins as _bi
import collections
import copy as _copy
import math as _math

import z3

from .values import (SV, CV, Opaque, EngineError, to_z, truth_z, ite, compare, arith, sabs, PV, fresh, B, I, R,
                     coerce, ssqrt, sexp, slog10, ssin, scos, pi, is_sym, spow, to_pv, intern_str)
from .containers import PDict, PSet, p_and, p_not, p_sv, p_or, _p


def unk(it, x):
    """an unknown value (frame-tracking / opaque mode): no element structure is known"""
    return isinstance(x, Opaque) or getattr(x, "opaque_like", False) or \
        (isinstance(x, SV) and getattr(it, "opaque_loops", False))


def _w(x):
    return getattr(x, "why", "unknown")


def install(it):
    from .interp import (Native, Namespace, PyRaise, FuncVal, ClassVal, ObjVal, BoundMethod, GuardedSeq, CannotMerge)

    b = it.builtins
    for name in ("ValueError", "TypeError", "KeyError", "IndexError", "UserWarning", "NotImplementedError",
                 "Exception", "BaseException", "RuntimeError", "AttributeError", "ZeroDivisionError", "StopIteration",
                 "ImportError", "DeprecationWarning", "FutureWarning", "Warning", "AssertionError", "NameError",
                 "ArithmeticError", "LookupError", "OSError", "IOError", "FileNotFoundError", "ModuleNotFoundError",
                 "KeyboardInterrupt", "RuntimeWarning", "OverflowError", "FloatingPointError", "PendingDeprecationWarning",
                 "object", "property", "staticmethod", "classmethod", "slice", "Ellipsis", "NotImplemented",
                 "bytes", "frozenset", "complex", "callable", "id", "hash", "repr", "format", "chr", "ord", "divmod",
                 "reversed", "iter", "next", "open", "memoryview", "bytearray", "issubclass", "vars", "dir", "pow",
                 "UnicodeDecodeError", "SystemExit", "TimeoutError", "PermissionError", "NotADirectoryError"):
        b[name] = getattr(_bi, name)
    b["True"], b["False"], b["None"] = True, False, None
    b["__debug__"] = True

    def nat(name, pure=True):
        def deco(fn):
            b[name] = Native(fn, pure=pure, name=name)
            return fn
        return deco

    @nat("print")
    def _print(it, *a, **k):
        return None

    @nat("len")
    def _len(it, x):
        if isinstance(x, (PDict, PSet)):
            return x.sym_len()
        if hasattr(x, "sym_len"):
            return x.sym_len(it)
        if isinstance(x, Opaque):
            it.ctx.log_opaque.append(f"len({x.why})")
            return SV(z3.Const(f"opaque_len[{x.why}]", I))
        if isinstance(x, ObjVal):
            f = it.class_attr(x, "__len__")
            if f is not None:
                return it.call(f, [], {})
            raise PyRaise(TypeError("object has no len()"))
        if isinstance(x, (SV, CV)):
            if getattr(it, "opaque_loops", False):
                return SV(z3.Const(f"opaque_len[{str(getattr(x, 'z', x))[:40]}]", I))
            raise PyRaise(TypeError("len() of unsized object"))
        try:
            return len(x)
        except TypeError as e:
            raise PyRaise(e)

    @nat("range")
    def _range(it, *a):
        if len(a) == 1 and isinstance(a[0], SV) and z3.is_const(a[0].z) and a[0].z.decl().name().startswith("n@") \
                and getattr(it, "generic_loops", False):
            from .tabletheory import RangeOver
            from .arrays import Space
            return RangeOver(Space.get(a[0].z.decl().name()[2:]))
        if any(isinstance(x, (SV, Opaque)) for x in a):
            if getattr(it, "opaque_loops", False):
                return Opaque("range(unknown)")
            raise EngineError("range() over a symbolic bound (needs a loop invariant)")
        return range(*[int(x) for x in a])

    @nat("isinstance")
    def _isinstance(it, x, cls):
        return isinstance_(it, x, cls)

    def isinstance_(it, x, cls):
        if isinstance(cls, tuple):
            acc = False
            for c in cls:
                r = isinstance_(it, x, c)
                if r is True:
                    return True
                if r is False:
                    continue
                acc = r if acc is False else it.binop("|", acc, r)
            return acc
        if isinstance(cls, TypeStub):
            cls = cls.typ
        if isinstance(cls, Native) and cls.name in ("dict", "list", "set", "tuple", "frozenset", "type", "range"):
            cls = {"dict": dict, "list": list, "set": set, "tuple": tuple, "frozenset": frozenset, "type": type, "range": range}[cls.name]
        if isinstance(cls, Opaque):
            if isinstance(x, (SV, CV, int, float, str, bool, type(None))):
                return False
            return Opaque("isinstance")
        if isinstance(x, Opaque):
            return Opaque(f"isinstance({x.why})")
        if isinstance(x, ObjVal):
            if isinstance(cls, ClassVal):
                return x.cls is not None and cls in x.cls.mro()
            if hasattr(cls, "_pyvc_isinstance"):
                return cls._pyvc_isinstance(x)
            if isinstance(cls, type):
                if cls is object:
                    return True
                return x.cls is not None and any((not isinstance(c, ClassVal)) and isinstance(c, type) and issubclass(c, cls) for c in x.cls.mro())
            return False
        if hasattr(cls, "_pyvc_isinstance"):
            return cls._pyvc_isinstance(x)
        if isinstance(cls, ClassVal):
            return False
        if isinstance(x, SV):
            if x.is_pv():
                z = x.z
                if cls is str:
                    return SV(PV.is_s(z))
                if cls is bool:
                    return SV(PV.is_b(z))
                if cls is int:
                    return SV(z3.Or(PV.is_i(z), PV.is_b(z)))
                if cls is float:
                    return SV(PV.is_r(z))
                if cls is type(None):
                    return SV(PV.is_none(z))
                if getattr(cls, "__name__", "") in ("Number", "Complex", "Real"):
                    from .values import pv_is_num
                    return SV(pv_is_num(z))
                if getattr(cls, "__name__", "") in ("Integral", "Rational"):
                    return SV(z3.Or(PV.is_i(z), PV.is_b(z)))
                if cls in (dict, list, tuple, set, collections.abc.Iterable, collections.abc.Mapping) or isinstance(cls, type):
                    f = z3.Function(f"isinstance_{getattr(cls, '__name__', 'x')}", PV, B)
                    if cls is object:
                        return True
                    return SV(z3.And(PV.is_o(z), f(z)))
                return Opaque("isinstance(pv)")
            if x.is_bool():
                return cls in (bool, int, object) or getattr(cls, "__name__", "") in ("bool_", "integer", "number", "generic", "Number", "Integral")
            if x.is_int():
                return cls in (int, object) or getattr(cls, "__name__", "") in ("integer", "number", "generic", "Number", "Integral", "Real", "int64")
            if x.is_real():
                return cls in (float, object) or getattr(cls, "__name__", "") in ("floating", "number", "generic", "Number", "Real", "float64")
        if isinstance(x, CV):
            return cls in (complex, object) or getattr(cls, "__name__", "") in ("number", "generic", "Number", "complexfloating", "complex128")
        if isinstance(x, PDict):
            return cls in (dict, object, collections.abc.Mapping, collections.abc.MutableMapping, collections.abc.Iterable)
        if isinstance(x, PSet):
            return cls in (set, object, collections.abc.Iterable)
        if hasattr(x, "sym_isinstance"):
            return x.sym_isinstance(it, cls)
        if isinstance(x, FuncVal):
            return cls in (object, collections.abc.Callable) or getattr(cls, "__name__", "") == "function"
        try:
            return isinstance(x, cls)
        except TypeError:
            return False

    it.isinstance_ = isinstance_

    @nat("hasattr")
    def _hasattr(it, o, name):
        if isinstance(o, (SV, CV)) and name in ("__iter__", "__len__", "__getitem__", "keys", "items"):
            return False        # symbolic scalars are not containers
        try:
            it.getattr(o, name)
            return True
        except PyRaise:
            return False

    @nat("getattr")
    def _getattr(it, o, name, *d):
        try:
            return it.getattr(o, name)
        except PyRaise:
            if d:
                return d[0]
            raise

    @nat("setattr", pure=False)
    def _setattr(it, o, name, v):
        it.setattr(o, name, v)

    @nat("type")
    def _type(it, x, *a):
        if a:
            raise EngineError("type() with 3 arguments")
        if isinstance(x, ObjVal):
            return x.cls
        if isinstance(x, PDict):
            return dict
        if isinstance(x, PSet):
            return set
        if isinstance(x, (SV, CV, Opaque)):
            return Opaque("type()")
        return type(x)

    @nat("dict")
    def _dict(it, *a, **k):
        if a and isinstance(a[0], Opaque):
            return Opaque(f"dict({a[0].why})")
        if a and type(a[0]).__name__ == "ZipArr" and len(a[0].e) == 2 and not k:
            from .tabletheory import SymMap
            return SymMap(it, a[0].space, a[0].mask, a[0].e[0], a[0].e[1])
        d = PDict()
        if a:
            it.dict_update(d, a[0])
        for key, v in k.items():
            d.set(key, v)
        return d

    @nat("set")
    def _set(it, *a):
        if not a:
            return set()
        x = a[0]
        if unk(it, x):
            return Opaque(f"set({_w(x)})")
        if isinstance(x, PDict):
            s = PSet()
            for kk, (p, v) in x.e.items():
                s.add(kk, p)
            return s if not s.is_concrete() else s.to_set()
        if isinstance(x, PSet):
            return PSet(x)
        if isinstance(x, GuardedSeq):
            s = PSet()
            for kk, p in x.items:
                s.add(kk, p)
            return s if not s.is_concrete() else s.to_set()
        if hasattr(x, "sym_set"):
            return x.sym_set(it)
        return set(it.iterate(x))

    @nat("list")
    def _list(it, *a):
        if not a:
            return []
        if unk(it, a[0]):
            return Opaque(f"list({_w(a[0])})")
        if hasattr(a[0], "sym_list"):
            return a[0].sym_list(it)
        return list(it.iterate(a[0]))

    @nat("tuple")
    def _tuple(it, *a):
        if not a:
            return ()
        if unk(it, a[0]):
            return Opaque(f"tuple({_w(a[0])})")
        return tuple(it.iterate(a[0]))

    @nat("sorted")
    def _sorted(it, x, key=None, reverse=False):
        if unk(it, x):
            return Opaque(f"sorted({_w(x)})")
        items = it.iterate(x)
        if key is not None:
            keyed = [(it.call(key, [e], {}), e) for e in items]
            if any(is_sym(k0) for k0, _ in keyed):
                raise EngineError("sorted() with symbolic keys")
            keyed.sort(key=lambda p: p[0], reverse=reverse)
            return [e for _, e in keyed]
        if any(is_sym(e) for e in items):
            raise EngineError("sorted() of symbolic values")
        return sorted(items, reverse=reverse)

    @nat("zip")
    def _zip(it, *a, strict=False):
        if any(unk(it, x) for x in a):
            return Opaque("zip(...)")
        if a and all(hasattr(x, "generic_row") for x in a):
            from .arrays import ZipArr
            return ZipArr(it, list(a))
        return list(zip(*[it.iterate(x) for x in a]))

    @nat("enumerate")
    def _enumerate(it, x, start=0):
        if unk(it, x):
            return Opaque(f"enumerate({_w(x)})")
        if hasattr(x, "generic_row") and getattr(it, "generic_loops", False):
            from .tabletheory import EnumArr
            return EnumArr(it, x, start)
        return list(enumerate(it.iterate(x), start))

    @nat("map")
    def _map(it, f, *xs):
        if any(isinstance(x, Opaque) or getattr(x, "opaque_like", False) for x in xs) and getattr(it, "opaque_loops", False):
            # unknown sequences: the function is applied once to unknown elements (every store it can make is recorded)
            it.call(f, [Opaque("element") for _ in xs], {})
            return Opaque("map(...)")
        return [it.call(f, list(args), {}) for args in zip(*[it.iterate(x) for x in xs])]

    @nat("filter")
    def _filter(it, f, xs):
        out = []
        for x in it.iterate(xs):
            r = x if f is None else it.call(f, [x], {})
            if it.truth(r):
                out.append(x)
        return out

    @nat("any")
    def _any(it, xs):
        if unk(it, xs):
            return Opaque(f"any({_w(xs)})")
        if hasattr(xs, "sym_any"):
            return xs.sym_any(it)
        acc = False
        for x in it.iterate(xs):
            t = it.truth_sv(x)
            if isinstance(t, bool):
                if t:
                    return True
            else:
                acc = t if acc is False else it.binop("|", acc, t)
        return acc

    @nat("all")
    def _all(it, xs):
        if unk(it, xs):
            return Opaque(f"all({_w(xs)})")
        if hasattr(xs, "sym_all"):
            return xs.sym_all(it)
        acc = True
        for x in it.iterate(xs):
            t = it.truth_sv(x)
            if isinstance(t, bool):
                if not t:
                    return False
            else:
                acc = t if acc is True else it.binop("&", acc, t)
        return acc

    @nat("sum")
    def _sum(it, xs, start=0):
        if unk(it, xs):
            return Opaque(f"sum({_w(xs)})")
        if hasattr(xs, "sym_sum"):
            return xs.sym_sum(it)
        acc = start
        for x in it.iterate(xs):
            acc = it.binop("+", acc, x)
        return acc

    def _minmax(it, which, *a, **k):
        if len(a) == 1:
            if unk(it, a[0]):
                return Opaque(f"{which}({_w(a[0])})")
            if hasattr(a[0], "sym_minmax"):
                return a[0].sym_minmax(it, which)
            items = it.iterate(a[0])
        else:
            items = list(a)
        if not items:
            if "default" in k:
                return k["default"]
            raise PyRaise(ValueError(f"{which}() arg is an empty sequence"))
        acc = items[0]
        for x in items[1:]:
            if is_sym(acc) or is_sym(x):
                c = compare("<" if which == "min" else ">", x, acc)
                acc = ite(c, x, acc)
            else:
                acc = min(acc, x) if which == "min" else max(acc, x)
        return acc

    b["min"] = Native(lambda it, *a, **k: _minmax(it, "min", *a, **k), name="min")
    b["max"] = Native(lambda it, *a, **k: _minmax(it, "max", *a, **k), name="max")

    @nat("abs")
    def _abs(it, x):
        if hasattr(x, "sym_abs"):
            return x.sym_abs(it)
        return sabs(x)

    @nat("round")
    def _round(it, x, n=None):
        if is_sym(x):
            raise EngineError("round() of a symbolic value")
        return round(x, n) if n is not None else round(x)

    def astype(it, x, t):
        if isinstance(t, str):
            t = {"float": float, "float64": float, "int": int, "int64": int, "bool": bool, "complex": complex,
                 "str": str, "object": object, "O": object}.get(t, t)
        nm = getattr(t, "__name__", str(t))
        if isinstance(x, Opaque):
            return x
        if nm in ("float", "float64", "floating", "double", "float32"):
            if isinstance(x, SV):
                return SV(coerce(x.z, R))
            if isinstance(x, CV):
                return x.re
            if type(x).__name__ == "XV":
                return x        # a float that may be NaN stays what it is
            if isinstance(x, str):
                try:
                    return float(x)
                except ValueError as e:
                    raise PyRaise(e)
            return float(x)
        if nm in ("int", "int64", "integer", "int32", "intp", "int_"):
            if isinstance(x, SV):
                if x.is_int():
                    return x
                if x.is_bool():
                    return SV(coerce(x.z, I))
                if x.is_real():
                    # conversions of reals to int are only modelled for values that are integral
                    return SV(z3.ToInt(x.z))
                if x.is_pv():
                    return SV(z3.If(PV.is_i(x.z), PV.iv(x.z), z3.ToInt(coerce(x.z, R))))
            if isinstance(x, CV):
                raise EngineError("int of complex")
            try:
                return int(x)
            except (ValueError, TypeError) as e:
                raise PyRaise(e)
        if nm in ("bool", "bool_"):
            if isinstance(x, (SV, CV)):
                return SV(truth_z(x))
            return it.truth(x)
        if nm in ("complex", "complex128", "complexfloating"):
            if isinstance(x, CV):
                return x
            return CV(x, 0)
        if nm in ("str", "object", "str_"):
            return x
        raise EngineError(f"astype({nm})")

    b["__astype__"] = astype
    b["float"] = TypeStub("float", float, lambda it, x=0.0: astype(it, x, float))
    b["int"] = TypeStub("int", int, lambda it, x=0, *a: astype(it, x, int) if not a else int(x, *a))
    b["bool"] = TypeStub("bool", bool, lambda it, x=False: astype(it, x, bool))
    b["str"] = TypeStub("str", str, lambda it, x="", *a: it.to_str(x) if isinstance(x, (SV, CV, Opaque, PDict, PSet, ObjVal)) else str(x, *a))

    # dict / set methods --------------------------------------------------------------------------
    def pdict_attr(it, d, name):
        def m(fn, pure=True):
            return Native(fn, pure=pure, name=f"dict.{name}")
        if name == "get":
            def get(it, k, default=None):
                if isinstance(k, SV):
                    raise EngineError("dict.get with symbolic key")
                p = d.presence(k)
                if p is True:
                    return d.raw(k)
                if p is False:
                    return default
                return it.merge_values(p_sv(p), d.raw(k), default)
            return m(get)
        if name == "keys":
            return m(lambda it: KeysView(d))
        if name == "items":
            return m(lambda it: ItemsView(d))
        if name == "values":
            return m(lambda it: ValuesView(d))
        if name == "copy":
            return m(lambda it: PDict(d))
        if name == "update":
            def update(it, *a, **k):
                if a:
                    it.dict_update(d, a[0])
                for kk, v in k.items():
                    d.set(kk, v)
            return m(update, pure=False)
        if name == "pop":
            def pop(it, k, *default):
                p = d.presence(k)
                if p is True:
                    v = d.raw(k)
                    d.delete(k)
                    return v
                if p is False:
                    if default:
                        return default[0]
                    raise PyRaise(KeyError(k))
                if default:
                    v = it.merge_values(p_sv(p), d.raw(k), default[0])
                    d.delete(k)
                    return v
                if it.truth(p_sv(p), tag=f"pop {k!r}"):
                    v = d.raw(k)
                    d.delete(k)
                    return v
                raise PyRaise(KeyError(k))
            return m(pop, pure=False)
        if name == "setdefault":
            def setdefault(it, k, default=None):
                p = d.presence(k)
                if p is True:
                    return d.raw(k)
                if p is False:
                    d.set(k, default)
                    return default
                v = it.merge_values(p_sv(p), d.raw(k), default)
                d.set(k, v)
                return v
            return m(setdefault, pure=False)
        if name == "clear":
            def clear(it):
                d.e.clear()
            return m(clear, pure=False)
        if name == "__contains__":
            return m(lambda it, k: it.contains(d, k))
        if name == "__getitem__":
            return m(lambda it, k: it.getitem(d, k))
        if name == "__setitem__":
            return m(lambda it, k, v: it.setitem(d, k, v), pure=False)
        raise EngineError(f"dict.{name} not modelled")

    it.attr_hooks.append((PDict, pdict_attr))

    def pset_attr(it, s, name):
        def m(fn, pure=True):
            return Native(fn, pure=pure, name=f"set.{name}")
        if name == "add":
            return m(lambda it, k: s.add(k), pure=False)
        if name == "intersection":
            return m(lambda it, o: s.intersect(o if isinstance(o, PSet) else PSet(it.iterate(o))))
        if name == "union":
            return m(lambda it, o: s.union(o if isinstance(o, PSet) else PSet(it.iterate(o))))
        if name == "difference":
            return m(lambda it, o: s.difference(o if isinstance(o, PSet) else PSet(it.iterate(o))))
        if name == "copy":
            return m(lambda it: PSet(s))
        if name == "issubset":
            def issub(it, o):
                o = o if isinstance(o, PSet) else PSet(it.iterate(o))
                acc = True
                for k, p in s.e.items():
                    q = o.presence(k)
                    c = p_or(p_not(p), q)
                    acc = p_and(acc, c)
                return p_sv(acc)
            return m(issub)
        raise EngineError(f"set.{name} not modelled")

    it.attr_hooks.append((PSet, pset_attr))

    def view_attr(it, v, name):
        if name == "keys":
            return Native(lambda it: v, name="keys")
        raise EngineError(f"view.{name}")

    # stub modules ---------------------------------------------------------------------------------
    noop = Native(lambda it, *a, **k: None, pure=True, name="noop")

    class _Logger(Namespace):
        pass

    logger = Namespace("logger", default=lambda attr: noop)
    logging_ns = Namespace("logging", {"getLogger": Native(lambda it, *a, **k: logger, name="getLogger"),
                                       "DEBUG": 10, "INFO": 20, "WARNING": 30, "ERROR": 40, "CRITICAL": 50,
                                       "Logger": Opaque("logging.Logger")},
                           default=lambda attr: noop)
    it.stub_modules["logging"] = logging_ns
    it.stub_modules["pandapower.pplog"] = logging_ns
    try:
        import pandaplan.core.pplog  # noqa
    except Exception:
        pass
    it.stub_modules["pandaplan.core.pplog"] = logging_ns
    it.stub_modules["pandaplan"] = Opaque("pandaplan")
    it.stub_modules["pandaplan.core"] = Opaque("pandaplan")

    class _CatchWarnings:
        pass

    warnings_ns = Namespace("warnings", {"warn": noop, "simplefilter": noop, "filterwarnings": noop,
                                         "catch_warnings": Native(lambda it, *a, **k: None, name="catch_warnings")},
                            default=lambda attr: noop)
    it.stub_modules["warnings"] = warnings_ns

    def getfullargspec(it, f):
        if isinstance(f, BoundMethod):
            f = f.func
        if not isinstance(f, FuncVal):
            raise EngineError("inspect.getfullargspec of a non-source function")
        a = f.node.args
        args = [p.arg for p in a.posonlyargs + a.args]
        d = it.defaults(f)
        pos = a.posonlyargs + a.args
        defaults = tuple(d[p.arg] for p in pos[len(pos) - len(a.defaults):])
        return (args, a.vararg.arg if a.vararg else None, a.kwarg.arg if a.kwarg else None, defaults,
                [p.arg for p in a.kwonlyargs], None, {})

    it.stub_modules["inspect"] = Namespace("inspect", {"getfullargspec": Native(getfullargspec, name="getfullargspec")},
                                            default=lambda attr: Opaque(f"inspect.{attr}"))

    def deepcopy(it, x, memo=None):
        if isinstance(x, (SV, CV, Opaque, int, float, str, bool, type(None), FuncVal, ClassVal)):
            return x
        if hasattr(x, "sym_deepcopy"):
            return x.sym_deepcopy(it)
        return _copy.deepcopy(x)

    def shallow(it, x):
        if isinstance(x, (SV, CV, Opaque, int, float, str, bool, type(None))):
            return x
        if hasattr(x, "sym_copy"):
            return x.sym_copy(it)
        if isinstance(x, PDict):
            return PDict(x)
        if isinstance(x, PSet):
            return PSet(x)
        if isinstance(x, ObjVal):
            return ObjVal(x.cls, dict(x.attrs))
        return _copy.copy(x)

    it.stub_modules["copy"] = Namespace("copy", {"deepcopy": Native(deepcopy, name="deepcopy"),
                                                 "copy": Native(shallow, name="copy")})

    def m_sqrt(it, x):
        if is_sym(x):
            return ssqrt(x)
        return _math.sqrt(x)

    math_ns = Namespace("math", {
        "pi": pi(), "sqrt": Native(m_sqrt, name="sqrt"), "isnan": Native(lambda it, x: isnan(it, x), name="isnan"),
        "exp": Native(lambda it, x: sexp(x), name="exp"),
        "log10": Native(lambda it, x: slog10(x), name="log10"),
        "sin": Native(lambda it, x: ssin(x), name="sin"), "cos": Native(lambda it, x: scos(x), name="cos"),
        "inf": float("inf"), "nan": float("nan"), "e": _math.e,
        "floor": Native(lambda it, x: _math.floor(x) if not is_sym(x) else SV(z3.ToInt(coerce(x.z, R))), name="floor"),
        "ceil": Native(lambda it, x: _math.ceil(x) if not is_sym(x) else SV(-z3.ToInt(-coerce(x.z, R))), name="ceil"),
        "isclose": Native(lambda it, a, b, **k: compare("==", a, b), name="isclose"),
        "radians": Native(lambda it, x: arith("/", arith("*", x, pi()), 180), name="radians"),
        "degrees": Native(lambda it, x: arith("/", arith("*", x, 180), pi()), name="degrees"),
    })
    it.stub_modules["math"] = math_ns

    def isnan(it, x):
        if hasattr(x, "sym_isnan"):
            return x.sym_isnan(it)
        if isinstance(x, (SV, CV)):
            return False    # reals are never NaN (A-REAL); NaN-aware code uses the extended-real mode
        if isinstance(x, float):
            return x != x
        return False
    it.isnan = isnan

    class _Generic:
        def __class_getitem__(cls, item):
            return cls
    class _LiteralArgs:
        def __init__(self, args):
            self.args = args

    class _Literal:
        def sym_getitem(self, it, key):
            return _LiteralArgs(tuple(key) if isinstance(key, tuple) else (key,))

    def _get_args(it, t):
        return t.args if isinstance(t, _LiteralArgs) else ()
    it.stub_modules["typing"] = Namespace("typing", {"Generic": _Generic, "TypeVar": Native(lambda it, *a, **k: Opaque("TypeVar"), name="TypeVar"),
                                                     "TYPE_CHECKING": False, "Literal": _Literal(),
                                                     "get_args": Native(_get_args, name="get_args"),
                                                     "cast": Native(lambda it, t, v: v, name="cast")},
                                          default=lambda attr: Opaque(f"typing.{attr}"))
    import abc as _abc
    it.stub_modules["abc"] = Namespace("abc", {"ABC": _abc.ABC, "abstractmethod": Native(lambda it, f: f, name="abstractmethod"),
                                               "ABCMeta": _abc.ABCMeta})
    # numba: a jitted function means what its Python text means (A-NUMBA): the decorators are identities
    def _jit(it, *a, **k):
        if len(a) == 1 and not k and isinstance(a[0], (FuncVal,)):
            return a[0]
        return Native(lambda it2, f: f, name="jit-decorator")
    numba_ns = Namespace("numba", {"jit": Native(_jit, name="jit"), "njit": Native(_jit, name="njit"),
                                   "__version__": "0.60"}, default=lambda attr: Opaque(f"numba.{attr}"))
    it.stub_modules["numba"] = numba_ns
    it.stub_modules["pandapower.pf.no_numba"] = numba_ns
    it.stub_modules["sys"] = Opaque("sys")
    it.stub_modules["os"] = Opaque("os")
    it.stub_modules["time"] = Namespace("time", default=lambda attr: Native(lambda it, *a, **k: Opaque("time"), name="time"))
    it.stub_modules["numbers"] = __import__("numbers")
    def _defaultdict(it, factory=None, *a, **k):
        d = PDict()
        d.factory = factory
        if a:
            it.dict_update(d, a[0])
        return d
    it.stub_modules["collections"] = Namespace("collections", {"defaultdict": Native(_defaultdict, name="defaultdict"),
                                                                "OrderedDict": b["dict"], "abc": collections.abc},
                                               default=lambda attr: getattr(collections, attr))
    it.stub_modules["collections.abc"] = collections.abc
    it.stub_modules["functools"] = Namespace("functools", {
        "partial": Native(lambda it, f, *a, **k: Native(lambda it2, *a2, **k2: it2.call(f, list(a) + list(a2), {**k, **k2}), pure=False, name="partial"), name="partial"),
        "reduce": Native(lambda it, f, xs, *init: _reduce(it, f, xs, *init), pure=False, name="reduce"),
    }, default=lambda attr: Opaque(f"functools.{attr}"))

    def _reduce(it, f, xs, *init):
        items = it.iterate(xs)
        if init:
            acc = init[0]
        else:
            acc = items[0]
            items = items[1:]
        for x in items:
            acc = it.call(f, [acc, x], {})
        return acc

    it.attr_hooks.append(((KeysView, ItemsView, ValuesView), view_hook))


class TypeStub:
    """float / int / bool / str: callable with symbolic-aware conversion, and usable in isinstance()"""

    def __init__(self, name, typ, fn):
        self.__name__ = name
        self.typ = typ
        self.fn = fn

    def __call__(self, *a, **k):
        raise EngineError("TypeStub called natively")

    def __deepcopy__(self, memo):
        return self

    def __eq__(self, o):
        return o is self or o is self.typ

    def __hash__(self):
        return hash(self.typ)


class KeysView:
    def __init__(self, d):
        self.d = d

    def sym_contains(self, it, k):
        return it.contains(self.d, k)

    def sym_iter(self, it):
        return it.iterate(self.d)

    def sym_len(self, it):
        return self.d.sym_len()

    def sym_set(self, it):
        s = PSet()
        for k, (p, v) in self.d.e.items():
            s.add(k, p)
        return s if not s.is_concrete() else s.to_set()

    def guarded(self):
        return [(k, p) for k, (p, v) in self.d.e.items() if p is not False]

    def sym_binop(self, it, op, a, b):
        a2 = a.sym_set(it) if isinstance(a, KeysView) else a
        b2 = b.sym_set(it) if isinstance(b, KeysView) else b
        return it.binop(op, a2, b2)

    def sym_list(self, it):
        return it.iterate(self.d)


class ItemsView:
    def __init__(self, d):
        self.d = d

    def sym_iter(self, it):
        return [(k, self.d.raw(k)) for k in it.iterate(self.d)]

    def sym_len(self, it):
        return self.d.sym_len()

    def guarded(self):
        return [((k, v), p) for k, (p, v) in self.d.e.items() if p is not False]


class ValuesView:
    def __init__(self, d):
        self.d = d

    def sym_iter(self, it):
        return [self.d.raw(k) for k in it.iterate(self.d)]

    def sym_len(self, it):
        return self.d.sym_len()

    def guarded(self):
        return [(v, p) for k, (p, v) in self.d.e.items() if p is not False]


def view_hook(it, v, name):
    from .interp import Native
    if name == "keys":
        return Native(lambda it: v, name="keys")
    return NotImplemented
