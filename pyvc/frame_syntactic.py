"""Syntactic (flow-insensitive, conservative) read-only check of a function with respect to one parameter.

readonly(module, qualname, param) is True only if no statement of the function can store into anything reachable
from `param`:
  R1  no assignment / augmented assignment / del whose target is an attribute or subscript rooted at a tainted name
      (tainted: the parameter and every local bound from an expression that mentions a tainted name);
  R2  every call that receives a tainted value (as receiver or argument) is known to be read-only: a whitelisted
      builtin / numpy / pandas reader, a method whose name is not a known mutator and that is not called with
      inplace=True, or a function of the repository that is itself read-only in the corresponding parameters
      (checked recursively; calls through a local dict literal of function names are resolved to all candidates).
Anything else makes the answer False ("not shown read-only"): the caller then has to fall back on execution.
"""
from __future__ import annotations

import ast

from . import source

PURE_FUNCS = {"len", "list", "str", "int", "float", "bool", "isinstance", "print", "sorted", "set", "tuple", "dict", "zip",
              "enumerate", "range", "min", "max", "sum", "any", "all", "abs", "repr", "type", "round", "iter", "next", "hasattr",
              "getattr", "id", "format", "frozenset", "reversed", "map", "filter"}
PURE_MODULES = {"np", "numpy", "pd", "pandas", "math", "nx", "networkx", "copy", "logger", "logging", "warnings", "itertools"}
MUTATING_METHODS = {"drop", "set_index", "sort_index", "sort_values", "fillna", "rename", "reset_index", "replace", "update",
                    "insert", "pop", "drop_duplicates", "dropna", "clip", "where", "mask", "interpolate", "append", "extend",
                    "remove", "clear", "setdefault", "add", "discard", "fill", "sort", "put", "itemset", "resize", "popitem",
                    "__setitem__", "__delitem__", "__setattr__", "at", "loc", "iloc", "iat"}
INDEXERS = {"at", "loc", "iloc", "iat"}


def _root(node):
    while True:
        if isinstance(node, (ast.Attribute, ast.Subscript, ast.Starred)):
            node = node.value
        elif isinstance(node, ast.Call):
            node = node.func
        else:
            break
    return node.id if isinstance(node, ast.Name) else None


def _names(node):
    return {n.id for n in ast.walk(node) if isinstance(n, ast.Name)}


class Checker:
    def __init__(self):
        self.memo = {}
        self.reasons = []

    def readonly(self, modname, qualname, params):
        key = (modname, qualname, tuple(sorted(params)))
        if key in self.memo:
            return self.memo[key]
        self.memo[key] = True     # optimistic for recursion
        try:
            m, node = source.find_def(modname, qualname)
        except source.SourceError:
            self.memo[key] = False
            self.reasons.append(f"{modname}:{qualname} not found")
            return False
        ok = self._check(m, node, set(params), f"{modname}:{qualname}")
        self.memo[key] = ok
        return ok

    def _check(self, m, fn, tainted, where):
        # taint propagation to a fixed point
        body = fn.body
        changed = True
        while changed:
            changed = False
            for n in ast.walk(fn):
                targets, value = [], None
                if isinstance(n, ast.Assign):
                    targets, value = n.targets, n.value
                elif isinstance(n, ast.AnnAssign) and n.value is not None:
                    targets, value = [n.target], n.value
                elif isinstance(n, ast.AugAssign):
                    targets, value = [n.target], n.value
                elif isinstance(n, (ast.For, ast.comprehension)):
                    targets, value = [n.target], n.iter
                elif isinstance(n, ast.NamedExpr):
                    targets, value = [n.target], n.value
                elif isinstance(n, ast.With):
                    for item in n.items:
                        if item.optional_vars is not None and _names(item.context_expr) & tainted:
                            for nm in _names(item.optional_vars):
                                if nm not in tainted:
                                    tainted.add(nm); changed = True
                    continue
                if value is not None and _names(value) & tainted:
                    for t in targets:
                        if isinstance(t, (ast.Name, ast.Tuple, ast.List)):
                            for nm in _names(t):
                                if nm not in tainted:
                                    tainted.add(nm); changed = True
                        elif isinstance(t, (ast.Attribute, ast.Subscript)):
                            # a tainted value stored into obj.attr / obj[k]: the whole object counts as tainted, unless the
                            # value is a deep copy
                            is_deepcopy = isinstance(value, ast.Call) and ast.unparse(value.func) in ("copy.deepcopy", "deepcopy")
                            r = _root(t)
                            if r is not None and r not in tainted and not is_deepcopy:
                                tainted.add(r); changed = True
        # local dict literals of function names (dispatch tables)
        tables = {}
        for n in ast.walk(fn):
            if isinstance(n, (ast.Assign, ast.AnnAssign)) and isinstance(getattr(n, "value", None), ast.Dict):
                tgt = n.targets[0] if isinstance(n, ast.Assign) else n.target
                if isinstance(tgt, ast.Name) and all(isinstance(v, ast.Name) for v in n.value.values):
                    tables[tgt.id] = [v.id for v in n.value.values]
        for n in ast.walk(fn):
            # R1
            tgts = []
            if isinstance(n, ast.Assign):
                tgts = n.targets
            elif isinstance(n, (ast.AugAssign, ast.AnnAssign)):
                tgts = [n.target]
            elif isinstance(n, ast.Delete):
                tgts = n.targets
            for t in tgts:
                for sub in ([t] if not isinstance(t, (ast.Tuple, ast.List)) else t.elts):
                    if isinstance(sub, (ast.Attribute, ast.Subscript)) and _root(sub) in tainted:
                        self.reasons.append(f"{where}:{n.lineno}: store into '{ast.unparse(sub)[:60]}'")
                        return False
            if isinstance(n, ast.AugAssign) and isinstance(n.target, ast.Name) and n.target.id in tainted:
                # x += ... on a tainted name may be an in-place update of an array/list
                self.reasons.append(f"{where}:{n.lineno}: in-place update of '{n.target.id}'")
                return False
            # R2
            if isinstance(n, ast.Call):
                args = list(n.args) + [k.value for k in n.keywords]
                tainted_args = [a for a in args if _names(a) & tainted]
                f = n.func
                recv_tainted = isinstance(f, ast.Attribute) and (_names(f.value) & tainted)
                if any(k.arg == "inplace" and not (isinstance(k.value, ast.Constant) and k.value.value is False) for k in n.keywords) \
                        and (recv_tainted or tainted_args):
                    self.reasons.append(f"{where}:{n.lineno}: inplace= call")
                    return False
                if isinstance(f, ast.Attribute):
                    base = _root(f.value)
                    if recv_tainted:
                        if f.attr in MUTATING_METHODS and f.attr not in INDEXERS:
                            self.reasons.append(f"{where}:{n.lineno}: mutating method .{f.attr}() on net data")
                            return False
                        continue   # other methods of pandas/numpy objects: readers
                    if not tainted_args:
                        continue
                    if base in PURE_MODULES or f.attr in ("debug", "info", "warning", "error"):
                        if f.attr in ("put", "place", "copyto", "fill_diagonal", "putmask"):
                            self.reasons.append(f"{where}:{n.lineno}: numpy in-place function {f.attr}")
                            return False
                        if any(k.arg == "out" for k in n.keywords):
                            self.reasons.append(f"{where}:{n.lineno}: out= argument")
                            return False
                        continue
                    if f.attr in MUTATING_METHODS:
                        # container.append(net-derived value): stores a reference into a local container only
                        continue
                    self.reasons.append(f"{where}:{n.lineno}: tainted value passed to unknown method {ast.unparse(f)[:50]}")
                    return False
                if not tainted_args:
                    continue
                cands = None
                if isinstance(f, ast.Name):
                    if f.id in PURE_FUNCS:
                        continue
                    cands = [f.id]
                elif isinstance(f, ast.Subscript) and isinstance(f.value, ast.Name) and f.value.id in tables:
                    cands = tables[f.value.id]
                if cands is None:
                    self.reasons.append(f"{where}:{n.lineno}: tainted value passed to a call that cannot be resolved: {ast.unparse(f)[:50]}")
                    return False
                for c in cands:
                    tgt = self._resolve(m, c)
                    if tgt is None:
                        self.reasons.append(f"{where}:{n.lineno}: callee {c} not found in the repository")
                        return False
                    tm, tnode = tgt
                    if isinstance(tnode, ast.ClassDef):
                        self.reasons.append(f"{where}:{n.lineno}: tainted value passed to constructor {c}")
                        return False
                    # conservatively: all parameters of the callee are tainted
                    ps = [a.arg for a in tnode.args.posonlyargs + tnode.args.args + tnode.args.kwonlyargs]
                    if tnode.args.vararg:
                        ps.append(tnode.args.vararg.arg)
                    if tnode.args.kwarg:
                        ps.append(tnode.args.kwarg.arg)
                    if not self.readonly(tm.modname, tnode.name, ps):
                        return False
        return True

    def _resolve(self, m, name, depth=0):
        d = m.defs.get(name)
        if isinstance(d, (ast.FunctionDef, ast.ClassDef)):
            return m, d
        if isinstance(d, tuple) and d[0] == "from" and depth < 5:
            if source.module_path(d[1]) is None:
                return None
            try:
                m2 = source.load_module(d[1])
            except source.SourceError:
                return None
            return self._resolve(m2, d[2], depth + 1)
        return None
