"""Arrays, tables and ppc matrices in the generic-index abstraction (DESIGN 2.3).

An array is (space, mask, e): `e` is the scalar value at the generic position `space.i`; element-wise
code is executed once on `e` and the result holds for every row and every length (A-GENERIC).
Gathers are substitutions of the generic index; boolean masks narrow the mask; stores under a mask are
if-then-else updates. Operations that mix positions (sort, cumsum, reductions) are not in this module.
"""
from __future__ import annotations

import z3

from .values import (SV, CV, XV, Opaque, EngineError, Imm, to_z, truth_z, ite, arith, compare, logic, snot, sabs,
                     PV, to_pv, fresh, B, I, R, coerce, is_sym, fresh_id, ssqrt)
from .containers import PDict
from .interp import Native, PyRaise, CannotMerge


class Space(Imm):
    """a row space: positions 0..n-1 with generic position i"""
    _all = {}

    def __init__(self, name):
        self.name = name
        self.i = z3.Int(f"i@{name}")
        self.n = z3.Int(f"n@{name}")

    def __repr__(self):
        return f"<space {self.name}>"

    @classmethod
    def get(cls, name):
        if name not in cls._all:
            cls._all[name] = Space(name)
        return cls._all[name]


def _mask_and(a, b):
    if a is True:
        return b
    if b is True:
        return a
    return z3.simplify(z3.And(a, b))


def _mask_eq(a, b, it=None):
    if a is True and b is True:
        return True
    if a is True or b is True:
        other = b if a is True else a
        return z3.is_true(z3.simplify(other))
    if z3.eq(a, b):
        return True
    a2, b2 = z3.simplify(a), z3.simplify(b)
    if z3.eq(a2, b2):
        return True
    s = z3.Solver()
    s.set("timeout", 2000)
    if it is not None:
        for h in it.ctx.hyps():
            s.add(h)
    s.add(a2 != b2)
    return s.check() == z3.unsat


def require_same_mask(it, m1, m2, what):
    """position-wise combination of two arrays of one table that were compressed by masks m1, m2 pairs equal rows
    only if the masks agree on every row: emitted as a side obligation of the code under contract"""
    if _mask_eq(m1, m2, None):
        return
    a = z3.BoolVal(True) if m1 is True else m1
    b = z3.BoolVal(True) if m2 is True else m2
    it.ctx.side_obligation(f"aligned:{what}", a == b,
                           note=f"{what}: operands are compressed by masks that must select the same rows")


def _provably_equal(it, a, b):
    s = z3.Solver()
    s.set("timeout", 2000)
    for h in it.ctx.hyps():
        s.add(h)
    s.add(a != b)
    return s.check() == z3.unsat


def subst(e, var, by):
    """substitute the generic index `var` (z3 Int const) by term `by` in scalar value e"""
    if isinstance(e, SV):
        return SV(z3.substitute(e.z, (var, by)))
    if isinstance(e, CV):
        return CV(subst(e.re, var, by), subst(e.im, var, by))
    if isinstance(e, XV):
        return XV(subst(e.v, var, by), z3.substitute(e.nan, (var, by)) if not isinstance(e.nan, bool) else e.nan)
    if hasattr(e, "subst_row"):
        return e.subst_row(var, by)
    return e


class Arr:
    """1-D array. Mutable (stores change .e); identity matters for aliasing (views)."""
    is_array = True

    def __init__(self, space, e, mask=True, owner=None, name=None):
        self.space = space
        self._e = e
        self.mask = mask
        self.owner = owner      # (Table, colname) when this array is a view of a table column (.values)
        self.name = name
        self.oid = fresh_id()

    @property
    def e(self):
        if self.owner is not None:
            return self.owner[0].cols[self.owner[1]]
        return self._e

    def set_e(self, it, v):
        if self.owner is not None:
            t, c = self.owner
            t.write(it, c, v, via="view")
        else:
            self._e = v

    def __repr__(self):
        return f"Arr<{self.space.name if self.space else '?'}{'' if self.mask is True else '|mask'}: {self.e!r}>"

    def like(self, e):
        return Arr(self.space, e, self.mask)

    def generic_row(self):
        return self.space, self.mask, self.e

    def make_like(self, e):
        return Arr(self.space, e, self.mask)

    # -- protocol hooks used by the interpreter -----------------------------------------------------
    def sym_binop(self, it, op, a, b):
        return elementwise(it, lambda x, y: it.binop(op, x, y), a, b)

    def sym_compare(self, it, op, a, b):
        import ast as _ast
        node = {"<": _ast.Lt(), "<=": _ast.LtE(), ">": _ast.Gt(), ">=": _ast.GtE(), "==": _ast.Eq(), "!=": _ast.NotEq()}[op]
        return elementwise(it, lambda x, y: it.cmpop(node, x, y), a, b)

    def sym_iop(self, it, op, rhs):
        r = elementwise(it, lambda x, y: it.binop(op, x, y), self, rhs)
        self.set_e(it, r.e)
        return self

    def sym_abs(self, it):
        return self.like(sabs(self.e))

    def sym_unop(self, it, op):
        return self.like(it.unop(op, self.e))

    def sym_len(self, it):
        if self.mask is True:
            return SV(self.space.n)
        return SV(_count(it, self.space, self.mask))

    def sym_truth(self, it):
        raise PyRaise(ValueError("The truth value of an array with more than one element is ambiguous"))

    def sym_set(self, it):
        if getattr(it, "generic_loops", False) and is_sym(self.e):
            return GenericSet(self)
        return Opaque("set(array)")

    def sym_sum(self, it):
        """sum(mask) of a boolean array: the number of selected rows -- non-negative, positive iff some row is selected"""
        if not _is_boolish(self.e):
            from .sigma import sigma
            return sigma(it, self)
        ex = any_(it, self)
        c = _count(it, self.space, z3.And(_zb(self.mask), truth_z(self.e)))
        it.ctx.facts.append(z3.And(c >= 0, (c >= 1) == (truth_z(ex) if not isinstance(ex, bool) else z3.BoolVal(ex))))
        return SV(c)

    def sym_contains(self, it, x):
        """x in array: some row holds the value (an uninterpreted membership predicate of the array's content)"""
        if not is_scalar(x) or isinstance(x, Opaque):
            raise EngineError("membership test of a non-scalar in a generic array")
        z = to_z(x)
        f = z3.Function(f"member[{self.space.name},{_key(to_z(self.e))},{_key(_zb(self.mask))}]", z.sort(), B)
        it.ctx.axiom(z3.Implies(_zb(self.mask), f(to_z(self.e))))
        return SV(f(z))

    def sym_any(self, it):
        return any_(it, self)

    def sym_all(self, it):
        return all_(it, self)

    def sym_isinstance(self, it, cls):
        nm = getattr(cls, "__name__", str(cls))
        return nm in ("ndarray", "object", "Iterable", "Sized", "Collection")

    def sym_copy(self, it):
        return Arr(self.space, self.e, self.mask)

    def sym_deepcopy(self, it):
        return Arr(self.space, self.e, self.mask)

    def sym_isnan(self, it):
        return self.like(scalar_isnan(self.e))

    def sym_getitem(self, it, key):
        if isinstance(key, tuple) and len(key) == 1:
            key = key[0]
        if isinstance(key, tuple) and len(key) == 2 and key[1] is None and isinstance(key[0], slice) and key[0] == slice(None, None, None):
            return self     # x[:, np.newaxis]: a column vector; broadcasting against 2-D arrays is per column
        if isinstance(key, Series):
            key = key.arr()
        if type(key).__name__ == "Cat":
            return type(key)([self.sym_getitem(it, part) for part in key.parts])
        if getattr(key, "is_group_keys", False):
            # lookup[distinct keys of a grouping]: the images need not be distinct any more
            return MappedKeys(key, self)
        if isinstance(key, Arr):
            ke = key.e
            if _is_boolish(ke):
                # boolean mask selection
                self._check_aligned(it, key, "mask selection")
                return Arr(self.space, self.e, _mask_and(self.mask, truth_z(ke)))
            # integer gather
            if self.mask is not True:
                raise EngineError("gather from a compressed (masked) array")
            return Arr(key.space, subst(self.e, self.space.i, to_z(ke, I)), key.mask)
        if isinstance(key, slice):
            if key == slice(None, None, None):
                return Arr(self.space, self.e, self.mask, owner=self.owner)
            raise EngineError(f"array slice {key}")
        if isinstance(key, SV):
            from .tabletheory import arr_rank_get
            r = arr_rank_get(it, self, key)
            if r is not NotImplemented:
                return r
        if isinstance(key, (int, SV)) and not isinstance(key, bool):
            if self.mask is not True:
                raise EngineError("positional access into a compressed array")
            if isinstance(key, int) and key < 0:
                kz = self.space.n + key
            else:
                kz = to_z(key, I)
            return subst(self.e, self.space.i, kz)
        if isinstance(key, list) and all(isinstance(k, int) for k in key):
            raise EngineError("list index into generic array")
        if key is Ellipsis:
            return self
        raise EngineError(f"array index {type(key).__name__}")

    def _check_aligned(self, it, other, what):
        if other.space is not self.space:
            raise EngineError(f"{what}: arrays live in different row spaces ({self.space.name} vs {other.space.name})")
        require_same_mask(it, self.mask, other.mask, what)

    def sym_setitem(self, it, key, val):
        if isinstance(key, tuple) and len(key) == 1:
            key = key[0]
        if isinstance(key, Series):
            key = key.arr()
        if isinstance(val, Series):
            val = val.arr()
        if getattr(key, "is_group_keys", False) or isinstance(key, MappedKeys):
            # a[b] = v with (b, v) = _sum_by_group(...): recorded for the contract (one position per distinct key holds the group's sum;
            # keys mapped after the grouping may collide: the contract decides)
            if it.ctx.merge_mode:
                raise CannotMerge()
            self.scatter_stores = getattr(self, "scatter_stores", [])
            self.scatter_stores.append((key, val))
            return
        if isinstance(key, Arr) and _is_boolish(key.e):
            self._check_aligned(it, key, "masked store")
            m = truth_z(key.e)
            if isinstance(val, Arr):
                if val.space is not self.space:
                    raise EngineError("masked store: right-hand side lives in another row space")
                require_same_mask(it, val.mask, _mask_and(self.mask, m), "masked store")
                v = val.e
            elif is_scalar(val):
                v = val
            else:
                raise EngineError(f"masked store of {type(val).__name__}")
            self.set_e(it, scalar_ite(SV(m), v, self.e))
            return
        if isinstance(key, slice) and key == slice(None, None, None) or key is Ellipsis:
            if isinstance(val, Arr):
                self._check_aligned(it, val, "full store")
                self.set_e(it, val.e)
            elif is_scalar(val):
                self.set_e(it, val)
            else:
                raise EngineError(f"store of {type(val).__name__}")
            return
        if isinstance(key, SV):
            from .tabletheory import arr_rank_set
            r = arr_rank_set(it, self, key, val)
            if r is not NotImplemented:
                return
            if self.mask is True and z3.eq(z3.simplify(to_z(key, I)), self.space.i) and is_scalar(val):
                # a[i] = v inside the generic iteration over the positions of this array: row i gets v (under the branch guards)
                if it.ctx.merge_mode:
                    if len(it.ctx.merge_guards) != it.ctx.merge_mode:
                        raise CannotMerge()
                    g = z3.And(*it.ctx.merge_guards) if it.ctx.merge_guards else z3.BoolVal(True)
                    old = self.e
                    it.ctx.undo.append((_ArrCell(self), "e", (True, old)))
                    self.set_e(it, scalar_ite(SV(g), val, old)) if self.owner is None else (_ for _ in ()).throw(CannotMerge())
                else:
                    self.set_e(it, val)
                return
        if isinstance(key, Arr):
            # scatter a[idx] = v : recorded as a guarded functional update for the generic row of `key`'s space
            if getattr(it, "lenient_numpy", False) and self.owner is None and not it.ctx.merge_mode:
                # contracts that do not depend on this array: its elements are unknown from here on (havoc)
                self.set_e(it, SV(z3.Function(_fresh_name("scattered"), I, R)(self.space.i)))
                return
            raise EngineError("scatter store into a 1-D generic array is not modelled")
        raise EngineError(f"array store with key {type(key).__name__}")


def _is_boolish(e):
    if isinstance(e, bool):
        return True
    if isinstance(e, SV):
        return e.is_bool()
    return False


class SetVal:
    """a set-valued cell (e.g. the member list of a group row): membership of the generic element x as a formula"""
    is_scalar_like = True

    def __init__(self, x, body):
        self.x, self.body = x, body

    def subst_row(self, var, by):
        return SetVal(self.x, z3.substitute(self.body, (var, by)))

    def mem(self, xz):
        return z3.substitute(self.body, (self.x, xz))

    def _bin(self, other, f):
        if not isinstance(other, SetVal):
            raise EngineError("set operation with a non-set")
        if other.x.sort() != self.x.sort():
            raise EngineError("set operation on sets of different element sorts")
        return SetVal(self.x, f(self.body, other.mem(self.x)))

    def difference(self, o):
        return self._bin(o, lambda a, b: z3.And(a, z3.Not(b)))

    def intersection(self, o):
        return self._bin(o, lambda a, b: z3.And(a, b))

    def union(self, o):
        return self._bin(o, lambda a, b: z3.Or(a, b))

    def sym_len(self, it):
        c = z3.Int(f"card[{_key(self.body)}]")
        it.ctx.axiom(z3.And(c >= 0, z3.Implies(self.body, c >= 1)))
        return SV(c)

    def sym_isinstance(self, it, cls):
        return getattr(cls, "__name__", str(cls)) in ("Index", "list", "object", "Iterable")


def is_scalar(x):
    if getattr(x, "is_scalar_like", False):
        return True
    return isinstance(x, (SV, CV, XV, int, float, bool, complex, str, type(None))) or \
        (hasattr(x, "dtype") and getattr(x, "shape", None) == ())


def scalar_ite(c, a, b):
    if isinstance(a, XV) or isinstance(b, XV):
        a, b = XV.of(a), XV.of(b)
        cz = truth_z(c)
        return XV(ite(c, a.v, b.v), z3.simplify(z3.If(cz, _zb(a.nan), _zb(b.nan))))
    return ite(c, a, b)


def _zb(x):
    return z3.BoolVal(x) if isinstance(x, bool) else x


def scalar_isnan(e):
    if isinstance(e, XV):
        return SV(_zb(e.nan)) if not isinstance(e.nan, bool) else e.nan
    if isinstance(e, float):
        return e != e
    return False


def elementwise(it, fn, *args):
    """apply scalar function to aligned arrays / scalars"""
    if any(isinstance(a, Opaque) or getattr(a, "opaque_like", False) for a in args):
        return Opaque("elementwise(unknown)")
    colsargs = [a for a in args if isinstance(a, Cols)]
    if colsargs:
        n = len(colsargs[0].cols)
        if any(len(c.cols) != n for c in colsargs):
            raise PyRaise(ValueError("operands could not be broadcast together"))
        return Cols([elementwise(it, fn, *[(a.cols[k] if isinstance(a, Cols) else a) for a in args]) for k in range(n)])
    multi = [a for a in args if isinstance(a, MultiArr)]
    if multi:
        segs = list(multi[0].parts)
        for m2 in multi[1:]:
            if list(m2.parts) != segs:
                raise EngineError("element-wise operation on arrays with different row segments")
        if any(isinstance(a, (Arr, Series)) for a in args):
            raise EngineError("element-wise operation of a whole ppc column with a single-table array")
        return MultiArr({sg: elementwise(it, fn, *[(a.parts[sg] if isinstance(a, MultiArr) else a) for a in args]) for sg in segs})
    arrs = [a for a in args if isinstance(a, (Arr, Series))]
    arrs = [a.arr() if isinstance(a, Series) else a for a in arrs]
    if not arrs:
        return fn(*args)
    base = arrs[0]
    for a in arrs[1:]:
        base._check_aligned(it, a, "element-wise operation")
    vals = []
    for a in args:
        if isinstance(a, Series):
            a = a.arr()
        if isinstance(a, Arr):
            vals.append(a.e)
        elif isinstance(a, Opaque):
            return Opaque("elementwise(opaque)")
        elif is_scalar(a):
            vals.append(a)
        elif isinstance(a, (list, tuple)) and len(a) == 0:
            raise EngineError("element-wise op with empty list")
        else:
            raise EngineError(f"element-wise operation with {type(a).__name__}")
    return Arr(base.space, fn(*vals), base.mask)


_fresh_counter = [0]


def _fresh_name(prefix):
    _fresh_counter[0] += 1
    return f"{prefix}#{_fresh_counter[0]}"


def outer_vars(space, *zs):
    """generic-row variables of *other* row spaces occurring in the formulas: a count / sum over the rows of `space` is a function of them"""
    seen, out, stack = set(), {}, [z for z in zs if z is not None and not isinstance(z, bool)]
    while stack:
        t = stack.pop()
        if t.get_id() in seen:
            continue
        seen.add(t.get_id())
        if z3.is_const(t) and t.decl().kind() == z3.Z3_OP_UNINTERPRETED and t.decl().name().startswith("i@") and not z3.eq(t, space.i):
            out[t.decl().name()] = t
        elif z3.is_app(t):
            stack.extend(t.children())
    return [out[k] for k in sorted(out)]


def _count(it, space, mask):
    """number of rows selected by a mask: non-negative, and at least one if the generic row is selected"""
    mask = z3.simplify(mask)
    if z3.is_false(mask):
        return z3.IntVal(0)
    ov = outer_vars(space, mask)
    if ov:
        # the mask refers to the generic row of another space (e.g. "rows whose key is this node"): the count is a function of it
        f = z3.Function(f"count[{space.name},{_key(mask)}]", *([v.sort() for v in ov] + [I]))
        c = f(*ov)
        if it is not None:
            it.ctx.axiom(z3.ForAll(ov, z3.And(c >= 0, c <= space.n, z3.Implies(z3.And(space.n > 0, mask), c >= 1)), patterns=[c]))
        return c
    c = z3.Int(f"count[{space.name},{_key(mask)}]")
    if it is not None:
        # (the generic row stands for an existing row: for an empty table the axiom makes statements about it vacuous)
        it.ctx.axiom(z3.And(c >= 0, c <= space.n, z3.Implies(mask, c >= 1)))
    return c


def any_(it, a):
    """np.any / a.any(): exists a row with truth(e). The generic row is one row: any(m) true on a path where
    it is decided false means: for the generic row m is false (DESIGN 2.3)."""
    if isinstance(a, Series):
        a = a.arr()
    if isinstance(a, Arr):
        t = truth_z(a.e) if is_sym(a.e) or isinstance(a.e, bool) else z3.BoolVal(bool(a.e))
        t = z3.simplify(t)
        if z3.is_false(t):
            return False
        ex = z3.Bool(f"any[{a.space.name},{_key(a.mask)},{_key(t)}]")
        # axiom: if no row satisfies it, the generic row does not either
        m = _zb(a.mask)
        it.ctx.axiom(z3.Implies(z3.And(m, t), ex))
        return SV(ex)
    return it.truth_sv(a)


def all_(it, a):
    if isinstance(a, Series):
        a = a.arr()
    if isinstance(a, Arr):
        t = truth_z(a.e) if is_sym(a.e) or isinstance(a.e, bool) else z3.BoolVal(bool(a.e))
        t = z3.simplify(t)
        if z3.is_true(t):
            return True
        al = z3.Bool(f"all[{a.space.name},{_key(a.mask)},{_key(t)}]")
        m = _zb(a.mask)
        it.ctx.axiom(z3.Implies(al, z3.Implies(m, t)))
        return SV(al)
    return it.truth_sv(a)


def _key(z):
    """short stable name component for a formula (hash of its s-expression): symbol names stay SMT-LIB friendly"""
    import hashlib
    if z is True:
        return "T"
    if isinstance(z, bool):
        return str(z)
    return hashlib.sha1(z3.simplify(z).sexpr().encode()).hexdigest()[:10]


# ------------------------------------------------------------------------------------------------
# Tables (pandas DataFrames) and Series
# ------------------------------------------------------------------------------------------------
class Table:
    """DataFrame over one row space. cols: name -> element at generic row. index: label of generic row."""

    def __init__(self, name, space=None, cols=None, index=None, optional=None):
        self.name = name
        self.space = space or Space.get(name)
        self.cols = dict(cols or {})
        self.index_e = index if index is not None else SV(z3.Function(f"{name}.index", I, I)(self.space.i))
        self.pos_of = z3.Function(f"{name}.pos", I, I)   # label -> position (inverse of index on existing labels)
        self.optional = dict(optional or {})   # col -> presence (z3 Bool) for columns that may be absent
        self.writes = []        # log of stores: (col, via)
        self.oid = fresh_id()
        self.dropped = None     # z3 predicate over position: row removed

    def __repr__(self):
        return f"<Table {self.name} {list(self.cols)}>"

    def col_fn(self, col, sort=R):
        return z3.Function(f"{self.name}.{col}", I, sort)

    def add_col(self, col, sort=R, nan=False, value=None):
        if value is not None:
            self.cols[col] = value
            return value
        f = self.col_fn(col, sort)
        e = SV(f(self.space.i))
        if nan:
            nf = z3.Function(f"{self.name}.{col}.isnan", I, B)
            e = XV(e, nf(self.space.i))
        self.cols[col] = e
        return e

    def has(self, it, col):
        if col in self.optional:
            return SV(self.optional[col])
        return col in self.cols

    def write(self, it, col, v, via="direct"):
        if it.ctx.merge_mode:
            raise CannotMerge()
        self.writes.append((col, via))
        it.ctx.ghost.setdefault("table_writes", []).append((self.name, col, via))
        self.cols[col] = v

    def series(self, col):
        return Series(self, col)

    def by_label(self, it, col, label_z):
        """value of column at the row whose index label is label_z"""
        e = self.cols[col]
        return subst(e, self.space.i, self.pos_of(label_z))

    def label_axiom(self, it):
        # pos(index(i)) == i for the generic row
        it.ctx.facts.append(self.pos_of(to_z(self.index_e, I)) == self.space.i)

    def sym_contains(self, it, col):
        return self.has(it, col)

    def sym_len(self, it):
        return SV(self.space.n)

    def sym_isinstance(self, it, cls):
        return getattr(cls, "__name__", str(cls)) in ("DataFrame", "object", "NDFrame")

    def sym_getitem(self, it, key):
        if isinstance(key, str):
            if key in self.optional:
                if not it.ctx.expect(self.optional[key], tag=f"column {key} exists"):
                    raise PyRaise(KeyError(key))
            if key not in self.cols:
                raise PyRaise(KeyError(key))
            return Series(self, key)
        if isinstance(key, list) and all(isinstance(k, str) for k in key):
            return TableView(self, key)
        if isinstance(key, (Arr, Series)):
            m = key.arr() if isinstance(key, Series) else key
            if _is_boolish(m.e):
                return FilteredTable(self, _mask_and(m.mask, truth_z(m.e)))
        raise EngineError(f"DataFrame[{type(key).__name__}]")

    def sym_setitem(self, it, key, val):
        if isinstance(key, str):
            if isinstance(val, Series):
                val = val.arr()
            if isinstance(val, Arr):
                if val.space is not self.space or val.mask is not True:
                    raise EngineError("column assignment from a non-aligned array")
                self.write(it, key, val.e)
            elif is_scalar(val):
                self.write(it, key, val)
            else:
                raise EngineError(f"df[{key!r}] = {type(val).__name__}")
            self.optional.pop(key, None)
            return
        raise EngineError(f"DataFrame[{type(key).__name__}] = ...")

    def sym_deepcopy(self, it):
        t = Table(self.name + "'copy", self.space, dict(self.cols), self.index_e, dict(self.optional))
        t.pos_of = self.pos_of
        return t


class MappedKeys:
    """lookup[keys] for the distinct keys of a grouping"""

    def __init__(self, keys, lookup):
        self.keys = keys
        self.lookup = lookup


class FilteredTable:
    """df[mask] / df.loc[mask]: rows narrowed by a mask (read-only view for the subset)"""

    def __init__(self, table, mask):
        self.table = table
        self.mask = mask

    def sym_getitem(self, it, key):
        if isinstance(key, str):
            s = self.table.sym_getitem(it, key)
            return Arr(self.table.space, s.arr().e, self.mask)
        if isinstance(key, (list, tuple)) and key and all(isinstance(k, str) for k in key):
            return Cols([self.sym_getitem(it, k) for k in key])         # df[[c1, c2, ...]] of the selected rows
        if isinstance(key, Series):
            key = key.arr()
        if isinstance(key, Arr) and _is_boolish(key.e) and key.space is self.table.space:
            require_same_mask(it, key.mask, self.mask, "boolean selection of already selected rows")
            return FilteredTable(self.table, _mask_and(self.mask, truth_z(key.e)))
        raise EngineError("filtered table access")

    def sym_len(self, it):
        return SV(_count(it, self.table.space, self.mask))

    def sym_contains(self, it, col):
        return self.table.has(it, col)

    def sym_setitem(self, it, key, val):
        # df[mask] is a copy: a new column on it does not reach the table
        if isinstance(key, str):
            self.local = getattr(self, "local", {})
            self.local[key] = val
            return
        raise EngineError("store into a filtered table")


class TableView:
    def __init__(self, table, cols):
        self.table = table
        self.cols = cols


class Series:
    """a column of a table (df[col]); .values is a *view* (A-VIEW): stores through it write the table"""

    def __init__(self, table, col):
        self.table = table
        self.col = col

    def sym_set(self, it):
        return self.arr().sym_set(it)

    def sym_sum(self, it):
        return self.arr().sym_sum(it)

    def arr(self, view=False):
        return Arr(self.table.space, self.table.cols[self.col], True, owner=(self.table, self.col) if view else None)

    def generic_row(self):
        return self.table.space, True, self.table.cols[self.col]

    def make_like(self, e):
        return Arr(self.table.space, e, True)

    def __repr__(self):
        return f"<Series {self.table.name}.{self.col}>"

    def sym_unop(self, it, op):
        return self.arr().sym_unop(it, op)

    def sym_binop(self, it, op, a, b):
        return elementwise(it, lambda x, y: it.binop(op, x, y), a, b)

    def sym_compare(self, it, op, a, b):
        return self.arr().sym_compare(it, op, a.arr() if isinstance(a, Series) else a, b.arr() if isinstance(b, Series) else b)

    def sym_getitem(self, it, key):
        return self.arr().sym_getitem(it, key)

    def sym_len(self, it):
        return SV(self.table.space.n)

    def sym_iter(self, it):
        raise EngineError("python-level iteration over a column (use the generic-row comprehension)")

    def sym_any(self, it):
        return any_(it, self.arr())

    def sym_all(self, it):
        return all_(it, self.arr())

    def sym_isnan(self, it):
        return self.arr().sym_isnan(it)

    def sym_isinstance(self, it, cls):
        return getattr(cls, "__name__", str(cls)) in ("Series", "object", "NDFrame")


# ------------------------------------------------------------------------------------------------
# ppc matrices
# ------------------------------------------------------------------------------------------------
class SegBound(Imm):
    """a row boundary of a ppc matrix: end of segment `before`, start of segment `after` (either may be None)"""

    def __init__(self, seg, side=None, before=None, after=None):
        self.seg = seg
        self.side = side
        self.after = after if after is not None else (seg if side == "lo" else None)
        self.before = before if before is not None else (seg if side == "hi" else None)

    def __repr__(self):
        return f"<bound end:{self.before} start:{self.after}>"


def seg_between(lo, hi):
    if isinstance(lo, SegBound) and isinstance(hi, SegBound) and lo.after is not None and lo.after == hi.before:
        return lo.after
    return None


class Mat:
    """2-D array addressed as (row segment, constant column id). Each segment is a row space."""

    def __init__(self, name, segments, init=None):
        self.name = name
        self.segments = dict(segments)     # segname -> Space
        self.cols = {}                      # (segname, col) -> element at generic row of that segment
        self.init = init                    # callable(seg, col) -> initial element (default: uninterpreted old value)
        self.written = []                   # log of (segname, col)
        self.scatter = []                   # [(space, idx_z, col, value_e, mask)] writes through index arrays
        self.seg_masks = {}                 # segname -> mask over the segment's table space: the block holds the rows of the mask
        self.oid = fresh_id()

    def __repr__(self):
        return f"<Mat {self.name} segs={list(self.segments)}>"

    def old(self, seg, col):
        f = z3.Function(f"{self.name}0[{seg},{col}]", I, R)
        return SV(f(self.segments[seg].i))

    def get(self, seg, col):
        if (seg, col) in self.cols:
            return self.cols[(seg, col)]
        if self.init is not None:
            v = self.init(seg, col)
            if v is not None:
                return v
        return self.old(seg, col)

    def put(self, it, seg, col, e):
        if it.ctx.merge_mode:
            raise CannotMerge()
        self.cols[(seg, col)] = e
        self.written.append((seg, col))

    def _seg_of(self, key):
        if isinstance(key, slice):
            lo, hi = key.start, key.stop
            sg = seg_between(lo, hi)
            if sg is not None:
                return sg
            if lo is None and hi is None and len(self.segments) == 1:
                return next(iter(self.segments))
            if lo is None and isinstance(hi, SegBound) and hi.side == "hi" and list(self.segments)[0] == hi.seg:
                return hi.seg
        return None

    def sym_getitem(self, it, key):
        if isinstance(key, str):
            raise PyRaise(IndexError("string index into ndarray"))
        if not isinstance(key, tuple) or len(key) != 2:
            raise EngineError(f"ppc matrix index {key!r}")
        rows, col = key
        if isinstance(rows, tuple) and len(rows) == 1:
            rows = rows[0]      # index tuple returned by np.nonzero
        if isinstance(rows, Series):
            rows = rows.arr()
        if isinstance(rows, Cols):
            return Cols([self.sym_getitem(it, (c, col)) for c in rows.cols])
        if isinstance(rows, MultiArr):
            return MultiArr({sg: self.sym_getitem(it, (a, col)) for sg, a in rows.parts.items()})
        if isinstance(col, (tuple, list)) and all(isinstance(c, int) for c in col) and self._seg_of(rows) is None and \
                isinstance(rows, slice) and rows == slice(None, None, None):
            return Cols([self.sym_getitem(it, (rows, c)) for c in col])
        if isinstance(col, int) and not isinstance(col, bool) and isinstance(rows, slice) and rows == slice(None, None, None) \
                and len(self.segments) > 1:
            return MultiArr({sg: Arr(sp, self.get(sg, col), True) for sg, sp in self.segments.items()})
        if isinstance(col, (int,)) and not isinstance(col, bool):
            if getattr(rows, "node_mask", None) is not None and len(self.segments) == 1 and rows.space is next(iter(self.segments.values())):
                return Arr(rows.space, self.get(next(iter(self.segments)), col), rows.node_mask)
            seg = self._seg_of(rows)
            if seg is not None:
                return Arr(self.segments[seg], self.get(seg, col), self.seg_masks.get(seg, True))
            if isinstance(rows, Arr) and not _is_boolish(rows.e):
                if len(self.segments) != 1:
                    raise EngineError("gather from a multi-segment matrix")
                s = next(iter(self.segments))
                # last matching scatter write wins; a write through a compressed index array only reaches the rows of its mask
                want = z3.simplify(to_z(rows.e, I))
                hits = []
                for sp, idx, c, v, m in reversed(self.scatter):
                    if c == col and sp is rows.space and z3.eq(z3.simplify(idx), want):
                        hits.append((m, v))
                        if m is True:
                            break
                if hits and hits[-1][0] is True:
                    res = hits.pop()[1]
                else:
                    res = subst(self.get(s, col), self.segments[s].i, to_z(rows.e, I))
                for m, v in reversed(hits):
                    res = scalar_ite(SV(m), v, res)
                return Arr(rows.space, res, rows.mask)
            if isinstance(rows, Arr) and _is_boolish(rows.e):
                for s, sp in self.segments.items():
                    if sp is rows.space:
                        return Arr(sp, self.get(s, col), _mask_and(rows.mask, truth_z(rows.e)))
            if isinstance(rows, (int, SV)):
                if len(self.segments) != 1:
                    raise EngineError("row access into a multi-segment matrix")
                s = next(iter(self.segments))
                return subst(self.get(s, col), self.segments[s].i, to_z(rows, I))
        if isinstance(col, (list, tuple)) and all(isinstance(c, int) for c in col):
            seg = self._seg_of(rows)
            if seg is not None:
                return Cols([Arr(self.segments[seg], self.get(seg, c), True) for c in col])
        if isinstance(col, slice):
            raise EngineError("column slice of a ppc matrix")
        raise EngineError(f"ppc matrix index ({type(rows).__name__}, {col!r})")

    def sym_setitem(self, it, key, val):
        if not isinstance(key, tuple) or len(key) != 2:
            raise EngineError(f"ppc matrix store {key!r}")
        rows, col = key
        if isinstance(val, Series):
            val = val.arr()
        if isinstance(rows, Series):
            rows = rows.arr()
        if isinstance(col, slice) and isinstance(rows, (SV, int)) and not isinstance(rows, bool):
            lo, hi = col.start or 0, col.stop
            if not isinstance(lo, int) or not isinstance(hi, int) or col.step is not None:
                raise EngineError("column slice with non-constant bounds")
            vals = it.iterate(val) if not is_scalar(val) else [val] * (hi - lo)
            if len(vals) != hi - lo:
                raise PyRaise(ValueError("could not broadcast input array into column slice"))
            for c, v in zip(range(lo, hi), vals):
                self.sym_setitem(it, (rows, c), v)
            return
        if isinstance(col, (list, tuple)) and all(isinstance(c, int) for c in col):
            if isinstance(val, Cols):
                if len(val.cols) != len(col):
                    raise PyRaise(ValueError("could not broadcast input array into the column list"))
                for c, v in zip(col, val.cols):
                    self.sym_setitem(it, (rows, c), v)
                return
            if is_scalar(val):
                for c in col:
                    self.sym_setitem(it, (rows, c), val)
                return
        if not isinstance(col, int):
            raise EngineError("ppc matrix store with non-constant column")
        if getattr(rows, "node_mask", None) is not None and len(self.segments) == 1 and rows.space is next(iter(self.segments.values())):
            # ppc[keys, col] = v with keys = the nodes that have rows (node-indexed contract of _sum_by_group): written at those nodes only
            seg = next(iter(self.segments))
            if isinstance(val, Arr):
                if val.space is not rows.space:
                    raise EngineError("store through node keys: value of another row space")
                v = val.e
            elif is_scalar(val):
                v = val
            else:
                raise EngineError("store through node keys")
            self.put(it, seg, col, scalar_ite(SV(rows.node_mask), v, self.get(seg, col)))
            return
        if getattr(rows, "is_group_keys", False):
            # ppc[b, col] = v with (b, v) = _sum_by_group(...): one row per distinct key, holding the sum of the group
            if it.ctx.merge_mode:
                raise CannotMerge()
            self.group_stores = getattr(self, "group_stores", {})
            self.group_stores[col] = (rows, val)
            self.written.append(("group", col))
            return
        if isinstance(rows, SegRows):
            sp = self.segments[rows.seg]
            segmask = self.seg_masks.get(rows.seg, True)
            if isinstance(val, Arr):
                if val.space is not sp:
                    raise EngineError("store through block positions: value of another row space")
                # rows = positions of the block narrowed by rows.mask; the value is compressed accordingly
                require_same_mask(it, val.mask, _mask_and(segmask, rows.mask), f"store into rows of block {rows.seg} of {self.name}")
                v = val.e
            elif is_scalar(val):
                v = val
            else:
                raise EngineError("store through block positions")
            m = rows.mask if rows.mask is not True else z3.BoolVal(True)
            self.put(it, rows.seg, col, scalar_ite(SV(m), v, self.get(rows.seg, col)))
            return
        seg = self._seg_of(rows)
        if seg is not None:
            sp = self.segments[seg]
            if isinstance(val, Arr):
                if val.space is not sp:
                    raise EngineError(f"store into segment {seg} of {self.name} from an array of space {val.space.name}")
                segmask = self.seg_masks.get(seg, True)
                if val.mask is not True or segmask is not True:
                    # the block holds exactly the rows selected by the segment's mask (e.g. the in-service elements)
                    require_same_mask(it, val.mask, segmask, f"store into block {seg} of {self.name}")
                self.put(it, seg, col, val.e)
            elif is_scalar(val):
                self.put(it, seg, col, val)
            else:
                raise EngineError(f"store of {type(val).__name__} into ppc matrix")
            return
        if isinstance(rows, Arr) and not _is_boolish(rows.e):
            v = val.e if isinstance(val, Arr) else val
            if isinstance(val, Arr):
                if val.space is not rows.space:
                    raise EngineError("scatter store: value lives in another row space than the index array")
                require_same_mask(it, val.mask, rows.mask, "scatter store")
            elif type(val).__name__ == "Opaque":
                pass        # an unknown value reaches the addressed rows (and only those)
            elif not is_scalar(val):
                raise EngineError("scatter store value")
            if it.ctx.merge_mode:
                raise CannotMerge()
            self.scatter.append((rows.space, to_z(rows.e, I), col, v, rows.mask))
            self.written.append(("scatter:" + rows.space.name, col))
            return
        if isinstance(rows, Arr) and _is_boolish(rows.e):
            for s, sp in self.segments.items():
                if sp is rows.space:
                    cur = self.get(s, col)
                    v = val.e if isinstance(val, Arr) else val
                    self.put(it, s, col, scalar_ite(SV(_mask_and(rows.mask, truth_z(rows.e))), v, cur))
                    return
        if isinstance(rows, (SV, int)) and not isinstance(rows, bool):
            if not is_scalar(val):
                raise EngineError("single-row store of a non-scalar")
            if it.ctx.merge_mode:
                raise CannotMerge()
            self.scatter.append((None, to_z(rows, I), col, val, True))
            self.written.append(("row", col))
            return
        raise EngineError(f"ppc matrix store with rows {type(rows).__name__}")

    def row_of(self, space, idx_e, col, it=None):
        """element of column `col` in the row addressed by idx_e after all stores (last matching store wins).
        Index expressions are matched semantically (equal under the path condition); stores through index
        expressions that are not provably equal are assumed to address other rows (A-LOOKUP injectivity)."""
        want = z3.simplify(to_z(idx_e, I))
        hits = []
        for sp, idx, c, v, m in reversed(self.scatter):
            if c != col:
                continue
            if not (sp is space or sp is None or space is None):
                continue
            if z3.eq(z3.simplify(idx), want) or (it is not None and _provably_equal(it, idx, want)):
                hits.append((m, v))
                if m is True:
                    break
        if hits and hits[-1][0] is True:
            res = hits.pop()[1]
        elif len(self.segments) == 1:
            s = next(iter(self.segments))
            res = subst(self.get(s, col), self.segments[s].i, to_z(idx_e, I))
        else:
            raise EngineError("row_of on a multi-segment matrix")
        for m, v in reversed(hits):
            res = scalar_ite(SV(m), v, res)      # a write through a compressed index array only reaches the rows of its mask
        return res

    def sym_len(self, it):
        return SV(z3.Int(f"rows[{self.name}]"))

    def sym_isinstance(self, it, cls):
        return getattr(cls, "__name__", str(cls)) in ("ndarray", "object")


class SegRows:
    """np.arange(f, t) for the boundaries f, t of a row block of a ppc matrix: the positions of that block (optionally narrowed
    by a mask over the block's rows)"""

    def __init__(self, seg, mask=True):
        self.seg, self.mask = seg, mask

    def sym_getitem(self, it, key):
        if isinstance(key, Series):
            key = key.arr()
        if isinstance(key, Arr) and _is_boolish(key.e):
            return SegRows(self.seg, _mask_and(_mask_and(self.mask, key.mask), truth_z(key.e)))
        raise EngineError("index into a block position range")


class MultiArr:
    """a whole column of a ppc matrix with several row segments (one array per segment)"""
    is_array = True

    def __init__(self, parts):
        self.parts = dict(parts)

    def sym_binop(self, it, op, a, b):
        return elementwise(it, lambda x, y: it.binop(op, x, y), a, b)

    def sym_compare(self, it, op, a, b):
        import ast as _ast
        node = {"<": _ast.Lt(), "<=": _ast.LtE(), ">": _ast.Gt(), ">=": _ast.GtE(), "==": _ast.Eq(), "!=": _ast.NotEq()}[op]
        return elementwise(it, lambda x, y: it.cmpop(node, x, y), a, b)

    def sym_unop(self, it, op):
        return MultiArr({k: v.sym_unop(it, op) for k, v in self.parts.items()})

    def sym_abs(self, it):
        return MultiArr({k: v.sym_abs(it) for k, v in self.parts.items()})

    def sym_getitem(self, it, key):
        if isinstance(key, slice):
            if key == slice(None, None, None):
                return self
            sg = seg_between(key.start, key.stop)
            if sg is not None:
                return self.parts[sg]
        raise EngineError(f"index {key!r} into a multi-segment array")

    def sym_isinstance(self, it, cls):
        return getattr(cls, "__name__", str(cls)) in ("ndarray", "object")

    def map(self, f):
        return MultiArr({k: f(v) for k, v in self.parts.items()})


class Cols:
    """small 2-D array with a constant number of columns: tuple of aligned column arrays (Arr or MultiArr)"""
    is_array = True

    def __init__(self, cols):
        self.cols = list(cols)

    def sym_getitem(self, it, key):
        if isinstance(key, tuple) and len(key) == 2:
            rows, col = key
            sub = self if (isinstance(rows, slice) and rows == slice(None, None, None)) else self.sym_getitem(it, rows)
            if isinstance(col, int):
                return sub.cols[col]
            if isinstance(col, (tuple, list)):
                return Cols([sub.cols[c] for c in col])
            raise EngineError("Cols column index")
        if isinstance(key, slice) or isinstance(key, (Arr, Series)):
            return Cols([it.getitem(c, key) for c in self.cols])
        raise EngineError(f"Cols index {key!r}")

    def sym_setitem(self, it, key, val):
        if isinstance(key, tuple) and len(key) == 2 and isinstance(key[1], int):
            rows, col = key
            if isinstance(rows, slice) and rows == slice(None, None, None):
                if type(val).__name__ == "IndexVal":
                    val = val.arr()
                if isinstance(val, (Arr, Series, MultiArr)):
                    self.cols[col] = val.arr() if isinstance(val, Series) else val
                else:
                    it.setitem(self.cols[col], slice(None, None, None), val)
                return
            it.setitem(self.cols[col], rows, val)
            return
        raise EngineError("Cols store")

    def sym_binop(self, it, op, a, b):
        return elementwise(it, lambda x, y: it.binop(op, x, y), a, b)

    def sym_compare(self, it, op, a, b):
        import ast as _ast
        node = {"<": _ast.Lt(), "<=": _ast.LtE(), ">": _ast.Gt(), ">=": _ast.GtE(), "==": _ast.Eq(), "!=": _ast.NotEq()}[op]
        return elementwise(it, lambda x, y: it.cmpop(node, x, y), a, b)

    def sym_unop(self, it, op):
        return Cols([it.unop(op, c) for c in self.cols])

    def sym_isinstance(self, it, cls):
        return getattr(cls, "__name__", str(cls)) in ("ndarray", "object")

    def reduce_axis1(self, it, fn):
        acc = self.cols[0]
        for c in self.cols[1:]:
            acc = elementwise(it, fn, acc, c)
        return acc


# ------------------------------------------------------------------------------------------------
# comprehension over a column: the generic-row map
# ------------------------------------------------------------------------------------------------
def map_generic(it, arr, fn):
    """[f(x) for x in column] -> column with element f(e)"""
    a = arr.arr() if isinstance(arr, Series) else arr
    return Arr(a.space, fn(a.e), a.mask)


class GenericSet:
    """set(column): iterated for its generic member -- a value that occurs in the column (rows with that value exist)"""

    def __init__(self, arr):
        self.arr = arr
        z = to_z(arr.e)
        self.member = SV(z3.Const(f"member@set[{arr.space.name},{_key(z)}]", z.sort()))

    def generic_row(self):
        return self.arr.space, True, self.member

    def make_like(self, e):
        raise EngineError("comprehension over a generic set")


class _ArrCell:
    """undo-log adapter for a guarded store into an array inside a speculatively executed branch"""

    def __init__(self, arr):
        self.arr = arr
        self.e = _ArrCellDict(arr)


class _ArrCellDict(dict):
    def __init__(self, arr):
        dict.__init__(self)
        self.arr = arr

    def __setitem__(self, k, v):
        self.arr._e = v[1] if isinstance(v, tuple) else v

    def pop(self, k, default=None):
        return None


class BroadcastList:
    """[x] * n for a symbolic n: every element is x"""

    def __init__(self, x, n):
        self.x, self.n = x, n

    def sym_getitem(self, it, key):
        return self.x

    def sym_len(self, it):
        return self.n


class ZipArr:
    """zip(col1, col2, ...) of aligned columns: generic row is the tuple of the elements"""

    def __init__(self, it, arrs):
        rows = [a.generic_row() for a in arrs]
        sp, mask, _ = rows[0]
        for s2, m2, _ in rows[1:]:
            if s2 is not sp:
                raise EngineError("zip of columns of different tables")
            require_same_mask(it, mask, m2, "zip of columns")
        self.space, self.mask = sp, mask
        self.e = tuple(r[2] for r in rows)

    def generic_row(self):
        return self.space, self.mask, self.e

    def make_like(self, e):
        return Arr(self.space, e, self.mask)

    def sym_list(self, it):
        return self
