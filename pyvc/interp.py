"""Symbolic executor for the Python subset used by pandapower's pipeline code.

One *run* executes one path: symbolic branch conditions are decided by a decision list (replay
forking, no state copying); `if` statements whose branches only rebind local scalars are merged with
if-then-else terms instead of forking.  The explorer (pyvc.vc) re-runs the harness for every
alternative decision list until all feasible paths are covered.
"""
from __future__ import annotations

import ast
import os
import builtins as _bi
import importlib
import operator

import z3

from . import source
from .values import (SV, CV, XV, Opaque, EngineError, Imm, to_z, truth_z, ite, arith, compare, logic,
                     snot, sabs, PV, to_pv, fresh, B, I, R, coerce, is_sym)
from .containers import PDict, PSet, p_and, p_not, p_sv, _p


# ------------------------------------------------------------------------------------------------
# control-flow signals
# ------------------------------------------------------------------------------------------------
class PyRaise(Exception):
    """an exception of the interpreted program"""

    def __init__(self, exc, where=None):
        super().__init__(repr(exc))
        self.exc = exc
        self.where = where


class _Return(Exception):
    def __init__(self, value):
        self.value = value


class _Break(Exception):
    pass


class _Continue(Exception):
    pass


class PathInfeasible(Exception):
    pass


class CannotMerge(Exception):
    pass


class PathLimit(EngineError):
    pass


# ------------------------------------------------------------------------------------------------
# interpreted functions / classes / objects
# ------------------------------------------------------------------------------------------------
class FuncVal(Imm):
    def __init__(self, node, modenv, closure=None, qualname=None, cls=None):
        self.node = node
        self.modenv = modenv
        self.closure = closure
        self.name = node.name if hasattr(node, "name") else "<lambda>"
        self.qualname = qualname or self.name
        self.cls = cls
        self.defaults_cache = None
        self.decorators = [ast.unparse(d) for d in getattr(node, "decorator_list", [])]

    @property
    def key(self):
        return f"{self.modenv.modname}:{self.qualname}"

    def __repr__(self):
        return f"<func {self.key}>"


class ClassVal(Imm):
    def __init__(self, node, modenv, bases, ns):
        self.node = node
        self.modenv = modenv
        self.name = node.name
        self.bases = bases   # ClassVal or native classes
        self.ns = ns         # name -> value

    def mro(self):
        out = [self]
        for b in self.bases:
            if isinstance(b, ClassVal):
                for c in b.mro():
                    if c not in out:
                        out.append(c)
            else:
                if b not in out:
                    out.append(b)
        return out

    def lookup(self, name):
        for c in self.mro():
            if isinstance(c, ClassVal):
                if name in c.ns:
                    return c.ns[name], c
            else:
                if hasattr(c, name) and c is not object:
                    return getattr(c, name), c
        return None, None

    def is_subclass_of(self, other):
        return other in self.mro() or (not isinstance(other, ClassVal) and any(
            (not isinstance(c, ClassVal)) and isinstance(c, type) and isinstance(other, type) and issubclass(c, other)
            for c in self.mro()))

    def __repr__(self):
        return f"<class {self.modenv.modname}.{self.name}>"


class ObjVal:
    """instance of an interpreted class (mutable, identity matters)"""

    def __init__(self, cls, attrs=None):
        self.cls = cls
        self.attrs = attrs if attrs is not None else {}

    def __repr__(self):
        return f"<{self.cls.name if self.cls else 'obj'} object {list(self.attrs)[:6]}>"


class BoundMethod(Imm):
    def __init__(self, obj, func):
        self.obj = obj
        self.func = func


class SuperProxy(Imm):
    def __init__(self, obj, cls):
        self.obj = obj
        self.cls = cls


class Native(Imm):
    """wrapper marking a native python callable that wants the ctx as first argument"""

    def __init__(self, fn, pure=True, name=None):
        self.fn = fn
        self.pure = pure
        self.name = name or getattr(fn, "__name__", "native")

    def __repr__(self):
        return f"<native {self.name}>"


class Namespace(Imm):
    """stub module: attribute bag"""

    def __init__(self, name, attrs=None, default=None):
        self._name = name
        self._attrs = attrs or {}
        self._default = default

    def get(self, attr):
        if attr in self._attrs:
            return self._attrs[attr]
        if self._default is not None:
            return self._default(attr)
        raise EngineError(f"stub module {self._name} has no summary for '{attr}'")

    def __repr__(self):
        return f"<stub module {self._name}>"


# ------------------------------------------------------------------------------------------------
# module environments
# ------------------------------------------------------------------------------------------------
REAL_MODULE_PREFIXES = ()   # repository modules are never imported natively: their source is interpreted
REAL_MODULES = {"math": None, "operator": None, "itertools": None, "functools": None, "numbers": None,
                "collections": None, "re": None, "typing": None, "enum": None, "abc": None,
                "collections.abc": None, "string": None, "packaging": None, "packaging.version": None}


class ModEnv:
    def __init__(self, interp, modname):
        self.interp = interp
        self.modname = modname
        self.src = source.load_module(modname)
        self.vals = {}
        self._busy = set()

    def has(self, name):
        return name in self.vals or name in self.src.defs

    def get(self, name):
        if name in self.vals:
            return self.vals[name]
        if name not in self.src.defs:
            raise KeyError(name)
        if name in self._busy:
            raise EngineError(f"cyclic module-level definition {self.modname}.{name}")
        self._busy.add(name)
        try:
            d = self.src.defs[name]
            v = self._materialise(name, d)
        finally:
            self._busy.discard(name)
        self.vals[name] = v
        return v

    def _materialise(self, name, d):
        it = self.interp
        if isinstance(d, tuple):
            if d[0] == "import":
                full = d[1] if d[2] else d[1].split(".")[0]
                return it.import_module(full)
            mod, attr = d[1], d[2]
            return it.import_from(mod, attr)
        if isinstance(d, ast.FunctionDef):
            return FuncVal(d, self, qualname=name)
        if isinstance(d, ast.ClassDef):
            return it.make_class(d, self)
        if isinstance(d, (ast.Assign, ast.AnnAssign)):
            # module-level constant: evaluate concretely in the module environment
            env = Env({}, self, None)
            ctx = it.ctx
            saved = ctx.merge_mode
            try:
                val = it.ev(d.value, env)
            finally:
                ctx.merge_mode = saved
            if isinstance(d, ast.Assign):
                for t in d.targets:
                    if isinstance(t, ast.Name) and t.id == name:
                        return val
                    if isinstance(t, ast.Tuple):
                        for k, e in enumerate(t.elts):
                            if isinstance(e, ast.Name) and e.id == name:
                                return val[k]
            return val
        raise EngineError(f"module-level definition of {name} not understood")


class Env:
    def __init__(self, local, modenv, parent=None, func=None):
        self.local = local
        self.modenv = modenv
        self.parent = parent   # enclosing function env (closures)
        self.func = func
        self.globals_decl = set()
        self.merging = 0      # > 0 while a branch of a merged `if` of this very frame is executed speculatively

    def lookup(self, name, interp):
        e = self
        while e is not None:
            if name in e.local:
                return e.local[name]
            e = e.parent
        if self.modenv is not None and self.modenv.has(name):
            return self.modenv.get(name)
        if name == "__name__" and self.modenv is not None:
            return self.modenv.modname
        if name in interp.builtins:
            return interp.builtins[name]
        raise PyRaise(NameError(f"name '{name}' is not defined"))


# ------------------------------------------------------------------------------------------------
# execution context of one path
# ------------------------------------------------------------------------------------------------
class Ctx:
    def __init__(self, decisions=(), solver_timeout_ms=2000):
        self.decisions = list(decisions)
        self.taken = []
        self.pc = []
        self.alternatives = []
        self.merge_mode = 0
        self.log_opaque = []
        self.called = {}          # function key -> count (interpreted from source)
        self.summarised = {}      # function key -> count (replaced by a contract summary)
        self.facts = []           # assumptions of the harness (requires)
        self.axioms = []          # subset of facts valid for every row (instantiable for other rows)
        self.solver_timeout_ms = solver_timeout_ms
        self.steps = 0
        self.ghost = {}
        self.trace = []
        self.merge_guards = []    # z3 conditions of the merged branches being executed speculatively
        self.side = []            # side obligations raised by the engine: (label, hyps, goal, note)
        self.undo = []            # guarded dict stores made in speculative branches: (dict, key, previous entry)

    def side_obligation(self, label, goal, note=""):
        """an obligation the executed code must satisfy for the engine's reading of it to be right
        (e.g. two compressed arrays combined position-wise must be compressed by the same mask)"""
        hyps = self.hyps()
        if self.merge_mode and self.merge_guards:
            # emitted while a branch is executed speculatively: the obligation holds under the branch guards
            hyps = list(hyps) + [g for g in self.merge_guards if not isinstance(g, bool)]
        self.side.append((label, hyps, goal, note))

    def global_obligation(self, label, space, goal, note=""):
        """an obligation about *every* row of a row space (not only the generic row of this path, whose properties the path
        condition may have fixed): the generic index is replaced by a fresh one in the goal; the axioms of the path
        (facts valid for every row, e.g. the meaning of any()/all() decisions) are instantiated for it"""
        k = z3.Int(f"k@{space.name}")
        hyps = list(self.hyps()) + [z3.substitute(ax, (space.i, k)) for ax in self.axioms] + [k >= 0, k < space.n]
        if self.merge_mode and self.merge_guards:
            hyps += [g for g in self.merge_guards if not isinstance(g, bool)]
        self.side.append((label, hyps, z3.substitute(goal, (space.i, k)), note))

    def axiom(self, z):
        """a fact valid for every row (mentions the generic row index as a universally quantified variable)"""
        self.facts.append(z)
        self.axioms.append(z)

    def assume(self, z):
        if isinstance(z, SV):
            z = truth_z(z)
        if isinstance(z, bool):
            if not z:
                raise PathInfeasible()
            return
        self.facts.append(z)

    def hyps(self):
        from .values import AX
        return list(self.facts) + list(self.pc) + list(AX.facts)

    def feasible(self, z):
        s = z3.Solver()
        s.set("timeout", self.solver_timeout_ms)
        for h in self.hyps():
            s.add(h)
        s.add(z)
        r = s.check()
        return r != z3.unsat

    def expect(self, z, tag=None):
        """`z` is the normal case, `not z` leads to an exception.  Outside merged execution this is decide(z).
        Inside a speculatively executed (merged) branch with guard g it decides the exceptional case g & ~z:
        if that is taken the merge is abandoned (the path is re-run forked with g & ~z in its path condition),
        otherwise g -> z joins the path condition and execution continues merged."""
        if isinstance(z, SV):
            z = truth_z(z)
        if isinstance(z, bool):
            return z
        if not self.merge_mode:
            return self.decide(z, tag)
        if len(self.merge_guards) != self.merge_mode:
            raise CannotMerge()
        bad = z3.And(*self.merge_guards, z3.Not(z))
        if self.decide(bad, tag=(tag or "") + " [exceptional case in merged branch]", force=True):
            raise CannotMerge()
        return True

    def decide(self, z, tag=None, force=False):
        """decide a symbolic condition on this path"""
        if isinstance(z, SV):
            z = truth_z(z)
        if isinstance(z, bool):
            return z
        z = z3.simplify(z)
        if z3.is_true(z):
            return True
        if z3.is_false(z):
            return False
        if self.merge_mode and not force:
            raise CannotMerge()
        idx = len(self.taken)
        if idx < len(self.decisions):
            choice = self.decisions[idx]
        else:
            t_ok = self.feasible(z)
            f_ok = self.feasible(z3.Not(z))
            if t_ok and f_ok:
                choice = True
                self.alternatives.append(self.taken + [False])
            elif t_ok:
                choice = True
            elif f_ok:
                choice = False
            else:
                raise PathInfeasible()
        self.taken.append(choice)
        self.pc.append(z if choice else z3.Not(z))
        if tag:
            self.trace.append((tag, choice))
        return choice


# ------------------------------------------------------------------------------------------------
# the interpreter
# ------------------------------------------------------------------------------------------------
_BINOPS = {ast.Add: "+", ast.Sub: "-", ast.Mult: "*", ast.Div: "/", ast.FloorDiv: "//", ast.Mod: "%",
           ast.Pow: "**", ast.BitAnd: "&", ast.BitOr: "|", ast.BitXor: "^", ast.MatMult: "@",
           ast.LShift: "<<", ast.RShift: ">>"}
_CMPOPS = {ast.Lt: "<", ast.LtE: "<=", ast.Gt: ">", ast.GtE: ">=", ast.Eq: "==", ast.NotEq: "!="}

PURE_NATIVE_METHODS = {"get", "keys", "items", "values", "copy", "startswith", "endswith", "format", "join",
                       "split", "lower", "upper", "strip", "index", "count", "replace", "astype", "isin",
                       "any", "all", "sum", "conj", "tolist", "item", "fillna", "query", "isnull", "notnull",
                       "isna", "notna", "flatten", "lstrip", "rstrip", "union", "intersection", "difference",
                       "issubset", "mean", "min", "max", "unique", "nonzero", "conjugate", "to_numpy", "title",
                       "capitalize", "encode", "isdigit", "find", "rfind", "splitlines", "partition", "is_integer"}


class Interp:
    def __init__(self, ctx=None):
        self.ctx = ctx or Ctx()
        self.modenvs = {}
        self.stub_modules = {}     # module name -> Namespace / value
        self.summaries = {}        # "module:qualname" -> python callable(interp, *args, **kwargs)
        self.attr_hooks = []       # (type, fn(interp, obj, name) -> value or NotImplemented)
        self.item_hooks = []
        self.builtins = {}
        self.max_steps = 400000
        self.call_depth = 0
        self.on_call = None        # hook(interp, funcval, args, kwargs) for ghost effects
        from . import pybuiltins
        pybuiltins.install(self)

    # -- modules ----------------------------------------------------------------------------------
    def modenv(self, modname):
        if modname not in self.modenvs:
            self.modenvs[modname] = ModEnv(self, modname)
        return self.modenvs[modname]

    def import_module(self, full):
        if full in self.stub_modules:
            return self.stub_modules[full]
        top = full.split(".")[0]
        if full in REAL_MODULES:
            return importlib.import_module(full)
        if top in self.stub_modules and full == top:
            return self.stub_modules[top]
        if source.module_path(full) is not None:
            return ModuleVal(self, full)
        return Opaque(f"module {full}")

    def import_from(self, mod, attr):
        if mod in self.stub_modules:
            s = self.stub_modules[mod]
            return s.get(attr) if isinstance(s, Namespace) else getattr(s, attr)
        if mod in REAL_MODULES:
            return getattr(importlib.import_module(mod), attr)
        sub = f"{mod}.{attr}"
        if sub in self.stub_modules:
            return self.stub_modules[sub]
        if source.module_path(mod) is not None:
            me = self.modenv(mod)
            if me.has(attr):
                return me.get(attr)
            if source.module_path(sub) is not None:
                return ModuleVal(self, sub)
            # star re-exports of a package __init__
            for node in me.src.tree.body:
                if isinstance(node, ast.ImportFrom) and any(a.name == "*" for a in node.names):
                    m2 = node.module or ""
                    if node.level:
                        base = me.modname.split(".")
                        if not me.src.path.endswith("__init__.py"):
                            base = base[:-1]
                        base = base[:len(base) - (node.level - 1)]
                        m2 = ".".join(base + ([m2] if m2 else []))
                    if source.module_path(m2) is not None:
                        try:
                            v = self.import_from(m2, attr)
                        except (EngineError, source.SourceError):
                            continue
                        if not isinstance(v, Opaque):
                            return v
            return Opaque(f"{mod}.{attr}")
        top = mod.split(".")[0]
        if top in self.stub_modules:
            s = self.stub_modules[top]
            # e.g. from numpy import array  /  from scipy.sparse import csr_matrix
            if isinstance(s, Namespace):
                try:
                    return s.get(attr)
                except EngineError:
                    return Opaque(f"{mod}.{attr}")
        return Opaque(f"{mod}.{attr}")

    def function(self, key) -> FuncVal:
        """'pandapower.run:runpp' or 'pandapower.x:Class.method'"""
        modname, qual = key.split(":")
        parts = qual.split(".")
        me = self.modenv(modname)
        if parts[0] not in me.src.defs:
            raise source.SourceError(f"contract target missing: {key}")
        v = me.get(parts[0])
        for p in parts[1:]:
            if isinstance(v, ClassVal):
                f, _ = v.lookup(p)
                if f is None:
                    raise source.SourceError(f"contract target missing: {key}")
                v = f
            else:
                raise source.SourceError(f"contract target missing: {key}")
        if not isinstance(v, (FuncVal, ClassVal)):
            raise source.SourceError(f"contract target {key} is not a function/class defined in the source ({v!r})")
        return v

    def make_class(self, node, modenv, env=None):
        e = env or Env({}, modenv, None)
        bases = [self.ev(b, e) for b in node.bases]
        bases = [b for b in bases]
        ns = {}
        cls = ClassVal(node, modenv, bases, ns)
        cenv = Env(ns, modenv, env)
        for st in node.body:
            if isinstance(st, ast.FunctionDef):
                decs = [ast.unparse(d) for d in st.decorator_list]
                fv = FuncVal(st, modenv, closure=env, qualname=f"{node.name}.{st.name}", cls=cls)
                if any(d.endswith(".setter") or d.endswith(".deleter") for d in decs) and isinstance(ns.get(st.name), FuncVal) and \
                        ("property" in ns[st.name].decorators or any(d.endswith(".getter") for d in ns[st.name].decorators)):
                    continue      # the property keeps its getter; setters are found through _find_setter
                if any(d.endswith(".getter") for d in decs):
                    fv.decorators = list(fv.decorators) + ["property"]
                ns[st.name] = fv
            elif isinstance(st, (ast.Assign, ast.AnnAssign)):
                if isinstance(st, ast.AnnAssign) and st.value is None:
                    continue
                self.ex(st, cenv)
            elif isinstance(st, ast.Expr) and isinstance(st.value, ast.Constant):
                continue
            elif isinstance(st, ast.Pass):
                continue
            elif isinstance(st, ast.ClassDef):
                ns[st.name] = self.make_class(st, modenv, env)
            else:
                raise EngineError(f"class body statement {type(st).__name__} in {node.name}")
        return cls

    # -- truth ------------------------------------------------------------------------------------
    def truth(self, v, tag=None):
        if isinstance(v, bool):
            return v
        if isinstance(v, SV):
            return self.ctx.decide(truth_z(v), tag)
        if isinstance(v, CV):
            return self.ctx.decide(truth_z(v), tag)
        if isinstance(v, Opaque):
            self.ctx.log_opaque.append(f"truth({v.why})")
            return self.ctx.decide(z3.Const(f"opaque_truth[{v.why}]", B), tag)
        if isinstance(v, PDict):
            n = v.sym_len()
            return self.truth(compare(">", n, 0), tag) if isinstance(n, SV) else n > 0
        if isinstance(v, PSet):
            n = v.sym_len()
            return self.truth(compare(">", n, 0), tag) if isinstance(n, SV) else n > 0
        if hasattr(v, "sym_truth"):
            return self.truth(v.sym_truth(self), tag)
        if isinstance(v, (ObjVal, FuncVal, ClassVal, BoundMethod, Native)):
            if isinstance(v, ObjVal):
                f = self.class_attr(v, "__bool__") or self.class_attr(v, "__len__")
                if f is not None:
                    r = self.call(f, [], {})
                    return self.truth(r if not isinstance(r, int) or isinstance(r, bool) else r != 0, tag)
            return True
        try:
            return bool(v)
        except Exception as e:
            raise EngineError(f"truth of {type(v).__name__}: {e}")

    def truth_sv(self, v):
        """truth value as scalar (bool or SV) without deciding"""
        if isinstance(v, bool):
            return v
        if isinstance(v, (SV, CV)):
            return SV(truth_z(v))
        if isinstance(v, Opaque):
            self.ctx.log_opaque.append(f"truth({v.why})")
            return SV(z3.Const(f"opaque_truth[{v.why}]", B))
        if isinstance(v, (PDict, PSet)):
            n = v.sym_len()
            return compare(">", n, 0)
        if hasattr(v, "sym_truth"):
            return self.truth_sv(v.sym_truth(self))
        return self.truth(v)

    # -- expressions ------------------------------------------------------------------------------
    def ev(self, node, env):
        self.ctx.steps += 1
        if self.ctx.steps > self.max_steps:
            raise EngineError("step limit exceeded")
        m = getattr(self, "ev_" + type(node).__name__, None)
        if m is None:
            raise EngineError(f"expression {type(node).__name__} not supported (line {getattr(node, 'lineno', '?')})")
        return m(node, env)

    def ev_Constant(self, node, env):
        return node.value

    def ev_Name(self, node, env):
        v = env.lookup(node.id, self)
        while isinstance(v, LazyPhi):
            v = v.a if self.truth(v.cond, tag=f"{node.id} (value depends on an earlier branch)") else v.b
        if isinstance(v, MaybeUndef):
            if self.ctx.expect(v.cond, tag=f"{node.id} defined"):
                return v.value
            raise PyRaise(UnboundLocalError(f"local variable '{node.id}' referenced before assignment"))
        return v

    def ev_Tuple(self, node, env):
        return tuple(self._elts(node.elts, env))

    def ev_List(self, node, env):
        return list(self._elts(node.elts, env))

    def ev_Set(self, node, env):
        return set(self._elts(node.elts, env))

    def _elts(self, elts, env):
        out = []
        for e in elts:
            if isinstance(e, ast.Starred):
                out.extend(self.iterate(self.ev(e.value, env)))
            else:
                out.append(self.ev(e, env))
        return out

    def ev_Dict(self, node, env):
        d = PDict()
        for k, v in zip(node.keys, node.values):
            if k is None:
                other = self.ev(v, env)
                self.dict_update(d, other)
            else:
                d.set(self.ev(k, env), self.ev(v, env))
        return d

    def dict_update(self, d, other, when=True):
        if isinstance(other, (PDict, dict)):
            d.update_from(other, when)
        elif isinstance(other, ObjVal) and "_items" in other.attrs:
            d.update_from(other.attrs["_items"], when)
        elif hasattr(other, "as_pdict"):
            d.update_from(other.as_pdict(), when)
        else:
            for k, v in self.iterate(other):
                d.set(k, v, when)

    def ev_JoinedStr(self, node, env):
        parts = []
        for v in node.values:
            if isinstance(v, ast.Constant):
                parts.append(str(v.value))
            else:
                val = self.ev(v.value, env)
                parts.append(self.to_str(val))
        return "".join(parts)

    def to_str(self, val):
        if isinstance(val, (SV, CV, Opaque)):
            return "<sym>"
        if isinstance(val, (PDict, PSet)):
            return repr(val)
        try:
            return format(val)
        except Exception:
            return repr(val)

    def ev_FormattedValue(self, node, env):
        return self.to_str(self.ev(node.value, env))

    def ev_Lambda(self, node, env):
        return FuncVal(node, env.modenv, closure=env, qualname="<lambda>")

    def ev_IfExp(self, node, env):
        c = self.ev(node.test, env)
        cs = self._scalar_cond(c)
        if isinstance(cs, bool):
            return self.ev(node.body if cs else node.orelse, env)
        # try a merged evaluation (both sides, no side effects), else fork
        self.ctx.merge_mode += 1
        try:
            try:
                self.ctx.merge_guards.append(cs.z)
                try:
                    a = self.ev(node.body, env)
                finally:
                    self.ctx.merge_guards.pop()
                self.ctx.merge_guards.append(z3.Not(cs.z))
                try:
                    b = self.ev(node.orelse, env)
                finally:
                    self.ctx.merge_guards.pop()
                r = self.merge_values(cs, a, b)
                return r
            except (CannotMerge, PyRaise):
                pass
        finally:
            self.ctx.merge_mode -= 1
        if self.truth(c):
            return self.ev(node.body, env)
        return self.ev(node.orelse, env)

    def _scalar_cond(self, c):
        """bool or SV(Bool) of the truth of c, no decision"""
        return self.truth_sv(c)

    def merge_values(self, c, a, b):
        if a is b:
            return a
        if isinstance(a, (MaybeUndef, LazyPhi)) or isinstance(b, (MaybeUndef, LazyPhi)):
            raise CannotMerge()
        if isinstance(a, (SV, CV, bool, int, float, str, type(None), complex, Opaque)) and \
                isinstance(b, (SV, CV, bool, int, float, str, type(None), complex, Opaque)):
            if not is_sym(a) and not is_sym(b):
                if type(a) is type(b) and a == b:
                    return a
            return ite(c, a, b)
        if hasattr(a, "merge_with"):
            r = a.merge_with(self, c, b)
            if r is not NotImplemented:
                return r
        if isinstance(a, tuple) and isinstance(b, tuple) and len(a) == len(b):
            return tuple(self.merge_values(c, x, y) for x, y in zip(a, b))
        raise CannotMerge()

    def ev_BoolOp(self, node, env):
        is_and = isinstance(node.op, ast.And)
        val = None
        acc = None   # accumulated symbolic condition for merged evaluation
        for k, sub in enumerate(node.values):
            v = self.ev(sub, env)
            last = k == len(node.values) - 1
            if acc is None:
                t = self.truth_sv(v)
                if isinstance(t, bool):
                    if is_and and not t:
                        return v
                    if not is_and and t:
                        return v
                    val = v
                    continue
                if last:
                    return v        # `concrete-falsy or x` / `concrete-truthy and x`: the value is x itself
                # symbolic: from here on combine as boolean terms (the value of `a and b` is only used as truth value
                # in the code base when a is symbolic); operands are evaluated eagerly under merge mode
                acc = t
                val = None
                continue
            t = self.truth_sv(v)
            acc = logic("&", acc, t) if is_and else logic("|", acc, t)
            if isinstance(acc, bool):
                if is_and and not acc:
                    return False
                if not is_and and acc:
                    return True
                acc = None
                val = acc
        if acc is not None:
            return acc
        return val

    def ev_UnaryOp(self, node, env):
        v = self.ev(node.operand, env)
        if isinstance(node.op, ast.Not):
            t = self.truth_sv(v)
            return (not t) if isinstance(t, bool) else snot(t)
        if isinstance(v, Opaque):
            return Opaque(f"unary({v.why})")
        if isinstance(node.op, ast.USub):
            return self.unop("neg", v)
        if isinstance(node.op, ast.UAdd):
            return v
        if isinstance(node.op, ast.Invert):
            return self.unop("invert", v)
        raise EngineError("unary op")

    def unop(self, op, v):
        if hasattr(v, "sym_unop"):
            return v.sym_unop(self, op)
        if isinstance(v, Opaque):
            return Opaque(f"{op}({v.why})")
        if op == "neg":
            if isinstance(v, (SV, CV)):
                return -v
            return operator.neg(v)
        if isinstance(v, SV):
            return snot(v)
        if isinstance(v, bool):
            return not v
        return operator.invert(v)

    def ev_BinOp(self, node, env):
        a = self.ev(node.left, env)
        b = self.ev(node.right, env)
        return self.binop(_BINOPS[type(node.op)], a, b)

    def binop(self, op, a, b):
        if isinstance(a, Opaque) or isinstance(b, Opaque):
            return Opaque(f"binop {op}")
        if op == "*" and isinstance(a, list) and len(a) == 1 and isinstance(b, SV) and b.is_int() and not getattr(self, "opaque_loops", False):
            from .arrays import BroadcastList
            return BroadcastList(a[0], b)
        if op == "%" and isinstance(a, str):
            if isinstance(b, tuple):
                b = tuple(self.to_str(x) if isinstance(x, (SV, CV, Opaque, PDict, PSet)) else x for x in b)
            elif isinstance(b, (SV, CV, Opaque, PDict, PSet)):
                b = self.to_str(b)
            try:
                return a % b
            except TypeError:
                return a
        if op == "*" and getattr(self, "opaque_loops", False) and \
                ((isinstance(a, (list, tuple)) and isinstance(b, SV)) or (isinstance(b, (list, tuple)) and isinstance(a, SV))):
            return Opaque("sequence * unknown length")
        if op == "+" and isinstance(a, str) and not isinstance(b, str):
            raise PyRaise(TypeError("can only concatenate str"))
        for x in (a, b):
            if hasattr(x, "sym_binop"):
                r = x.sym_binop(self, op, a, b)
                if r is not NotImplemented:
                    return r
        if isinstance(a, (PSet,)) or isinstance(b, (PSet,)):
            a2 = a if isinstance(a, PSet) else PSet(a)
            b2 = b if isinstance(b, PSet) else PSet(b)
            if op == "&":
                return a2.intersect(b2)
            if op == "|":
                return a2.union(b2)
            if op == "-":
                return a2.difference(b2)
        if isinstance(a, PDict) and isinstance(b, PDict) and op == "|":
            r = PDict(a)
            r.update_from(b)
            return r
        if op in ("&", "|", "^") and (isinstance(a, SV) or isinstance(b, SV)):
            return logic(op, a, b)
        if isinstance(a, (SV, CV)) or isinstance(b, (SV, CV)):
            if isinstance(a, (SV, CV, XV, int, float, bool, complex)) and isinstance(b, (SV, CV, XV, int, float, bool, complex)):
                return arith(op, a, b)
            if hasattr(a, "dtype") or hasattr(b, "dtype"):
                # numpy scalar mixed with symbolic
                a = a.item() if hasattr(a, "item") else a
                b = b.item() if hasattr(b, "item") else b
                return arith(op, a, b)
            raise EngineError(f"binop {op} on {type(a).__name__}, {type(b).__name__}")
        fn = {"+": operator.add, "-": operator.sub, "*": operator.mul, "/": operator.truediv,
              "//": operator.floordiv, "%": operator.mod, "**": operator.pow, "&": operator.and_,
              "|": operator.or_, "^": operator.xor, "@": operator.matmul, "<<": operator.lshift,
              ">>": operator.rshift}[op]
        try:
            return fn(a, b)
        except ZeroDivisionError as e:
            raise PyRaise(e)
        except TypeError as e:
            raise PyRaise(e)

    def ev_Compare(self, node, env):
        left = self.ev(node.left, env)
        result = True
        for op, rn in zip(node.ops, node.comparators):
            right = self.ev(rn, env)
            r = self.cmpop(op, left, right)
            if isinstance(r, bool):
                if not r:
                    return False
            else:
                result = r if result is True else self.binop("&", result, r)
            left = right
        return result

    def cmpop(self, op, a, b):
        if isinstance(op, ast.Is):
            return self.is_same(a, b)
        if isinstance(op, ast.IsNot):
            r = self.is_same(a, b)
            return (not r) if isinstance(r, bool) else snot(r)
        if isinstance(op, ast.In):
            return self.contains(b, a)
        if isinstance(op, ast.NotIn):
            r = self.contains(b, a)
            return (not r) if isinstance(r, bool) else snot(r)
        sym = _CMPOPS[type(op)]
        if isinstance(a, Opaque) or isinstance(b, Opaque):
            return Opaque(f"compare {sym}")
        for x in (a, b):
            if hasattr(x, "sym_compare"):
                r = x.sym_compare(self, sym, a, b)
                if r is not NotImplemented:
                    return r
        if isinstance(a, (SV, CV)) or isinstance(b, (SV, CV)):
            a = a.item() if hasattr(a, "item") and hasattr(a, "dtype") else a
            b = b.item() if hasattr(b, "item") and hasattr(b, "dtype") else b
            other = b if isinstance(a, (SV, CV)) else a
            symv = a if isinstance(a, (SV, CV)) else b
            if isinstance(symv, SV) and symv.is_pv():
                if isinstance(other, (str, type(None), int, float, bool, SV)):
                    return compare(sym, a, b)
                if sym == "==":
                    return SV(to_z(symv) == to_pv(other))
                if sym == "!=":
                    return SV(to_z(symv) != to_pv(other))
            if isinstance(other, (str, type(None))):
                if sym == "==":
                    return False
                if sym == "!=":
                    return True
                raise PyRaise(TypeError(f"'{sym}' not supported between number and {type(other).__name__}"))
            return compare(sym, a, b)
        if isinstance(a, ObjVal):
            name = {"==": "__eq__", "!=": "__ne__", "<": "__lt__", "<=": "__le__", ">": "__gt__", ">=": "__ge__"}[sym]
            f = self.class_attr(a, name)
            if f is not None:
                return self.call(f, [b], {})
            if sym == "==":
                return a is b
            if sym == "!=":
                return a is not b
        if isinstance(a, (PDict, PSet)) or isinstance(b, (PDict, PSet)):
            if sym in ("==", "!="):
                eq = self.container_eq(a, b)
                return eq if sym == "==" else ((not eq) if isinstance(eq, bool) else snot(eq))
        fn = {"<": operator.lt, "<=": operator.le, ">": operator.gt, ">=": operator.ge, "==": operator.eq,
              "!=": operator.ne}[sym]
        try:
            r = fn(a, b)
        except TypeError as e:
            raise PyRaise(e)
        if isinstance(r, (bool, SV)):
            return r
        if hasattr(r, "dtype") and getattr(r, "shape", None) == ():
            return bool(r)
        return r

    def container_eq(self, a, b):
        if isinstance(a, PDict) and isinstance(b, (PDict, dict)):
            b = b if isinstance(b, PDict) else PDict(b)
            acc = True
            for k in set(a.e) | set(b.e):
                pa, pb = a.presence(k), b.presence(k)
                same_p = True if pa is pb else SV(_z(pa) == _z(pb)) if not (isinstance(pa, bool) and isinstance(pb, bool)) else pa == pb
                acc = self.binop("&", acc, same_p) if not (isinstance(acc, bool) and isinstance(same_p, bool)) else (acc and same_p)
                if pa is not False and pb is not False:
                    veq = self.cmpop(ast.Eq(), a.raw(k), b.raw(k))
                    both = p_and(pa, pb)
                    cond = veq if both is True else self.binop("|", snot(p_sv(both)) if not isinstance(both, bool) else (not both), veq)
                    acc = self.binop("&", acc, cond) if not (isinstance(acc, bool) and isinstance(cond, bool)) else (acc and cond)
            return acc
        return a is b

    def is_same(self, a, b):
        # `x is nan` with numpy's nan object: a NaN argument is taken to be that object (the default "not given" value)
        for x, y in ((a, b), (b, a)):
            if isinstance(x, XV) and isinstance(y, float) and y != y:
                return SV(x.nan) if not isinstance(x.nan, bool) else x.nan
            if isinstance(x, XV) and y is None:
                return False
        if isinstance(a, SV) and a.is_pv() or isinstance(b, SV) and b.is_pv():
            if a is None or b is None:
                other = a if b is None else b
                return SV(PV.is_none(other.z))
            if isinstance(a, bool) or isinstance(b, bool):
                return SV(to_z(a, PV) == to_z(b, PV))
            if isinstance(a, SV) and isinstance(b, SV):
                return SV(to_z(a, PV) == to_z(b, PV))
            return False
        if isinstance(a, (SV, CV)) or isinstance(b, (SV, CV)):
            if a is None or b is None:
                return False
            if isinstance(a, bool) or isinstance(b, bool):
                # `x is True` for a symbolic boolean
                if isinstance(a, SV) and a.is_bool() or isinstance(b, SV) and b.is_bool():
                    return compare("==", a, b)
                return False
            return a is b
        if isinstance(a, Opaque) or isinstance(b, Opaque):
            if a is b:
                return True
            return Opaque("is")
        return a is b

    def contains(self, cont, item):
        if isinstance(cont, PDict):
            if isinstance(item, SV):
                return self._sym_key_in(item, [(k, cont.presence(k)) for k in cont.e])
            return p_sv(cont.presence(item))
        if isinstance(cont, PSet):
            if isinstance(item, SV):
                return self._sym_key_in(item, list(cont.e.items()))
            return p_sv(cont.presence(item))
        if isinstance(cont, Opaque) or isinstance(item, Opaque):
            return Opaque("in")
        if hasattr(cont, "sym_contains"):
            return cont.sym_contains(self, item)
        if isinstance(cont, ObjVal):
            f = self.class_attr(cont, "__contains__")
            if f is not None:
                return self.call(f, [item], {})
        if isinstance(item, SV):
            # membership of a symbolic scalar in a concrete collection: disjunction of equalities
            acc = False
            for x in self.iterate(cont):
                acc = self.binop("|", acc, self.cmpop(ast.Eq(), item, x)) if not isinstance(acc, bool) or not acc else True
            return acc
        try:
            return item in cont
        except TypeError as e:
            raise PyRaise(e)

    def _sym_key_in(self, item, entries):
        acc = False
        for k, p in entries:
            if p is False:
                continue
            eq = self.cmpop(ast.Eq(), item, k)
            term = eq if p is True else self.binop("&", eq, p_sv(p))
            if isinstance(term, bool):
                if term:
                    return True
                continue
            acc = term if acc is False else self.binop("|", acc, term)
        return acc

    def ev_Attribute(self, node, env):
        obj = self.ev(node.value, env)
        return self.getattr(obj, node.attr)

    def class_attr(self, obj, name):
        if not isinstance(obj, ObjVal) or obj.cls is None:
            return None
        f, owner = obj.cls.lookup(name)
        if f is None:
            return None
        if isinstance(f, FuncVal):
            return BoundMethod(obj, f)
        if callable(f) and not isinstance(owner, ClassVal):
            return None
        return f

    def getattr(self, obj, name):
        if isinstance(obj, Opaque):
            return Opaque(f"{obj.why}.{name}")
        if isinstance(obj, ObjVal):
            if name in obj.attrs:
                return obj.attrs[name]
            if name == "__class__":
                return obj.cls
            if name == "__dict__":
                return PDict(obj.attrs)
            if obj.cls is not None:
                f, owner = obj.cls.lookup(name)
                if f is not None:
                    if isinstance(f, FuncVal):
                        if "staticmethod" in f.decorators:
                            return f
                        if "classmethod" in f.decorators:
                            return BoundMethod(obj.cls, f)
                        if "property" in f.decorators:
                            return self.call_function(f, [obj], {})
                        return BoundMethod(obj, f)
                    if isinstance(owner, ClassVal):
                        return f
                ga, _ = obj.cls.lookup("__getattr__")
                if isinstance(ga, FuncVal):
                    return self.call_function(ga, [obj, name], {})
            for typ, hook in self.attr_hooks:
                if isinstance(obj, typ):
                    r = hook(self, obj, name)
                    if r is not NotImplemented:
                        return r
            raise PyRaise(AttributeError(f"'{obj.cls.name if obj.cls else 'object'}' object has no attribute '{name}'"))
        if isinstance(obj, ClassVal):
            if name == "__name__":
                return obj.name
            f, owner = obj.lookup(name)
            if f is None:
                raise PyRaise(AttributeError(f"class {obj.name} has no attribute {name}"))
            if isinstance(f, FuncVal) and "classmethod" in f.decorators:
                return BoundMethod(obj, f)
            return f
        if isinstance(obj, ModuleVal):
            return obj.get(name)
        if isinstance(obj, Namespace):
            return obj.get(name)
        if isinstance(obj, SuperProxy):
            mro = obj.obj.cls.mro() if isinstance(obj.obj, ObjVal) else obj.obj.mro()
            start = mro.index(obj.cls) + 1
            for c in mro[start:]:
                if isinstance(c, ClassVal):
                    if name in c.ns:
                        f = c.ns[name]
                        return BoundMethod(obj.obj, f) if isinstance(f, FuncVal) else f
                else:
                    if c is object or c in (Exception, BaseException) or isinstance(c, type):
                        if name == "__init__":
                            return Native(lambda it, *a, **k: _native_base_init(obj.obj, a), pure=False, name="object.__init__")
                        if name == "__setattr__" and isinstance(obj.obj, ObjVal):
                            # object.__setattr__: the plain store (the user's own __setattr__ is not entered again)
                            def _plain_store(it, key, value, _o=obj.obj):
                                it.setattr(_o, key, value, _skip_user_setattr=True)
                            return Native(_plain_store, pure=False, name="object.__setattr__")
                        if hasattr(c, name):
                            return getattr(c, name)
            raise PyRaise(AttributeError(name))
        for typ, hook in self.attr_hooks:
            if isinstance(obj, typ):
                r = hook(self, obj, name)
                if r is not NotImplemented:
                    return r
        if isinstance(obj, FuncVal):
            if name == "__name__":
                return obj.name
            raise PyRaise(AttributeError(name))
        if isinstance(obj, (SV, CV)):
            if name in ("real", "imag"):
                return getattr(obj, name)
            if name == "conj" or name == "conjugate":
                return Native(lambda it: obj.conj() if isinstance(obj, CV) else obj, name="conj")
            if name in ("values",):
                return obj
            if name == "astype":
                return Native(lambda it, t=None, **k: self.builtins["__astype__"](self, obj, t), name="astype")
            if name == "item":
                return Native(lambda it: obj, name="item")
            if name == "any" or name == "all":
                return Native(lambda it: obj, name=name)
            if name == "dtype":
                return Opaque("dtype")
            if getattr(self, "opaque_loops", False):
                return Opaque(f"<value>.{name}")
            raise EngineError(f"attribute {name} of symbolic scalar")
        try:
            return getattr(obj, name)
        except AttributeError as e:
            raise PyRaise(e)

    def setattr(self, obj, name, val, _skip_user_setattr=False):
        if isinstance(obj, Opaque):
            self.ctx.log_opaque.append(f"setattr({obj.why}.{name}) ignored")
            return
        if self.ctx.merge_mode:
            raise CannotMerge()
        if isinstance(obj, ObjVal):
            if obj.cls is not None:
                f, owner = obj.cls.lookup("__setattr__")
                if isinstance(f, FuncVal) and not _skip_user_setattr:
                    self.call_function(f, [obj, name, val], {})
                    return
                # property setter
                p, _ = obj.cls.lookup(name)
                if isinstance(p, FuncVal) and any(d.endswith(".setter") for d in p.decorators):
                    self.call_function(p, [obj, val], {})
                    return
                setter = self._find_setter(obj.cls, name)
                if setter is not None:
                    self.call_function(setter, [obj, val], {})
                    return
            for typ, hook in self.setattr_hooks:
                if isinstance(obj, typ):
                    if hook(self, obj, name, val) is not NotImplemented:
                        return
            obj.attrs[name] = val
            return
        if isinstance(obj, Opaque):
            self.ctx.log_opaque.append(f"setattr({obj.why}.{name}) ignored")
            return
        for typ, hook in self.setattr_hooks:
            if isinstance(obj, typ):
                if hook(self, obj, name, val) is not NotImplemented:
                    return
        if isinstance(obj, ClassVal):
            obj.ns[name] = val
            return
        try:
            setattr(obj, name, val)
        except AttributeError as e:
            raise PyRaise(e)

    setattr_hooks = []

    def _find_setter(self, cls, name):
        for c in cls.mro():
            if isinstance(c, ClassVal):
                for st in c.node.body:
                    if isinstance(st, ast.FunctionDef) and st.name == name and \
                            any(ast.unparse(d) == f"{name}.setter" for d in st.decorator_list):
                        return FuncVal(st, c.modenv, qualname=f"{c.name}.{name}", cls=c)
        return None

    def ev_Subscript(self, node, env):
        obj = self.ev(node.value, env)
        key = self.ev_slice(node.slice, env)
        return self.getitem(obj, key)

    def ev_slice(self, node, env):
        if isinstance(node, ast.Slice):
            return slice(self.ev(node.lower, env) if node.lower else None,
                         self.ev(node.upper, env) if node.upper else None,
                         self.ev(node.step, env) if node.step else None)
        if isinstance(node, ast.Tuple):
            return tuple(self.ev_slice(e, env) for e in node.elts)
        return self.ev(node, env)

    def ev_Slice(self, node, env):
        return self.ev_slice(node, env)

    def getitem(self, obj, key):
        if isinstance(obj, Opaque):
            return Opaque(f"{obj.why}[..]")
        if isinstance(obj, ClassVal) or (isinstance(obj, Native) and obj.name in ("dict", "list", "set", "tuple", "type")) \
                or (hasattr(obj, "typ") and hasattr(obj, "fn")):
            return obj      # Generic[...] / dict[str, int] style subscription of a class
        if isinstance(obj, PDict):
            if isinstance(key, SV):
                hit = self._sym_key_in(key, [(k, obj.presence(k)) for k in obj.e])
                if hit is False or not (hit is True or self.ctx.expect(hit, tag="symbolic key present")):
                    raise PyRaise(KeyError("<symbolic key>"))
                out = None
                for k in reversed(list(obj.e)):
                    if obj.presence(k) is False:
                        continue
                    out = obj.raw(k) if out is None else self.merge_values(self.cmpop(ast.Eq(), key, k), obj.raw(k), out)
                return out
            p = obj.presence(key)
            if p is False and getattr(obj, "factory", None) is not None:
                v = self.call(obj.factory, [], {})     # collections.defaultdict
                obj.set(key, v)
                return v
            if p is False or not (p is True or self.ctx.expect(p, tag=f"key {key!r} present")):
                raise PyRaise(KeyError(key))
            return obj.raw(key)
        if hasattr(obj, "sym_getitem"):
            return obj.sym_getitem(self, key)
        if isinstance(obj, ObjVal):
            f = self.class_attr(obj, "__getitem__")
            if f is not None:
                return self.call(f, [key], {})
            for typ, hook in self.item_hooks:
                if isinstance(obj, typ):
                    r = hook(self, obj, key)
                    if r is not NotImplemented:
                        return r
            raise PyRaise(TypeError("object is not subscriptable"))
        if isinstance(key, Opaque) or getattr(key, "opaque_like", False) or \
                (isinstance(key, tuple) and any(isinstance(k, Opaque) or getattr(k, "opaque_like", False) for k in key)):
            return Opaque(f"{type(obj).__name__}[unknown]")
        if isinstance(key, (SV, Opaque)) or hasattr(key, "sym_getitem"):
            if isinstance(obj, (list, tuple)) and isinstance(key, SV) and key.is_int():
                # selection from a concrete sequence by a symbolic index
                out = None
                for k in reversed(range(len(obj))):
                    out = obj[k] if out is None else self.merge_values(compare("==", key, k), obj[k], out)
                return out
            if hasattr(key, "index_into"):
                return key.index_into(self, obj)
            raise EngineError(f"symbolic subscript into {type(obj).__name__}")
        try:
            return obj[key]
        except (KeyError, IndexError, TypeError) as e:
            raise PyRaise(e)

    def setitem(self, obj, key, val):
        if isinstance(obj, Opaque):
            # a store into an unknown object changes no tracked state (also inside speculatively executed branches)
            self.ctx.log_opaque.append(f"setitem on {obj.why} ignored")
            return
        if self.ctx.merge_mode and getattr(obj, "mergeable_store", False):
            obj.sym_setitem(self, key, val)      # guards its own store by the branch conditions (or raises CannotMerge)
            return
        if self.ctx.merge_mode:
            if isinstance(obj, PDict) and not isinstance(key, (SV, Opaque)) and len(self.ctx.merge_guards) == self.ctx.merge_mode:
                # store into a dict inside a speculatively executed branch: a guarded update (undone if the merge is abandoned)
                if type(val).__name__ in ("Arr", "Cat", "Rows", "ndarray", "Series", "MappedKeys") or getattr(val, "is_group_keys", False) \
                        or getattr(val, "no_identity_merge", False):
                    raise CannotMerge()         # arrays are not merged by identity: the branch is explored on its own path
                old = list(obj.e[key]) if key in obj.e else None
                self.ctx.undo.append((obj, key, old))
                try:
                    obj.set(key, val, when=z3.And(*self.ctx.merge_guards) if self.ctx.merge_guards else True)
                except EngineError:
                    raise CannotMerge()
                return
            raise CannotMerge()
        if isinstance(obj, PDict):
            obj.set(key, val)
            return
        if hasattr(obj, "sym_setitem"):
            obj.sym_setitem(self, key, val)
            return
        if isinstance(obj, ObjVal):
            f = self.class_attr(obj, "__setitem__")
            if f is not None:
                self.call(f, [key, val], {})
                return
            raise PyRaise(TypeError("object does not support item assignment"))
        try:
            obj[key] = val
        except (KeyError, IndexError, TypeError) as e:
            raise PyRaise(e)

    def ev_Call(self, node, env):
        # super() without arguments
        if isinstance(node.func, ast.Name) and node.func.id == "super" and not node.args:
            selfv = env.lookup(env.func.node.args.args[0].arg, self) if env.func is not None else None
            return SuperProxy(selfv, env.func.cls)
        if isinstance(node.func, ast.Name) and node.func.id == "locals" and not node.args:
            return PDict({k: v for k, v in env.local.items() if not k.startswith('__')})
        f = self.ev(node.func, env)
        args = []
        for a in node.args:
            if isinstance(a, ast.Starred):
                args.extend(self.iterate(self.ev(a.value, env)))
            else:
                args.append(self.ev(a, env))
        kwargs = {}
        sym_kwargs = None
        for kw in node.keywords:
            if kw.arg is None:
                d = self.ev(kw.value, env)
                if isinstance(d, ObjVal) and "_items" in d.attrs:
                    d = d.attrs["_items"]
                if isinstance(d, PDict):
                    if d.is_concrete():
                        for k, (p, v) in d.e.items():
                            if k in kwargs:
                                raise PyRaise(TypeError(f"got multiple values for keyword argument '{k}'"))
                            kwargs[k] = v
                    else:
                        if sym_kwargs is None:
                            sym_kwargs = PDict()
                        sym_kwargs.update_from(d)
                elif isinstance(d, dict):
                    for k, v in d.items():
                        if k in kwargs:
                            raise PyRaise(TypeError(f"got multiple values for keyword argument '{k}'"))
                        kwargs[k] = v
                elif isinstance(d, Opaque):
                    pass
                else:
                    raise EngineError(f"** of {type(d).__name__}")
            else:
                kwargs[kw.arg] = self.ev(kw.value, env)
        if sym_kwargs is not None:
            kwargs["__symkw__"] = sym_kwargs
        try:
            return self.call(f, args, kwargs, node=node)
        except EngineError as e:
            if not getattr(e, "_located", False):
                e._located = True
                e.args = (f"{e.args[0] if e.args else ''} [at {env.modenv.modname if env.modenv else '?'}:{node.lineno}: "
                          f"{ast.unparse(node)[:100]}]",)
            raise

    # -- calls ------------------------------------------------------------------------------------
    def call(self, f, args, kwargs, node=None):
        if isinstance(f, BoundMethod):
            return self.call(f.func, [f.obj] + list(args), kwargs, node)
        if isinstance(f, FuncVal):
            return self.call_function(f, args, kwargs)
        if isinstance(f, ClassVal):
            return self.instantiate(f, args, kwargs)
        if hasattr(f, "typ") and hasattr(f, "fn") and not isinstance(f, type):
            return f.fn(self, *args, **self._plain_kwargs(kwargs, f.__name__))
        if isinstance(f, Native):
            if self.ctx.merge_mode and not f.pure:
                raise CannotMerge()
            kwargs = self._plain_kwargs(kwargs, f.name)
            return f.fn(self, *args, **kwargs)
        if hasattr(f, "py") and hasattr(f, "_pyvc_isinstance"):
            # numpy scalar type used as a conversion function: np.int64(x); pandas constructors: a new unknown object
            if f.py is None:
                return Opaque(f"{f.__name__}(...)")
            return self.builtins["__astype__"](self, args[0], f) if args else 0
        if getattr(f, "opaque_like", False) and not isinstance(f, Opaque):
            # df.<name>(...) on a frame-tracked table / column: a reader unless called with inplace=True
            if kwargs.get("inplace", False) is True and hasattr(f, "table"):
                f.table.write_unknown(self, f"{getattr(f, 'col', '?')}(inplace=True)")
                return None
            return Opaque(f"{getattr(f, 'why', 'method')}()")
        if isinstance(f, Opaque):
            if self.ctx.merge_mode and any(not isinstance(a, (SV, CV, int, float, str, bool, type(None), tuple, Opaque)) for a in args):
                raise CannotMerge()
            self.ctx.log_opaque.append(f"call {f.why}")
            return Opaque(f"{f.why}({', '.join(_why(a) for a in args)}{''.join(', %s=%s' % (k, _why(v)) for k, v in kwargs.items())})")
        if isinstance(f, ObjVal):
            m = self.class_attr(f, "__call__")
            if m is None:
                raise PyRaise(TypeError("object is not callable"))
            return self.call(m, args, kwargs)
        if callable(f):
            kwargs = self._plain_kwargs(kwargs, getattr(f, "__name__", "?"))
            if self.ctx.merge_mode:
                nm = getattr(f, "__name__", "")
                recv = getattr(f, "__self__", None)
                if recv is not None and not isinstance(recv, (str, tuple, int, float, frozenset, bytes, type(_bi))) \
                        and nm not in PURE_NATIVE_METHODS:
                    raise CannotMerge()
            if isinstance(f, type) and issubclass(f, BaseException):
                args = [self.to_str(a) if isinstance(a, (SV, CV, Opaque, PDict, PSet)) else a for a in args]
            elif any(isinstance(a, Opaque) for a in args) and isinstance(getattr(f, "__self__", None), (str, bytes, tuple, frozenset)):
                # method of an immutable value applied to an unknown value: unknown result, no effect
                return Opaque(f"{getattr(f, '__name__', 'native')}({', '.join(_why(a) for a in args)})")
            try:
                return f(*args, **kwargs)
            except EngineError:
                raise
            except PyRaise:
                raise
            except (KeyError, IndexError, ValueError, TypeError, AttributeError, ZeroDivisionError, StopIteration) as e:
                recv = getattr(f, "__self__", None)
                if recv is not None and not isinstance(recv, type(_bi)) or f in (int, float, str, len, next, iter, min, max, sum, sorted, dict, list, set, tuple):
                    if isinstance(e, (TypeError, AttributeError)) and any(isinstance(a, (SV, CV, PDict, PSet, Opaque)) or hasattr(a, "sym_getitem") for a in list(args) + list(kwargs.values())):
                        raise EngineError(f"native call {getattr(f, '__name__', f)} with symbolic argument: {e}")
                    raise PyRaise(e)
                raise EngineError(f"native call {getattr(f, '__name__', f)} failed: {type(e).__name__}: {e}")
        raise PyRaise(TypeError(f"{type(f).__name__} object is not callable"))

    def _plain_kwargs(self, kwargs, name):
        if "__symkw__" in kwargs:
            kwargs = dict(kwargs)
            sk = kwargs.pop("__symkw__")
            for k, (p, v) in sk.e.items():
                if p is True:
                    kwargs[k] = v
                elif p is not False:
                    if self.truth(p_sv(p), tag=f"kw {k} passed to {name}"):
                        kwargs[k] = v
        return kwargs

    def instantiate(self, cls, args, kwargs):
        new, owner = cls.lookup("__new__")
        obj = ObjVal(cls)
        init, owner = cls.lookup("__init__")
        if isinstance(init, FuncVal):
            self.call_function(init, [obj] + list(args), kwargs)
        else:
            _native_base_init(obj, args)
        return obj

    def bind(self, f: FuncVal, args, kwargs):
        """Python call binding; returns locals dict. kwargs may carry '__symkw__' (dict with symbolic presence)."""
        a = f.node.args
        params = [p.arg for p in a.posonlyargs + a.args]
        npos = len(params)
        local = {}
        kwargs = dict(kwargs)
        symkw = kwargs.pop("__symkw__", None)
        defaults = self.defaults(f)
        if len(args) > npos and a.vararg is None:
            raise PyRaise(TypeError(f"{f.name}() takes {npos} positional arguments but {len(args)} were given"))
        for k, p in enumerate(params):
            if k < len(args):
                local[p] = args[k]
        if a.vararg is not None:
            local[a.vararg.arg] = tuple(args[npos:])
        kwonly = [p.arg for p in a.kwonlyargs]
        extra = PDict()
        for k, v in kwargs.items():
            if k in params or k in kwonly:
                if k in local:
                    raise PyRaise(TypeError(f"{f.name}() got multiple values for argument '{k}'"))
                local[k] = v
            elif a.kwarg is not None:
                extra.set(k, v)
            else:
                raise PyRaise(TypeError(f"{f.name}() got an unexpected keyword argument '{k}'"))
        if symkw is not None:
            for k, (p, v) in symkw.e.items():
                if p is False:
                    continue
                if k in params or k in kwonly:
                    if k in local:
                        # passing it both ways is a TypeError exactly when the key is present
                        if self.truth(p_sv(p), tag=f"duplicate kw {k}"):
                            raise PyRaise(TypeError(f"{f.name}() got multiple values for argument '{k}'"))
                        continue
                    if p is True:
                        local[k] = v
                    elif k in defaults:
                        local[k] = self.merge_values(p_sv(p), v, defaults[k])
                    else:
                        if not self.truth(p_sv(p), tag=f"required kw {k}"):
                            raise PyRaise(TypeError(f"{f.name}() missing required argument '{k}'"))
                        local[k] = v
                elif a.kwarg is not None:
                    extra.set(k, v, p)
                else:
                    if self.truth(p_sv(p), tag=f"unexpected kw {k}"):
                        raise PyRaise(TypeError(f"{f.name}() got an unexpected keyword argument '{k}'"))
        for p in params + kwonly:
            if p not in local:
                if p in defaults:
                    local[p] = defaults[p]
                else:
                    raise PyRaise(TypeError(f"{f.name}() missing required argument '{p}'"))
        if a.kwarg is not None:
            local[a.kwarg.arg] = extra
        return local

    def defaults(self, f: FuncVal):
        if f.defaults_cache is None:
            a = f.node.args
            env = Env({}, f.modenv, f.closure)
            d = {}
            pos = a.posonlyargs + a.args
            for p, dv in zip(pos[len(pos) - len(a.defaults):], a.defaults):
                d[p.arg] = self.ev(dv, env)
            for p, dv in zip(a.kwonlyargs, a.kw_defaults):
                if dv is not None:
                    d[p.arg] = self.ev(dv, env)
            f.defaults_cache = d
        return f.defaults_cache

    def call_function(self, f: FuncVal, args, kwargs):
        key = f.key
        if key in self.summaries:
            self.ctx.summarised[key] = self.ctx.summarised.get(key, 0) + 1
            summ = self.summaries[key]
            if self.ctx.merge_mode and not getattr(summ, "_pure", False):
                raise CannotMerge()
            if getattr(summ, "_binds", False):
                local = self.bind(f, args, kwargs)
                return summ(self, **local)
            if getattr(summ, "_symkw", False):
                return summ(self, *args, **kwargs)
            return summ(self, *args, **self._plain_kwargs(kwargs, key))
        if self.on_call is not None:
            self.on_call(self, f, args, kwargs)
        self.ctx.called[key] = self.ctx.called.get(key, 0) + 1
        local = self.bind(f, args, kwargs)
        env = Env(local, f.modenv, f.closure, func=f)
        self.call_depth += 1
        if self.call_depth > 60:
            raise EngineError("call depth exceeded")
        try:
            if isinstance(f.node, ast.Lambda):
                return self.ev(f.node.body, env)
            if any(isinstance(n, (ast.Yield, ast.YieldFrom)) for n in ast.walk(f.node)):
                raise EngineError(f"generator function {f.key} is outside the subset")
            try:
                self.ex_block(f.node.body, env)
            except EngineError:
                # frame-tracking mode: a callee outside the subset is acceptable when the syntactic frame analysis shows
                # that it cannot store into anything reachable from its arguments (its result is then an unknown value)
                fb = getattr(self, "frame_fallback", None)
                if fb is not None and not isinstance(f.node, ast.Lambda) and self.call_depth > 1 and fb(self, f):
                    return Opaque(f"{f.key}()")
                raise
            except _Return as r:
                return r.value
            r = env.local.get("__returned__", False)
            if r is False:
                return None
            if r is True:
                return env.local.get("__ret__")
            # returned under a symbolic condition, fell off the end otherwise (returns None)
            try:
                return self.merge_values(r, env.local.get("__ret__"), None)
            except CannotMerge:
                if self.truth(r, tag="early return taken"):
                    return env.local.get("__ret__")
                return None
        finally:
            self.call_depth -= 1

    # -- comprehensions ---------------------------------------------------------------------------
    def _comp(self, generators, env, emit, guard=True, allow_guard=False):
        if not generators:
            emit(env, guard)
            return
        g = generators[0]
        it = self.ev(g.iter, env)
        items = self.iterate_guarded(it) if allow_guard else [(x, True) for x in self.iterate(it)]
        for item, pres in items:
            cenv = Env(dict(env.local) if False else env.local, env.modenv, env.parent, env.func)
            self.assign(g.target, item, env)
            gd = p_and(guard, pres)
            ok = True
            for cond in g.ifs:
                c = self.ev(cond, env)
                cs = self.truth_sv(c)
                if isinstance(cs, bool):
                    if not cs:
                        ok = False
                        break
                elif allow_guard:
                    gd = p_and(gd, _p(truth_z(cs)))
                    if gd is False:
                        ok = False
                        break
                else:
                    if not self.truth(cs):
                        ok = False
                        break
            if ok:
                self._comp(generators[1:], env, emit, gd, allow_guard)

    def _comp_env(self, env):
        # comprehension scope: own locals layered over the enclosing env
        return Env({}, env.modenv, env, env.func)

    def ev_ListComp(self, node, env):
        out = []
        cenv = self._comp_env(env)
        first = self.ev(node.generators[0].iter, env)
        if isinstance(first, Opaque) or getattr(first, "opaque_like", False):
            return Opaque(f"comprehension over {getattr(first, 'why', '?')}")
        if hasattr(first, "generic_row"):
            # comprehension over a column: the same scalar expression for the generic row (A-GENERIC)
            g = node.generators[0]
            if len(node.generators) != 1 or g.ifs:
                raise EngineError("comprehension over a column with filters / nesting")
            space, mask, e = first.generic_row()
            self.assign(g.target, e, cenv)
            self.ctx.merge_mode += 1
            self.ctx.merge_guards.append(z3.BoolVal(True) if mask is True else mask)
            try:
                try:
                    val = self.ev(node.elt, cenv)
                except CannotMerge:
                    raise EngineError("comprehension over a column: element expression is not a pure scalar expression")
            finally:
                self.ctx.merge_mode -= 1
                self.ctx.merge_guards.pop()
            return first.make_like(val)
        if self.ctx.merge_mode:
            try:
                self._comp(node.generators, cenv, lambda e, g: out.append(self.ev(node.elt, e)))
            except CannotMerge:
                # a filter condition is not concrete: the comprehension has no side effects in merged execution,
                # its value is left unspecified
                return Opaque(f"comprehension@{node.lineno}")
            return out
        self._comp(node.generators, cenv, lambda e, g: out.append(self.ev(node.elt, e)))
        return out

    def ev_GeneratorExp(self, node, env):
        return self.ev_ListComp(node, env)

    def _opaque_comp(self, node, env):
        if getattr(self, "opaque_loops", False):
            first = self.ev(node.generators[0].iter, env)
            if isinstance(first, (Opaque, SV)) or getattr(first, "opaque_like", False):
                return Opaque(f"comprehension@{node.lineno}")
        return None

    def ev_SetComp(self, node, env):
        oc = self._opaque_comp(node, env)
        if oc is not None:
            return oc
        out = PSet()
        cenv = self._comp_env(env)
        self._comp(node.generators, cenv, lambda e, g: out.add(self.ev(node.elt, e), g), allow_guard=True)
        return out if not out.is_concrete() else out.to_set()

    def ev_DictComp(self, node, env):
        oc = self._opaque_comp(node, env)
        if oc is not None:
            return oc
        out = PDict()
        cenv = self._comp_env(env)

        def emit(e, g):
            if g is True:
                k = self.ev(node.key, e)
                v = self.ev(node.value, e)
            else:
                # the element is evaluated under the (symbolic) filter condition of the comprehension
                gz = g if not isinstance(g, bool) else z3.BoolVal(g)
                self.ctx.merge_mode += 1
                self.ctx.merge_guards.append(gz)
                try:
                    try:
                        k = self.ev(node.key, e)
                        v = self.ev(node.value, e)
                    except CannotMerge:
                        raise EngineError("dict comprehension: element under a symbolic filter is not a pure expression")
                finally:
                    self.ctx.merge_mode -= 1
                    self.ctx.merge_guards.pop()
            out.set(k, v, g)
        self._comp(node.generators, cenv, emit, allow_guard=True)
        return out

    def ev_NamedExpr(self, node, env):
        v = self.ev(node.value, env)
        self.assign(node.target, v, env)
        return v

    def ev_Starred(self, node, env):
        raise EngineError("starred expression outside call/collection")

    # -- iteration --------------------------------------------------------------------------------
    def iterate(self, it):
        """concrete iteration; symbolic presence is decided (forks)"""
        if isinstance(it, PDict):
            out = []
            for k, (p, v) in list(it.e.items()):
                if p is True or (p is not False and self.truth(p_sv(p), tag=f"iter key {k!r}")):
                    out.append(k)
            return out
        if isinstance(it, PSet):
            out = []
            for k, p in list(it.e.items()):
                if p is True or (p is not False and self.truth(p_sv(p), tag=f"iter member {k!r}")):
                    out.append(k)
            return out
        if isinstance(it, GuardedSeq):
            out = []
            for x, p in it.items:
                if p is True or (p is not False and self.truth(p_sv(p))):
                    out.append(x)
            return out
        if hasattr(it, "sym_iter"):
            return it.sym_iter(self)
        if isinstance(it, ObjVal):
            f = self.class_attr(it, "__iter__")
            if f is not None:
                return self.iterate(self.call(f, [], {}))
        if isinstance(it, (SV, CV, Opaque)):
            raise EngineError(f"iteration over symbolic value {it!r}")
        try:
            return list(it)
        except TypeError as e:
            raise PyRaise(e)

    def iterate_guarded(self, it):
        if hasattr(it, "guarded"):
            return [(x, p) for x, p in it.guarded() if p is not False]
        if isinstance(it, PDict):
            return [(k, p) for k, (p, v) in it.e.items() if p is not False]
        if isinstance(it, PSet):
            return [(k, p) for k, p in it.e.items() if p is not False]
        if isinstance(it, GuardedSeq):
            return [(x, p) for x, p in it.items if p is not False]
        return [(x, True) for x in self.iterate(it)]

    # -- statements -------------------------------------------------------------------------------
    def ex_block(self, stmts, env):
        for k, st in enumerate(stmts):
            self.ex(st, env)
            r = env.local.get("__returned__", False)
            if r is False:
                continue
            if r is True:
                if env.merging:
                    raise _BranchReturned()
                raise _Return(env.local.get("__ret__"))
            rz = z3.simplify(truth_z(r))
            if z3.is_false(rz):
                env.local["__returned__"] = False
                continue
            if z3.is_true(rz):
                env.local["__returned__"] = True
                if env.merging:
                    raise _BranchReturned()
                raise _Return(env.local.get("__ret__"))
            rest = stmts[k + 1:]
            if not rest:
                return
            # the function has returned under condition r: the rest of the block runs under (not r)
            if self._mergeable(rest) and self._merged_if(SV(z3.Not(rz)), rest, [], env):
                return
            if self.ctx.decide(rz, tag="early return taken"):
                env.local["__returned__"] = True
                if env.merging:
                    raise _BranchReturned()
                raise _Return(env.local.get("__ret__"))
            env.local["__returned__"] = False

    def ex(self, node, env):
        self.ctx.steps += 1
        if self.ctx.steps > self.max_steps:
            raise EngineError("step limit exceeded")
        m = getattr(self, "ex_" + type(node).__name__, None)
        if m is None:
            raise EngineError(f"statement {type(node).__name__} not supported (line {node.lineno})")
        try:
            return m(node, env)
        except EngineError as e:
            if not getattr(e, "_located", False):
                e._located = True
                e.args = (f"{e.args[0] if e.args else ''} [at {env.modenv.modname if env.modenv else '?'}:{node.lineno}]",)
            raise

    def ex_Expr(self, node, env):
        if isinstance(node.value, ast.Constant):
            return
        self.ev(node.value, env)

    def ex_Pass(self, node, env):
        pass

    def ex_Import(self, node, env):
        for a in node.names:
            if a.asname:
                env.local[a.asname] = self.import_module(a.name)
            else:
                env.local[a.name.split(".")[0]] = self.import_module(a.name.split(".")[0])

    def ex_ImportFrom(self, node, env):
        mod = node.module or ""
        if node.level:
            me = env.modenv
            base = me.modname.split(".")
            if not me.src.path.endswith("__init__.py"):
                base = base[:-1]
            base = base[:len(base) - (node.level - 1)]
            mod = ".".join(base + ([mod] if mod else []))
        for a in node.names:
            env.local[a.asname or a.name] = self.import_from(mod, a.name)

    def ex_Global(self, node, env):
        env.globals_decl.update(node.names)

    def ex_Nonlocal(self, node, env):
        raise EngineError("nonlocal")

    def ex_Assert(self, node, env):
        c = self.ev(node.test, env)
        if not self.truth(c, tag="assert"):
            raise PyRaise(AssertionError())

    def ex_Delete(self, node, env):
        for t in node.targets:
            if isinstance(t, ast.Name):
                env.local.pop(t.id, None)
            elif isinstance(t, ast.Subscript):
                if self.ctx.merge_mode:
                    raise CannotMerge()
                obj = self.ev(t.value, env)
                key = self.ev_slice(t.slice, env)
                if isinstance(obj, PDict):
                    p = obj.presence(key)
                    if p is False or not self.truth(p_sv(p)):
                        raise PyRaise(KeyError(key))
                    obj.delete(key)
                elif hasattr(obj, "sym_delitem"):
                    obj.sym_delitem(self, key)
                else:
                    try:
                        del obj[key]
                    except (KeyError, IndexError) as e:
                        raise PyRaise(e)
            elif isinstance(t, ast.Attribute):
                if self.ctx.merge_mode:
                    raise CannotMerge()
                obj = self.ev(t.value, env)
                if isinstance(obj, ObjVal):
                    obj.attrs.pop(t.attr, None)
                else:
                    raise EngineError("del attribute")
            else:
                raise EngineError("del target")

    def ex_Assign(self, node, env):
        v = self.ev(node.value, env)
        for t in node.targets:
            self.assign(t, v, env)

    def ex_AnnAssign(self, node, env):
        if node.value is not None:
            self.assign(node.target, self.ev(node.value, env), env)

    def ex_AugAssign(self, node, env):
        op = _BINOPS[type(node.op)]
        t = node.target
        if isinstance(t, ast.Name):
            cur = env.lookup(t.id, self)
            if hasattr(cur, "sym_iop"):
                if self.ctx.merge_mode:
                    raise CannotMerge()
                r = cur.sym_iop(self, op, self.ev(node.value, env))
                if r is not NotImplemented:
                    env.local[t.id] = r
                    return
                cur = env.lookup(t.id, self)
            if isinstance(cur, list) and op == "+":
                if self.ctx.merge_mode:
                    raise CannotMerge()
                cur.extend(self.iterate(self.ev(node.value, env)))
                return
            val = self.binop(op, cur, self.ev(node.value, env))
            self.assign(t, val, env)
        elif isinstance(t, ast.Subscript):
            obj = self.ev(t.value, env)
            key = self.ev_slice(t.slice, env)
            cur = self.getitem(obj, key)
            rhs = self.ev(node.value, env)
            if hasattr(cur, "sym_iop") and getattr(cur, "is_view", False):
                r = cur.sym_iop(self, op, rhs)
                if r is not NotImplemented:
                    return
            self.setitem(obj, key, self.binop(op, cur, rhs))
        elif isinstance(t, ast.Attribute):
            obj = self.ev(t.value, env)
            cur = self.getattr(obj, t.attr)
            self.setattr(obj, t.attr, self.binop(op, cur, self.ev(node.value, env)))
        else:
            raise EngineError("augassign target")

    def assign(self, t, v, env):
        if isinstance(t, ast.Name):
            if t.id in env.globals_decl:
                env.modenv.vals[t.id] = v
            else:
                env.local[t.id] = v
        elif isinstance(t, (ast.Tuple, ast.List)) and isinstance(v, Opaque):
            for k, e in enumerate(t.elts):
                self.assign(e.value if isinstance(e, ast.Starred) else e, Opaque(f"{v.why}[{k}]"), env)
        elif isinstance(t, (ast.Tuple, ast.List)):
            vals = self.iterate(v) if not isinstance(v, (tuple, list)) else list(v)
            star = [k for k, e in enumerate(t.elts) if isinstance(e, ast.Starred)]
            if star:
                k = star[0]
                n_after = len(t.elts) - k - 1
                if len(vals) < len(t.elts) - 1:
                    raise PyRaise(ValueError("not enough values to unpack"))
                for e, x in zip(t.elts[:k], vals[:k]):
                    self.assign(e, x, env)
                self.assign(t.elts[k].value, list(vals[k:len(vals) - n_after]), env)
                for e, x in zip(t.elts[k + 1:], vals[len(vals) - n_after:]):
                    self.assign(e, x, env)
            else:
                if len(vals) != len(t.elts):
                    raise PyRaise(ValueError(f"cannot unpack {len(vals)} values into {len(t.elts)} targets"))
                for e, x in zip(t.elts, vals):
                    self.assign(e, x, env)
        elif isinstance(t, ast.Subscript):
            obj = self.ev(t.value, env)
            key = self.ev_slice(t.slice, env)
            self.setitem(obj, key, v)
        elif isinstance(t, ast.Attribute):
            obj = self.ev(t.value, env)
            self.setattr(obj, t.attr, v)
        elif isinstance(t, ast.Starred):
            self.assign(t.value, v, env)
        else:
            raise EngineError(f"assignment target {type(t).__name__}")

    def ex_Return(self, node, env):
        v = self.ev(node.value, env) if node.value is not None else None
        if env.merging:
            # if-conversion of an early return inside a speculatively executed branch
            env.local["__ret__"] = v
            env.local["__returned__"] = True
            raise _BranchReturned()
        raise _Return(v)

    def ex_Raise(self, node, env):
        if self.ctx.merge_mode:
            if len(self.ctx.merge_guards) != self.ctx.merge_mode:
                raise CannotMerge()
            # the raise happens iff all guards of the speculative branches hold
            if self.ctx.decide(z3.And(*self.ctx.merge_guards), tag=f"raise@{node.lineno} reached", force=True):
                raise CannotMerge()
            raise _DeadBranch()
        if node.exc is None:
            cur = env.lookup("__current_exception__", self) if self._has(env, "__current_exception__") else None
            if cur is None:
                raise PyRaise(RuntimeError("No active exception to reraise"))
            raise cur
        e = self.ev(node.exc, env)
        if isinstance(e, ClassVal) or (isinstance(e, type) and issubclass(e, BaseException)):
            e = self.call(e, [], {})
        raise PyRaise(e, where=(env.modenv.modname if env.modenv else None, node.lineno))

    def _has(self, env, name):
        e = env
        while e is not None:
            if name in e.local:
                return True
            e = e.parent
        return False

    def ex_Break(self, node, env):
        if env.merging:
            raise CannotMerge()
        raise _Break()

    def ex_Continue(self, node, env):
        if env.merging:
            raise CannotMerge()
        raise _Continue()

    def ex_FunctionDef(self, node, env):
        env.local[node.name] = FuncVal(node, env.modenv, closure=env, qualname=f"{env.func.qualname if env.func else ''}.<locals>.{node.name}")

    def ex_ClassDef(self, node, env):
        env.local[node.name] = self.make_class(node, env.modenv, env)

    def ex_With(self, node, env):
        # context managers of the subset: np.errstate / warnings.catch_warnings (no-ops)
        for item in node.items:
            v = self.ev(item.context_expr, env)
            if item.optional_vars is not None:
                self.assign(item.optional_vars, v, env)
        self.ex_block(node.body, env)

    def _mergeable(self, stmts):
        for st in stmts:
            if isinstance(st, (ast.Pass,)):
                continue
            if isinstance(st, ast.Expr) and isinstance(st.value, ast.Constant):
                continue
            if isinstance(st, ast.Expr) and isinstance(st.value, ast.Call):
                continue   # purity of the callee is checked dynamically in merged execution
            if isinstance(st, ast.Assign) and all(isinstance(t, ast.Name) or
                                                  (isinstance(t, ast.Tuple) and all(isinstance(e, ast.Name) for e in t.elts))
                                                  for t in st.targets):
                continue
            if isinstance(st, ast.AugAssign) and isinstance(st.target, ast.Name):
                continue
            if isinstance(st, (ast.Assign, ast.AugAssign)):
                continue   # stores into objects: allowed only when the target turns out to be an unknown object (checked dynamically)
            if isinstance(st, ast.If) and self._mergeable(st.body) and self._mergeable(st.orelse):
                continue
            if isinstance(st, (ast.Raise, ast.Return)):
                continue
            return False
        return True

    def ex_If(self, node, env):
        rk = self.rank_stmts.get(id(node))
        if rk is not None:
            loop, name, f, pz, fired, space = rk
            c = self.ev(node.test, env)
            cur = env.local.get(name)
            if not (isinstance(cur, SV) and z3.eq(cur.z, f(space.i))) or not z3.eq(z3.simplify(truth_z(c)), pz) or fired[0]:
                raise EngineError(f"rank counter {name}: loop does not follow the counter idiom")
            if self.ctx.merge_mode:
                raise CannotMerge()
            fired[0] = True
            env.local[name] = SV(z3.If(pz, f(space.i) + 1, f(space.i)))
            return
        c = self.ev(node.test, env)
        cs = self.truth_sv(c)
        if isinstance(cs, bool):
            self.ex_block(node.body if cs else node.orelse, env)
            return
        if z3.is_true(z3.simplify(cs.z)):
            self.ex_block(node.body, env)
            return
        if z3.is_false(z3.simplify(cs.z)):
            self.ex_block(node.orelse, env)
            return
        if self._mergeable(node.body) and self._mergeable(node.orelse):
            if self._merged_if(cs, node.body, node.orelse, env):
                return
        if self.ctx.decide(cs.z, tag=f"if@{node.lineno}"):
            self.ex_block(node.body, env)
        else:
            self.ex_block(node.orelse, env)

    def _merged_if(self, cs, body, orelse, env):
        """execute both branches speculatively (no side effects allowed) and join the local environments with
        if-then-else terms. Early `return`s inside the branches are if-converted (__returned__/__ret__).
        Returns False when the branches cannot be merged (the caller then forks)."""
        saved = dict(env.local)
        self.ctx.merge_mode += 1
        env.merging += 1
        undo_mark = len(self.ctx.undo)
        side_mark = len(self.ctx.side)
        try:
            try:
                lt = lf = None
                env.local = dict(saved)
                self.ctx.merge_guards.append(cs.z)
                try:
                    self.ex_block(body, env)
                    lt = env.local
                except _BranchReturned:
                    lt = env.local
                except _DeadBranch:
                    pass
                finally:
                    self.ctx.merge_guards.pop()
                env.local = dict(saved)
                self.ctx.merge_guards.append(z3.Not(cs.z))
                try:
                    self.ex_block(orelse, env)
                    lf = env.local
                except _BranchReturned:
                    lf = env.local
                except _DeadBranch:
                    pass
                finally:
                    self.ctx.merge_guards.pop()
                if lt is None and lf is None:
                    raise _DeadBranch()
                if lt is None or lf is None:
                    env.local = saved
                    env.local.update(lt if lf is None else lf)
                    return True
                merged = {}
                for k in set(lt) | set(lf):
                    if k == "__ret__":
                        if k in lt and k in lf:
                            merged[k] = lt[k] if lt[k] is lf[k] else self.merge_values(cs, lt[k], lf[k])
                        else:
                            merged[k] = lt[k] if k in lt else lf[k]   # only read under __returned__
                    elif k == "__returned__":
                        merged[k] = self.merge_values(cs, lt.get(k, False), lf.get(k, False))
                    elif k in lt and k in lf:
                        try:
                            merged[k] = self.merge_values(cs, lt[k], lf[k])
                        except CannotMerge:
                            # not expressible as one value: decided lazily if (and only if) the variable is read again
                            merged[k] = LazyPhi(cs, lt[k], lf[k])
                    elif k in lt:
                        merged[k] = MaybeUndef(cs, lt[k])
                    else:
                        merged[k] = MaybeUndef(snot(cs), lf[k])
                env.local = saved
                env.local.update(merged)
                return True
            except (CannotMerge, PyRaise, NeedFork):
                if os.environ.get("PYVC_DEBUG_MERGE"):
                    import traceback
                    print("---- merge abandoned for if at", getattr(body[0], "lineno", "?") if body else "?")
                    traceback.print_exc(limit=-6)
                env.local = saved
                del self.ctx.side[side_mark:]      # the branches are executed again (forked): their obligations are emitted then
                while len(self.ctx.undo) > undo_mark:
                    d, k, old = self.ctx.undo.pop()
                    if old is None:
                        d.e.pop(k, None)
                    else:
                        d.e[k] = old
                return False
            except _DeadBranch:
                env.local = saved
                raise
        finally:
            self.ctx.merge_mode -= 1
            env.merging -= 1

    def ex_For(self, node, env):
        it = self.ev(node.iter, env)
        if hasattr(it, "generic_row") and getattr(self, "generic_loops", False):
            # loop over the rows of a table/array: the body is executed once for the generic row (A-GENERIC):
            # sound for bodies whose effect for row r depends only on row r (checked by the store model:
            # every store goes through an index derived from the row itself)
            if node.orelse:
                raise EngineError("for/else over rows")
            space, mask, e = it.generic_row()
            if mask is not True and not z3.is_true(z3.simplify(mask)):
                # rows outside the mask are not visited: the generic row is either inside (body executed) or outside
                if not self.ctx.decide(mask, tag=f"generic row inside the loop range @{node.lineno}"):
                    return
            self.assign(node.target, e, env)
            self.ctx.ghost.setdefault("generic_loops", []).append(node.lineno)
            counters = self._rank_counters(node, env, space)
            try:
                self.ex_block(node.body, env)
            except _Continue:
                if counters:
                    raise EngineError("continue in a loop over rows with rank counters")
                # the generic iteration ends here; the other iterations are the other instances of the generic row
            except _Break:
                raise EngineError("break in a loop over rows")
            finally:
                for st in list(self.rank_stmts):
                    if self.rank_stmts[st][0] is node:
                        del self.rank_stmts[st]
            for name, (f, pz, fired) in counters.items():
                if not fired[0]:
                    raise EngineError(f"rank counter {name}: increment statement not reached in the generic iteration")
                from .arrays import _key
                env.local[name] = SV(z3.Int(f"count[{space.name},{_key(pz)}]"))
            return
        if (isinstance(it, (Opaque, SV)) or getattr(it, "opaque_like", False)) and getattr(self, "opaque_loops", False):
            if not isinstance(it, Opaque):
                it = Opaque(f"iterable {getattr(it, 'why', '')}")
            # loop over an unknown iterable (frame-tracking mode): the body is executed once with unknown loop
            # variables -- every store the body can make is recorded (stores do not depend on the iteration count)
            self._assign_opaque(node.target, Opaque(f"element of {it.why}"), env)
            try:
                self.ex_block(node.body, env)
            except (_Break, _Continue):
                pass
            self._settle_partial_return(env)
            self.ex_block(node.orelse, env)
            return
        items = self.iterate(it)
        broke = False
        for x in items:
            self.assign(node.target, x, env)
            try:
                self.ex_block(node.body, env)
            except _Break:
                broke = True
                break
            except _Continue:
                continue
            self._settle_partial_return(env)
        if not broke:
            self.ex_block(node.orelse, env)

    rank_stmts = {}

    def _rank_counters(self, node, env, space):
        """counters of the form  `c = 0; for i in range(len(m)): ...; if m[i]: c += 1`  : inside the generic iteration c is
        rank_m(i), the number of earlier positions satisfying m (the position of row i in an array compressed by m)"""
        from .tabletheory import rank_fn
        out = {}
        if self.rank_stmts is Interp.rank_stmts:
            self.rank_stmts = {}
        for st in node.body:
            if isinstance(st, ast.If) and not st.orelse and len(st.body) == 1 and isinstance(st.body[0], ast.AugAssign) \
                    and isinstance(st.body[0].op, ast.Add) and isinstance(st.body[0].target, ast.Name) \
                    and isinstance(st.body[0].value, ast.Constant) and st.body[0].value.value == 1:
                name = st.body[0].target.id
                cur = env.local.get(name)
                if not (isinstance(cur, int) and not isinstance(cur, bool) and cur == 0):
                    continue
                # the counter must not be assigned anywhere else in the loop
                def _binds(t):
                    if isinstance(t, ast.Name):
                        return t.id == name
                    if isinstance(t, (ast.Tuple, ast.List)):
                        return any(_binds(e) for e in t.elts)
                    if isinstance(t, ast.Starred):
                        return _binds(t.value)
                    return False
                others = [n for n in ast.walk(node) if (isinstance(n, (ast.AugAssign, ast.AnnAssign)) and n is not st.body[0] and _binds(n.target))
                          or (isinstance(n, ast.Assign) and any(_binds(t) for t in n.targets))
                          or (isinstance(n, (ast.For, ast.comprehension)) and _binds(n.target))
                          or (isinstance(n, ast.NamedExpr) and _binds(n.target))]
                if others:
                    continue
                self.ctx.merge_mode += 1
                try:
                    c = self.ev(st.test, env)
                finally:
                    self.ctx.merge_mode -= 1
                pz = z3.simplify(truth_z(c))
                f = rank_fn(self, space, pz)
                env.local[name] = SV(f(space.i))
                fired = [False]
                out[name] = (f, pz, fired)
                self.rank_stmts[id(st)] = (node, name, f, pz, fired, space)
        return out

    def _assign_opaque(self, target, val, env):
        if isinstance(target, (ast.Tuple, ast.List)):
            for e in target.elts:
                self._assign_opaque(e, Opaque(val.why), env)
        else:
            self.assign(target, val, env)

    def _settle_partial_return(self, env):
        r = env.local.get("__returned__", False)
        if r is False or r is True:
            return
        if self.truth(r, tag="early return taken (loop)"):
            env.local["__returned__"] = True
            if env.merging:
                raise _BranchReturned()
            raise _Return(env.local.get("__ret__"))
        env.local["__returned__"] = False

    def ex_While(self, node, env):
        n = 0
        limit = getattr(self, "while_unroll", 64)
        while True:
            c = self.ev(node.test, env)
            if not self.truth(c, tag=f"while@{node.lineno}"):
                self.ex_block(node.orelse, env)
                return
            n += 1
            if n > limit:
                raise EngineError(f"while loop at line {node.lineno} exceeded the unrolling limit (needs an invariant)")
            try:
                self.ex_block(node.body, env)
            except _Break:
                return
            except _Continue:
                continue

    def exc_matches(self, exc, typ):
        if isinstance(typ, tuple):
            return any(self.exc_matches(exc, t) for t in typ)
        if isinstance(typ, Opaque):
            return False
        if isinstance(exc, ObjVal):
            if isinstance(typ, ClassVal):
                return typ in exc.cls.mro()
            if isinstance(typ, type):
                return any((not isinstance(c, ClassVal)) and isinstance(c, type) and issubclass(c, typ) for c in exc.cls.mro())
            return False
        if isinstance(typ, type):
            return isinstance(exc, typ)
        return False

    def ex_Try(self, node, env):
        try:
            try:
                self.ex_block(node.body, env)
            except PyRaise as pr:
                handled = False
                for h in node.handlers:
                    typ = self.ev(h.type, env) if h.type is not None else BaseException
                    if h.type is None or self.exc_matches(pr.exc, typ):
                        handled = True
                        if h.name:
                            env.local[h.name] = pr.exc
                        saved = env.local.get("__current_exception__")
                        env.local["__current_exception__"] = pr
                        try:
                            self.ex_block(h.body, env)
                        finally:
                            if saved is None:
                                env.local.pop("__current_exception__", None)
                            else:
                                env.local["__current_exception__"] = saved
                        break
                if not handled:
                    raise
            else:
                self.ex_block(node.orelse, env)
        finally:
            # a `finally` block of the interpreted program runs on every exit of this path
            # (engine errors excepted: they abort the whole run)
            import sys
            et = sys.exc_info()[0]
            if et is None or issubclass(et, (PyRaise, _Return, _Break, _Continue)):
                if node.finalbody:
                    self.ex_block(node.finalbody, env)


class NeedFork(Exception):
    pass


class _BranchReturned(Exception):
    """a speculatively executed branch ended with `return` (recorded in __returned__/__ret__)"""


class _DeadBranch(Exception):
    """the merged branch being executed cannot be live on this path (its raise was decided not to happen)"""


class LazyPhi(Imm):
    """a local whose value after a merged `if` cannot be written as one term: the branch is decided when it is read"""

    def __init__(self, cond, a, b):
        self.cond, self.a, self.b = cond, a, b


class MaybeUndef(Imm):
    """a local that is bound only under a condition (assigned in one branch of a merged if)"""

    def __init__(self, cond, value):
        self.cond = cond
        self.value = value


class GuardedSeq:
    """sequence whose elements carry presence conditions (used for comprehension sources)"""

    def __init__(self, items):
        self.items = list(items)


class ModuleVal(Imm):
    def __init__(self, interp, modname):
        self.interp = interp
        self.modname = modname

    def get(self, name):
        me = self.interp.modenv(self.modname)
        if me.has(name):
            return me.get(name)
        sub = f"{self.modname}.{name}"
        if source.module_path(sub) is not None:
            return ModuleVal(self.interp, sub)
        return self.interp.import_from(self.modname, name)

    def __repr__(self):
        return f"<module {self.modname}>"


def _why(a):
    if isinstance(a, Opaque):
        return a.why
    if isinstance(a, (str, int, float, bool, type(None))):
        return repr(a)
    if isinstance(a, SV):
        return str(a.z)[:60]
    return type(a).__name__


def _native_base_init(obj, args):
    if isinstance(obj, ObjVal):
        obj.attrs.setdefault("args", tuple(args))
    return None


def _is_log_call(call):
    f = call.func
    return isinstance(f, ast.Attribute) and isinstance(f.value, ast.Name) and f.value.id in ("logger", "logging", "warnings", "std_logger")


def _z(p):
    return z3.BoolVal(p) if isinstance(p, bool) else p
