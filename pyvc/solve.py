"""Back ends: z3 (Python API), cvc5 (CLI, SMT-LIB2), polynomial normaliser (sympy) for field identities."""
from __future__ import annotations

import os
import subprocess
import tempfile
import time

import z3

PROVED, REFUTED, UNKNOWN = "proved", "refuted", "unknown"


class Result:
    def __init__(self, status, backend, seconds, model=None, reason=""):
        self.status = status
        self.backend = backend
        self.seconds = seconds
        self.model = model          # dict name -> python value / string
        self.reason = reason

    def __repr__(self):
        return f"<{self.status} by {self.backend} in {self.seconds:.3f}s {self.reason}>"


def _model_to_dict(m, watch):
    out = {}
    for d in m.decls():
        if d.arity() == 0:
            out[d.name()] = _val(m[d])
    for name, term in (watch or {}).items():
        try:
            out["@" + name] = _val(m.eval(term, model_completion=True))
        except Exception as e:  # pragma: no cover
            out["@" + name] = f"<eval failed {e}>"
    return out


def _val(v):
    try:
        if z3.is_int_value(v):
            return v.as_long()
        if z3.is_rational_value(v):
            n, d = v.numerator_as_long(), v.denominator_as_long()
            return n if d == 1 else n / d
        if z3.is_algebraic_value(v):
            return float(v.approx(20).as_decimal(20).rstrip("?"))
        if z3.is_true(v):
            return True
        if z3.is_false(v):
            return False
    except Exception:
        pass
    return str(v)


def z3_check(hyps, goal, timeout_ms, watch=None):
    """valid(hyps => goal)?"""
    t0 = time.time()
    s = z3.Solver()
    s.set("timeout", int(timeout_ms))
    for h in hyps:
        s.add(h)
    s.add(z3.Not(goal))
    r = s.check()
    dt = time.time() - t0
    if r == z3.unsat:
        return Result(PROVED, "z3", dt)
    if r == z3.sat:
        return Result(REFUTED, "z3", dt, model=_model_to_dict(s.model(), watch))
    # second strategy: nlsat tactic for pure nonlinear real problems
    return Result(UNKNOWN, "z3", dt, reason=s.reason_unknown())


def z3_sat(hyps, cond, timeout_ms, watch=None):
    """satisfiable(hyps and cond)? used for cover queries"""
    t0 = time.time()
    s = z3.Solver()
    s.set("timeout", int(timeout_ms))
    for h in hyps:
        s.add(h)
    s.add(cond)
    r = s.check()
    dt = time.time() - t0
    if r == z3.sat:
        return Result(PROVED, "z3", dt, model=_model_to_dict(s.model(), watch))
    if r == z3.unsat:
        return Result(REFUTED, "z3", dt)
    return Result(UNKNOWN, "z3", dt, reason=s.reason_unknown())


def to_smt2(hyps, goal, logic=None):
    s = z3.Solver()
    for h in hyps:
        s.add(h)
    s.add(z3.Not(goal))
    txt = s.to_smt2()
    if logic:
        txt = f"(set-logic {logic})\n" + txt
    return txt


CVC5 = "/usr/bin/cvc5"


def cvc5_check(hyps, goal, timeout_s):
    t0 = time.time()
    if not os.path.exists(CVC5):
        return Result(UNKNOWN, "cvc5", 0.0, reason="cvc5 not installed")
    txt = to_smt2(hyps, goal, logic="ALL")
    with tempfile.NamedTemporaryFile("w", suffix=".smt2", delete=False, dir=_scratch()) as f:
        f.write(txt)
        path = f.name
    try:
        p = subprocess.run([CVC5, "--lang=smt2", f"--tlimit={int(timeout_s * 1000)}", "--nl-ext-tplanes", path],
                           capture_output=True, text=True, timeout=timeout_s + 5)
        out = p.stdout.strip().splitlines()
        first = out[0] if out else ""
    except subprocess.TimeoutExpired:
        first = "timeout"
    finally:
        os.unlink(path)
    dt = time.time() - t0
    if first == "unsat":
        return Result(PROVED, "cvc5", dt)
    if first == "sat":
        return Result(REFUTED, "cvc5", dt, model=None, reason="cvc5 sat (no model extracted)")
    return Result(UNKNOWN, "cvc5", dt, reason=first[:80])


def _scratch():
    d = os.path.join(os.path.dirname(os.path.dirname(os.path.abspath(__file__))), ".scratch")
    os.makedirs(d, exist_ok=True)
    return d


# ------------------------------------------------------------------------------------------------
# polynomial normaliser: decides hyps => lhs == rhs for rational-function identities
# ------------------------------------------------------------------------------------------------
def _to_sympy(z, syms, atoms):
    import sympy as sp
    k = z.decl().kind()
    ch = z.children()
    if z3.is_rational_value(z) or z3.is_int_value(z):
        if z3.is_int_value(z):
            return sp.Integer(z.as_long())
        return sp.Rational(z.numerator_as_long(), z.denominator_as_long())
    if k == z3.Z3_OP_ADD:
        return sp.Add(*[_to_sympy(c, syms, atoms) for c in ch])
    if k == z3.Z3_OP_MUL:
        return sp.Mul(*[_to_sympy(c, syms, atoms) for c in ch])
    if k == z3.Z3_OP_SUB:
        r = _to_sympy(ch[0], syms, atoms)
        for c in ch[1:]:
            r = r - _to_sympy(c, syms, atoms)
        return r
    if k == z3.Z3_OP_UMINUS:
        return -_to_sympy(ch[0], syms, atoms)
    if k == z3.Z3_OP_DIV:
        return _to_sympy(ch[0], syms, atoms) / _to_sympy(ch[1], syms, atoms)
    if k == z3.Z3_OP_TO_REAL:
        return _to_sympy(ch[0], syms, atoms)
    if k == z3.Z3_OP_POWER:
        return _to_sympy(ch[0], syms, atoms) ** _to_sympy(ch[1], syms, atoms)
    # anything else (constants, uninterpreted applications, ite, ...) is an atom
    key = z.get_id()
    if key not in syms:
        # congruence: applications of the same uninterpreted function to ring-equal arguments are the same atom
        ckey = None
        if z3.is_app(z) and z.decl().kind() == z3.Z3_OP_UNINTERPRETED and ch and all(z3.is_real(c) or z3.is_int(c) for c in ch):
            try:
                ckey = (z.decl().name(),) + tuple(str(sp.expand(sp.together(_to_sympy(c, syms, atoms)))) for c in ch)
            except Exception:
                ckey = None
        if ckey is not None and ckey in syms:
            syms[key] = syms[ckey]
            return syms[key]
        name = f"a{len(atoms)}"
        syms[key] = sp.Symbol(name, real=True)
        atoms[name] = z
        if ckey is not None:
            syms[ckey] = syms[key]
            atoms.setdefault("__canon__", {})[name] = ckey
    return syms[key]


def ring_check(hyps, goal, timeout_s=20):
    """goal must be an equality (or conjunction of equalities) between real terms.
    Uses: sqrt atoms  s = sqrt(t)  ->  s^2 = t ; sin/cos pairs -> s^2 + c^2 = 1 ; equational hypotheses v == term
    (v an atom) as substitutions. Returns PROVED or UNKNOWN (never REFUTED)."""
    import sympy as sp
    t0 = time.time()
    goals = []

    def collect(g):
        if z3.is_and(g):
            for c in g.children():
                collect(c)
        elif z3.is_eq(g) and (z3.is_real(g.children()[0]) or z3.is_int(g.children()[0])):
            goals.append(g)
        else:
            raise ValueError("not an equality")
    try:
        collect(goal)
    except ValueError:
        return Result(UNKNOWN, "ring", time.time() - t0, reason="goal is not a conjunction of equalities")
    syms, atoms = {}, {}
    relations = []
    try:
        for g in goals:
            l, r = g.children()
            e = sp.together(_to_sympy(l, syms, atoms) - _to_sympy(r, syms, atoms))
            num, den = sp.fraction(e)
            # relations for sqrt / trig atoms present
            rel = []
            names = dict(atoms)
            changed = True
            while changed:
                changed = False
                for name, a in list(names.items()):
                    if name == "__canon__":
                        continue
                    if z3.is_app(a) and a.decl().name() == "u_sqrt" and ("sq", name) not in relations:
                        relations.append(("sq", name))
                        arg = _to_sympy(a.children()[0], syms, atoms)
                        rel.append((syms[a.get_id()] ** 2, arg))
                        if len(atoms) != len(names):
                            names = dict(atoms)
                            changed = True
            num = sp.expand(num)
            # reduce powers of sqrt atoms
            for s2, arg in rel:
                s = list(s2.free_symbols)[0]
                argn, argd = sp.fraction(sp.together(arg))
                # multiply through: s^2 = argn/argd
                num = sp.expand(num)
                p = sp.Poly(num, s)
                red = 0
                for (k,), c in p.terms():
                    red += c * (arg ** (k // 2)) * (s ** (k % 2))
                num2, _ = sp.fraction(sp.together(red))
                num = sp.expand(num2)
            # trig: replace cos^2 -> 1 - sin^2
            canon = atoms.get("__canon__", {})
            for name, a in list(atoms.items()):
                if name == "__canon__":
                    continue
                if z3.is_app(a) and a.decl().name() == "u_cos":
                    c = syms[a.get_id()]
                    s_sym = None
                    for n2, a2 in atoms.items():
                        if n2 != "__canon__" and z3.is_app(a2) and a2.decl().name() == "u_sin" and canon.get(n2, (0, n2))[1:] == canon.get(name, (1, name))[1:]:
                            s_sym = syms[a2.get_id()]
                    if s_sym is not None:
                        p = sp.Poly(sp.expand(num), c)
                        red = 0
                        for (k,), co in p.terms():
                            red += co * ((1 - s_sym ** 2) ** (k // 2)) * (c ** (k % 2))
                        num = sp.expand(red)
            if sp.simplify(num) != 0:
                return Result(UNKNOWN, "ring", time.time() - t0, reason=f"residual {str(num)[:120]}")
    except Exception as e:
        return Result(UNKNOWN, "ring", time.time() - t0, reason=f"normaliser: {type(e).__name__}: {e}")
    return Result(PROVED, "ring", time.time() - t0, reason="numerator vanishes identically (denominators: side obligations)")
