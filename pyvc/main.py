"""Driver:  ./check <property id> [--tier quick|thorough] [--replay <path>]

Exit codes: 0 held (possibly with KNOWN-FINDING lines) | 1 VIOLATION (replayed, or no-failing-input-found)
            2 undecided (unknown / timeout / counter-model does not replay) | 3 checker error
"""
from __future__ import annotations

import argparse
import hashlib
import importlib
import json
import os
import re
import subprocess
import sys
import time
import traceback

import z3

from . import solve, source
from .vc import VC, ROOT, Obligation

PY = os.path.join(ROOT, ".venv", "bin", "python")


def _safe(s):
    return re.sub(r"[^A-Za-z0-9_.-]+", "_", s)[:150]


def load_known():
    path = os.path.join(ROOT, "known_findings.json")
    if not os.path.exists(path):
        return []
    with open(path) as f:
        return json.load(f).get("findings", [])


# scratch runs (seed sweeps against a copy of the repository) write their evidence and replays elsewhere
EVIDENCE_DIR = os.environ.get("PYVC_EVIDENCE_DIR") or os.path.join(ROOT, "evidence")
REPLAY_DIR = os.environ.get("PYVC_REPLAY_DIR") or os.path.join(ROOT, "replays")


def run_replay(script_path, timeout=600):
    """replay scripts exit 1 when the violation is reproduced on the real code, 0 when not, anything else = error"""
    env = dict(os.environ)
    env["PYTHONPATH"] = ROOT + os.pathsep + env.get("PYTHONPATH", "")
    try:
        p = subprocess.run([PY, script_path], capture_output=True, text=True, timeout=timeout, env=env, cwd=ROOT)
    except subprocess.TimeoutExpired:
        return "error", "replay timed out"
    out = (p.stdout + p.stderr)[-4000:]
    if p.returncode == 1 and "Traceback (most recent call last)" in p.stderr and "REPRODUCED" not in p.stdout:
        return "error", out        # the replay script itself crashed: never a reproduction
    if p.returncode == 1:
        return "reproduced", out
    if p.returncode == 0:
        return "not-reproduced", out
    return "error", out


def write_replay(prop, ob, spec, extra=None):
    d = os.path.join(REPLAY_DIR, prop)
    os.makedirs(d, exist_ok=True)
    base = os.path.join(d, _safe(ob.id if isinstance(ob, Obligation) else str(ob)))
    script = base + "_replay.py"
    with open(script, "w") as f:
        f.write(spec["script"])
    meta = {"property": prop, "obligation": ob.id if isinstance(ob, Obligation) else str(ob),
            "description": spec.get("description", ""), "script": os.path.relpath(script, ROOT)}
    if isinstance(ob, Obligation):
        meta["note"] = ob.note
        meta["functions"] = ob.functions
        if ob.result is not None:
            meta["solver"] = {"status": ob.result.status, "backend": ob.result.backend, "reason": ob.result.reason,
                              "model": {k: (v if isinstance(v, (int, float, bool, str)) else str(v))
                                        for k, v in list((ob.result.model or {}).items())[:80]}}
    if extra:
        meta.update(extra)
    with open(base + ".json", "w") as f:
        json.dump(meta, f, indent=1, default=str)
    return script, base + ".json"


def main(argv=None):
    ap = argparse.ArgumentParser()
    ap.add_argument("prop")
    ap.add_argument("--tier", default=os.environ.get("VERIF_TIER", "quick"), choices=["quick", "thorough"])
    ap.add_argument("--replay", default=None)
    ap.add_argument("--verbose", "-v", action="store_true")
    args = ap.parse_args(argv)
    seed = int(os.environ.get("VERIF_SEED", "0") or 0)
    prop = args.prop

    if args.replay:
        path = args.replay
        if path.endswith(".json"):
            with open(path) as f:
                path = os.path.join(ROOT, json.load(f)["script"])
        status, out = run_replay(path)
        print(out)
        print(f"replay: {status}")
        return 1 if status == "reproduced" else (0 if status == "not-reproduced" else 3)

    t0 = time.time()
    try:
        mod = importlib.import_module(f"contracts.{prop}")
    except ModuleNotFoundError:
        print(f"no contract module for {prop}")
        return 3
    vc = VC(prop, tier=args.tier, seed=seed)
    code = 3
    report = {"violations": [], "known": [], "undecided": [], "errors": []}
    try:
        mod.run(vc)
        if args.tier == "thorough" and hasattr(mod, "thorough"):
            mod.thorough(vc)
        vc.discharge()
        code = triage(vc, mod, report, args)
        code = run_native_standins(vc, prop, report, code)
        if args.tier == "thorough":
            code = thorough_extras(vc, prop, report, code)
        if any("replay=" in v and "no-failing-input-found" not in v for v in report["violations"]):
            # a violation that was reproduced natively on the real code stands, whatever else could not be analysed
            # (e.g. another harness stopped at syntax outside the engine's fragment)
            code = 1
    except source.SourceError as e:
        report["errors"].append(f"SourceError: {e}")
        code = 3
    except Exception as e:  # checker crash: never a violation
        traceback.print_exc()
        report["errors"].append(f"{type(e).__name__}: {e}")
        code = 3
    wall = time.time() - t0
    try:
        write_evidence(vc, mod if "mod" in dir() else None, report, args, seed, wall, code)
    except Exception as e:
        traceback.print_exc()
        print(f"evidence writing failed: {e}")
        code = max(code, 3)
    for line in report["errors"]:
        print("CHECKER-ERROR:", line)
    for line in report["undecided"]:
        print("UNDECIDED:", line)
    for line in report["known"]:
        print(line)
    for line in report["violations"]:
        print(line)
    st = vc.by_status() if vc.obligations and all(o.result for o in vc.obligations) else {}
    print(f"{prop}: exit {code}; obligations {len(vc.obligations)} "
          f"proved {len(st.get('proved', []))} refuted {len(st.get('refuted', []))} unknown {len(st.get('unknown', []))} "
          f"covers {len(st.get('cover_ok', []))}/{len(st.get('cover_ok', [])) + len(st.get('cover_fail', [])) + len(st.get('cover_unknown', []))} "
          f"in {wall:.1f}s")
    return code


def triage(vc, mod, report, args):
    prop = vc.prop
    st = vc.by_status()
    code = 0
    if vc.errors:
        report["errors"].extend(vc.errors)
        code = 3
    n_real = len([o for o in vc.obligations if o.kind != "cover"])
    min_ob = getattr(mod, "MIN_OBLIGATIONS", 1)
    if n_real < min_ob:
        report["errors"].append(f"only {n_real} obligations generated, contract pins at least {min_ob} (vacuity guard)")
        code = 3
    for ob in st["cover_fail"]:
        report["errors"].append(f"cover query unsatisfiable (vacuous precondition / unreachable path): {ob.id}")
        code = 3
    # reachability (vacuity guard): every harness needs at least one path whose preconditions and path condition are shown
    # satisfiable; a satisfiability query that times out on a further path of the same harness is recorded, not fatal
    ok_harness = {ob.id.split("/cover:")[0] for ob in st["cover_ok"]}
    for ob in st["cover_unknown"]:
        if ob.id.split("/cover:")[0] in ok_harness:
            report.setdefault("notes", []).append(f"cover query undecided: {ob.id} ({ob.result.reason})")
        else:
            report["undecided"].append(f"cover query undecided: {ob.id} ({ob.result.reason})")
            code = max(code, 2)
    for ob in st["unknown"]:
        report["undecided"].append(f"{ob.id}: {ob.result.reason}")
        code = max(code, 2)

    refuted = st["refuted"]
    if not refuted:
        return code
    known = [k for k in load_known() if k.get("property") == prop and k.get("status", "open") == "open"]
    known_ids = {k["finding"] for k in known}
    exclusions = getattr(mod, "KNOWN_EXCLUSIONS", {})
    # 1. for every refuted obligation: does it still fail outside the inputs of the listed known findings?
    new = []          # (ob) failing beyond known findings
    only_known = {}   # finding id -> [obs]
    for ob in refuted:
        applicable = []
        for fid in known_ids:
            builder = exclusions.get(fid)
            if builder is None:
                continue
            ex = builder(ob)
            if ex is not None:
                applicable.append((fid, ex))
        if not applicable:
            new.append(ob)
            continue
        whole = [fid for fid, ex in applicable if ex is True]
        if whole:
            # the obligation is identified as a whole (call site / path) by a listed finding
            ob.known_whole = whole[0]
            only_known.setdefault(whole[0], []).append(ob)
            continue
        hyps2 = list(ob.hyps) + [z3.Not(ex) for _, ex in applicable]
        r = solve.z3_check(hyps2, ob.goal, vc.z3_timeout_ms, ob.watch)
        if r.status == solve.PROVED:
            # which finding does the original model belong to: attribute to all applicable
            ob.discharged_under_exclusion = [fid for fid, _ in applicable]
            ob.exclusion_result = r
            for fid, _ in applicable:
                only_known.setdefault(fid, []).append(ob)
        elif r.status == solve.REFUTED:
            ob.result_beyond_known = r
            ob.result = r            # a model outside the known findings
            new.append(ob)
        else:
            report["undecided"].append(f"{ob.id}: fails; whether it fails beyond the known findings is undecided ({r.reason})")
            code = max(code, 2)
            for fid, _ in applicable:
                only_known.setdefault(fid, []).append(ob)
    # 2. known findings: must still reproduce natively, then reported as KNOWN-FINDING
    for fid, obs in only_known.items():
        entry = [k for k in known if k["finding"] == fid][0]
        spec = mod.replay(obs[0], obs[0].result.model or {}, finding=fid) if hasattr(mod, "replay") else None
        status, out = ("no-replay", "")
        if spec is not None:
            script, meta = write_replay(prop, f"known_{fid}", spec, {"finding": fid})
            status, out = run_replay(script)
        if status == "reproduced":
            report["known"].append(f"KNOWN-FINDING: property={prop} {fid}: {entry.get('what', '')} "
                                   f"[{len(obs)} obligations fail only on these inputs; replay reproduces]")
        else:
            report["undecided"].append(f"known finding {fid}: {len(obs)} obligations fail on its inputs but the native replay says '{status}'")
            code = max(code, 2)
    # 3. new failures: group, replay, report
    groups = {}
    for ob in new:
        g = mod.classify(ob, ob.result.model or {}) if hasattr(mod, "classify") else ob.meta.get("label", ob.id)
        groups.setdefault(g, []).append(ob)
    for g, obs in groups.items():
        reproduced = None
        last = None
        tried = 0
        for ob in obs[:4]:
            spec = mod.replay(ob, ob.result.model or {}, finding=None) if hasattr(mod, "replay") else None
            if spec is None:
                continue
            tried += 1
            script, meta = write_replay(prop, ob, spec)
            status, out = run_replay(script)
            last = (ob, script, meta, status, out)
            if status == "reproduced":
                reproduced = last
                break
        if reproduced:
            ob, script, meta, status, out = reproduced
            report["violations"].append(f"VIOLATION property={prop} replay={os.path.relpath(meta, ROOT)} obligation={ob.id} "
                                        f"({len(obs)} failing obligations in group '{g}')")
            code = 1 if code in (0, 1) else code
            if code == 2:
                code = 1
        elif tried == 0:
            # no counterexample builder: the obligation is reported with the solver's output
            ob = obs[0]
            spec = {"script": "# no failing input found: the verifier refuted the obligation but no replay builder exists\n"
                              f"# obligation: {ob.id}\n# note: {ob.note}\nimport sys\nprint('no-failing-input-found')\nsys.exit(2)\n",
                    "description": "failed obligation without replay"}
            script, meta = write_replay(prop, ob, spec, {"smt2": ob.smt2()[:20000]})
            report["violations"].append(f"VIOLATION property={prop} replay={os.path.relpath(meta, ROOT)} obligation={ob.id} no-failing-input-found")
            code = 1
        else:
            ob, script, meta, status, out = last
            if getattr(mod, "REPORT_UNREPLAYED", False):
                report["violations"].append(f"VIOLATION property={prop} replay={os.path.relpath(meta, ROOT)} obligation={ob.id} no-failing-input-found")
                code = 1
            else:
                report["undecided"].append(f"{ob.id}: refuted by the solver but the native replay says '{status}' "
                                           f"(engine / contract to be examined) -- {out.strip().splitlines()[-1] if out.strip() else ''}")
                code = max(code, 2)
    return code


def run_native_standins(vc, prop, report, code):
    """bounded stand-ins that run the real code natively on a stated, finite set of inputs (never counted as proved)"""
    for k, chk in enumerate(getattr(vc, "native_standins", [])):
        d = os.path.join(REPLAY_DIR, prop)
        os.makedirs(d, exist_ok=True)
        script = os.path.join(d, f"{prop}_bounded_standin_{k}_replay.py")
        with open(script, "w") as f:
            f.write(f"# bounded stand-in of {prop}: {chk['name']}\n# bound: {chk['bound']}\nimport sys\nsys.path.insert(0, {ROOT!r})\n" + chk["script"])
        status, out = run_replay(script, timeout=chk.get("timeout", 900))
        chk["status"] = status
        chk["output_tail"] = out.strip().splitlines()[-5:]
        if status == "reproduced" and chk.get("known"):
            # failures of the stand-in that are listed (open) known findings: every REPRODUCED line must match the pattern of a listed finding
            import re
            listed = {k["finding"]: k for k in load_known() if k.get("property") == prop and k.get("status", "open") == "open"}
            lines = [ln for ln in out.splitlines() if ln.startswith("REPRODUCED")]
            hit, other = {}, []
            for ln in lines:
                fids = [fid for fid, pat in chk["known"].items() if fid in listed and re.search(pat, ln)]
                if fids:
                    hit.setdefault(fids[0], []).append(ln)
                else:
                    other.append(ln)
            if lines and not other:
                for fid, lns in hit.items():
                    report["known"].append(f"KNOWN-FINDING: property={prop} {fid}: {listed[fid].get('what', '')} "
                                           f"[bounded stand-in '{chk['name']}' reproduces it: {len(lns)} lines]")
                chk["status"] = "known-findings-only"
                continue
        if status == "reproduced":
            meta = script.replace("_replay.py", ".json")
            with open(meta, "w") as f:
                json.dump({"property": prop, "obligation": f"{prop}/bounded-standin/{chk['name']}", "script": os.path.relpath(script, ROOT),
                           "description": chk["bound"], "output": out[-4000:]}, f, indent=1)
            report["violations"].append(f"VIOLATION property={prop} replay={os.path.relpath(meta, ROOT)} obligation={prop}/bounded-standin/{chk['name']}")
            code = 1 if code in (0, 1, 2) else code
        elif status != "not-reproduced":
            report["errors"].append(f"bounded stand-in {chk['name']}: {status}: {out.strip().splitlines()[-1] if out.strip() else ''}")
            code = max(code, 3) if code != 1 else code
    return code


def thorough_extras(vc, prop, report, code):
    """thorough tier: (1) second-solver re-check and vacuity probe of the proved obligations, (2) sensitivity: the seeded change of this
    property (seeded/<id>/patch.diff) applied to a scratch copy of the repository must make the quick check report a violation"""
    summ = vc.thorough_recheck()
    for oid in summ["cvc5_disagrees"]:
        report["undecided"].append(f"{oid}: proved by z3 / normaliser but refuted by cvc5 (back ends disagree)")
        code = max(code, 2) if code != 1 else code
    for oid in summ["hypotheses_contradictory"]:
        report["errors"].append(f"{oid}: hypotheses are contradictory (vacuous proof)")
        code = 3 if code != 1 else code
    sweep = os.path.join(ROOT, "tools", "seed_sweep.sh")
    seeds = sorted(d for d in os.listdir(os.path.join(ROOT, "seeded")) if d.rstrip("abcdefghijklmnopqrstuvwxyz") == prop
                   and os.path.isfile(os.path.join(ROOT, "seeded", d, "patch.diff"))) if os.path.isdir(os.path.join(ROOT, "seeded")) else []
    def _neutralised(sd):
        # a seeded change that a later repair of the repository has made harmless (its own demo passes): kept for the record, not swept
        try:
            return bool(json.load(open(os.path.join(ROOT, "seeded", sd, "meta.json"))).get("neutralised_by"))
        except Exception:
            return False
    seeds = [sd for sd in seeds if not _neutralised(sd)]
    if seeds and os.path.isfile(sweep) and not os.environ.get("PYVC_NO_SEED_SWEEP"):
        env = dict(os.environ, PYVC_NO_SEED_SWEEP="1", VERIF_TIER="quick", SEED_SCRATCH=f"/tmp/pyvc_sens_{prop}_{os.getpid()}")
        out = []
        for sd in seeds:
            try:
                p = subprocess.run([sweep, sd], capture_output=True, text=True, timeout=3600, env=env, cwd=ROOT)
                line = (p.stdout.strip().splitlines() or [""])[-1]
                detected = f"{sd}: exit 1" in line
                out.append({"seed": f"seeded/{sd}/patch.diff", "detected": detected, "sweep_output": line[:300]})
                if not detected:
                    report.setdefault("notes", []).append(f"sensitivity: the seeded change {sd} is not detected ({line[:120]})")
            except subprocess.TimeoutExpired:
                out.append({"seed": f"seeded/{sd}/patch.diff", "detected": None, "sweep_output": "timeout"})
        vc.extra["seeded_change_sensitivity"] = out if len(out) > 1 else out[0]
    return code


def write_evidence(vc, mod, report, args, seed, wall, code):
    st = vc.by_status() if all(o.result for o in vc.obligations) else None
    known_whole = [o for o in vc.obligations if getattr(o, "known_whole", None) and any(
        line.startswith("KNOWN-FINDING") and o.known_whole in line for line in report["known"])]
    obl = [o for o in vc.obligations if o.kind not in ("cover", "bounded") and o not in known_whole]
    bounded = [o for o in vc.obligations if o.kind == "bounded"]
    proved = [o for o in obl if o.result and o.result.status == solve.PROVED]
    # obligations that fail only on the inputs of a listed known finding are discharged under the recorded exclusion
    # hypothesis (hyps and not known-finding-inputs => goal); they are counted, and listed separately
    excl = [o for o in obl if getattr(o, "discharged_under_exclusion", None) and any(
        line.startswith("KNOWN-FINDING") and any(f in line for f in o.discharged_under_exclusion) for line in report["known"])]
    backends = {}
    solver_s = 0.0
    for o in vc.obligations:
        if o.result:
            backends[o.result.backend] = backends.get(o.result.backend, 0) + 1
            solver_s += o.result.seconds
    samples = []
    seen = set()
    for o in obl:
        lab = o.meta.get("label", "")
        key = re.sub(r"\[.*?\]", "[]", lab)
        if key in seen or len(samples) >= 4:
            continue
        seen.add(key)
        try:
            txt = o.smt2()
        except Exception as e:
            txt = f"<{e}>"
        samples.append({"id": o.id, "kind": o.kind, "note": o.note, "status": o.result.status if o.result else None,
                        "smt2_head": txt[:1500]})
    level = getattr(mod, "LEVEL", "proof") if mod else "proof"
    cov = {
        "obligations": len(obl),
        "discharged": len(proved) + len(excl),
        "discharged_unconditionally": len(proved),
        "discharged_under_known_finding_exclusion": len(excl),
        "obligations_failing_as_listed_known_findings": {"count": len(known_whole), "ids": sorted({o.known_whole for o in known_whole}),
                                                         "note": "identified call sites / paths of recorded known findings; not part of obligations/discharged"},
        "refuted": len([o for o in obl if o.result and o.result.status == solve.REFUTED]) - len(excl),
        "unknown": len([o for o in obl if o.result and o.result.status == solve.UNKNOWN]),
        "cover_queries": len([o for o in vc.obligations if o.kind == "cover"]),
        "bounded_standin_obligations": {"generated": len(bounded), "passed": len([o for o in bounded if o.result and o.result.status == solve.PROVED]),
                                        "note": "bounded stand-ins: not counted in obligations/discharged"},
        "cover_satisfied": len(st["cover_ok"]) if st else 0,
        "cover_undecided": len(st["cover_unknown"]) if st else 0,
        "checker_cmd": f"./check {vc.prop} --tier {args.tier}",
        "backends": backends,
        "solver_seconds": round(solver_s, 3),
        "paths_explored": vc.paths,
        "functions_under_contract": list(vc.functions.values()),
        "functions_interpreted_inline": sorted(k for k in vc.inlined if k not in vc.functions),
        "callees_replaced_by_assumed_contract": sorted(vc.summarised),
        "opaque_operations_assumed_pure": sorted(vc.opaque_ops)[:60],
        "trusted_base": sorted(vc.trusted) + ["pyvc symbolic executor (DESIGN.md 2) and its Python semantics",
                                              "z3 4.x/5.x, cvc5, sympy"],
        "bounded_standins": vc.bounded + [{"function": c["name"], "bound": c["bound"], "status": c.get("status"), "kind": "native run of the real code"}
                                          for c in getattr(vc, "native_standins", [])],
        "extraction_drops": ["docstrings", "type annotations", "logger.* / warnings.warn calls (no-ops)",
                             "decorators @jit/@np.errstate"],
        "known_findings_reported": report["known"],
        "violations_reported": report["violations"],
        "undecided": report["undecided"][:40],
        "checker_errors": report["errors"][:40],
        "exit_code": code,
        "samples": samples or [{"note": "no obligations generated"}],
        "explanation": getattr(mod, "__doc__", "") if mod else "",
    }
    cov.update(vc.extra)
    if level != "proof" or len(obl) == 0:
        # generic keys for levels that need them
        cov.setdefault("evaluations", max(1, len(vc.obligations)))
        cov.setdefault("distinct_nontrivial", max(2, len({o.meta.get('label') for o in obl})))
        cov.setdefault("rule", "obligations generated from the current source; distinct = distinct obligation labels")
    ev = {"property_id": vc.prop, "tier": args.tier, "seed": seed, "level": level, "coverage": cov,
          "assumptions": sorted(vc.assumptions) + sorted(getattr(mod, "NOT_DECIDED", []) if mod else []),
          "wall_s": round(wall, 2), "violations": len(report["violations"])}
    os.makedirs(EVIDENCE_DIR, exist_ok=True)
    with open(os.path.join(EVIDENCE_DIR, f"{vc.prop}.json"), "w") as f:
        json.dump(ev, f, indent=1, default=str)


if __name__ == "__main__":
    sys.exit(main())
