"""The pandapowerNet object model: attribute access == item access (ADict)."""
from __future__ import annotations

from .values import Opaque, EngineError, SV
from .containers import PDict, p_sv
from .interp import Native, PyRaise, CannotMerge
from .pybuiltins import KeysView, ItemsView


class Net:
    """net[...] / net.<name>. Unknown fields read as Opaque (logged: A-PURE), unless strict."""

    def __init__(self, fields=None, strict=False, name="net"):
        self.fields = fields if isinstance(fields, PDict) else PDict(fields or {})
        self.strict = strict
        self.name = name
        self._opaque = {}

    def sym_getitem(self, it, key):
        if not isinstance(key, str):
            raise EngineError(f"net[{key!r}]")
        p = self.fields.presence(key)
        if p is True:
            return self.fields.raw(key)
        if p is not False:
            if it.truth(p_sv(p), tag=f"net has {key}"):
                return self.fields.raw(key)
            raise PyRaise(KeyError(key))
        if self.strict:
            raise EngineError(f"net field '{key}' is not modelled by this contract")
        if key not in self._opaque:
            self._opaque[key] = Opaque(f"{self.name}.{key}")
        it.ctx.log_opaque.append(f"read {self.name}.{key}")
        return self._opaque[key]

    def sym_setitem(self, it, key, val):
        self.fields.set(key, val)

    def sym_contains(self, it, key):
        p = self.fields.presence(key)
        if p is False and not self.strict and key not in ("user_pf_options",):
            # unknown field of a non-strict net: presence unknown
            return Opaque(f"'{key}' in {self.name}")
        return p_sv(p)

    def sym_isinstance(self, it, cls):
        nm = getattr(cls, "name", getattr(cls, "__name__", ""))
        return nm in ("pandapowerNet", "ADict", "dict", "object", "MutableMapping", "Mapping")

    def sym_deepcopy(self, it):
        import copy
        return copy.deepcopy(self)


def net_getattr(it, net, name):
    if name == "keys":
        return Native(lambda it: KeysView(net.fields), name="net.keys")
    if name == "items":
        return Native(lambda it: ItemsView(net.fields), name="net.items")
    if name == "get":
        def get(it, k, default=None):
            p = net.fields.presence(k)
            if p is True:
                return net.fields.raw(k)
            if p is False:
                return default
            return it.merge_values(p_sv(p), net.fields.raw(k), default)
        return Native(get, name="net.get")
    if name == "__contains__":
        return Native(lambda it, k: net.sym_contains(it, k), name="net.__contains__")
    if name.startswith("__"):
        raise PyRaise(AttributeError(name))
    return net.sym_getitem(it, name)


def net_setattr(it, net, name, val):
    net.fields.set(name, val)


def install(it):
    it.attr_hooks.append((Net, net_getattr))
    it.setattr_hooks = list(it.setattr_hooks) + [(Net, net_setattr)]


def _net_sym_copy(self, it):
    """copy.copy(net): a new mapping holding the same table objects"""
    n = Net(PDict(self.fields), strict=self.strict, name=self.name + "'")
    n._opaque = self._opaque
    return n


Net.sym_copy = _net_sym_copy
