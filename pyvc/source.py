"""Locating the real source: module files under /repo are parsed on every run; nothing is cached on disk."""
from __future__ import annotations

import ast
import hashlib
import os

REPO = os.environ.get("PYVC_REPO", "/repo")


class SourceError(Exception):
    """contract target missing / module not found (checker error, never a violation)"""


_module_cache = {}


class ModuleSrc:
    def __init__(self, modname, path, text):
        self.modname = modname
        self.path = path
        self.text = text
        self.tree = ast.parse(text, filename=path)
        self.lines = text.splitlines()
        self.defs = {}       # top-level name -> ast node (FunctionDef / ClassDef / Assign value / import)
        self.order = []
        for node in self.tree.body:
            self._index(node)

    def _index(self, node):
        if isinstance(node, (ast.FunctionDef, ast.ClassDef)):
            self.defs[node.name] = node
        elif isinstance(node, ast.Assign):
            for t in node.targets:
                if isinstance(t, ast.Name):
                    self.defs[t.id] = node
                elif isinstance(t, ast.Tuple):
                    for e in t.elts:
                        if isinstance(e, ast.Name):
                            self.defs[e.id] = node
        elif isinstance(node, ast.AnnAssign) and isinstance(node.target, ast.Name) and node.value is not None:
            self.defs[node.target.id] = node
        elif isinstance(node, ast.Import):
            for a in node.names:
                name = a.asname or a.name.split(".")[0]
                self.defs[name] = ("import", a.name, a.asname)
        elif isinstance(node, ast.ImportFrom):
            mod = node.module or ""
            if node.level:
                base = self.modname.split(".")
                # a package __init__ counts as the package itself
                if not self.path.endswith("__init__.py"):
                    base = base[:-1]
                base = base[:len(base) - (node.level - 1)]
                mod = ".".join(base + ([mod] if mod else []))
            for a in node.names:
                self.defs[a.asname or a.name] = ("from", mod, a.name)
        elif isinstance(node, (ast.Try, ast.If)):
            # e.g. try: import numba ... except ImportError: ...   /  if TYPE_CHECKING:
            for sub in node.body:
                self._index(sub)
            for h in getattr(node, "handlers", []):
                for sub in h.body:
                    if not isinstance(sub, (ast.Import, ast.ImportFrom)):
                        # fallbacks in except branches never override the try-branch definitions
                        if isinstance(sub, (ast.FunctionDef, ast.ClassDef, ast.Assign)):
                            names = [sub.name] if hasattr(sub, "name") else \
                                [t.id for t in sub.targets if isinstance(t, ast.Name)]
                            if all(n in self.defs for n in names):
                                continue
                        self._index(sub)
            for sub in getattr(node, "orelse", []):
                self._index(sub)


def module_path(modname):
    rel = modname.replace(".", "/")
    for cand in (os.path.join(REPO, rel + ".py"), os.path.join(REPO, rel, "__init__.py")):
        if os.path.isfile(cand):
            return cand
    return None


def load_module(modname) -> ModuleSrc:
    if modname in _module_cache:
        return _module_cache[modname]
    path = module_path(modname)
    if path is None:
        raise SourceError(f"module {modname} not found under {REPO}")
    with open(path, encoding="utf-8") as f:
        text = f.read()
    try:
        m = ModuleSrc(modname, path, text)
    except SyntaxError as e:
        raise SourceError(f"module {modname} does not parse: {e}")
    _module_cache[modname] = m
    return m


def clear_cache():
    _module_cache.clear()


def find_def(modname, qualname):
    """AST node of module:qualname (qualname may be Class.method)."""
    m = load_module(modname)
    parts = qualname.split(".")
    node = m.defs.get(parts[0])
    if not isinstance(node, (ast.FunctionDef, ast.ClassDef)):
        raise SourceError(f"contract target missing: {modname}:{qualname}")
    for p in parts[1:]:
        found = None
        for sub in node.body:
            if isinstance(sub, (ast.FunctionDef, ast.ClassDef)) and sub.name == p:
                found = sub
        if found is None:
            raise SourceError(f"contract target missing: {modname}:{qualname}")
        node = found
    return m, node


def source_hash(modname, qualname):
    m, node = find_def(modname, qualname)
    seg = "\n".join(m.lines[node.lineno - 1:node.end_lineno])
    return {"function": f"{modname}:{qualname}", "file": os.path.relpath(m.path, REPO),
            "line": node.lineno, "end_line": node.end_lineno,
            "sha1": hashlib.sha1(seg.encode()).hexdigest()[:12]}
