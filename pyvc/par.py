"""Forked workers with a hard per-item deadline.

multiprocessing.Pool waits forever when a solver call inside a worker ignores its own timeout (observed: z3's nonlinear core in a
bignum loop) or when a worker dies. Here every worker is a forked process that receives one item at a time over a pipe; a worker that
has not answered within the deadline is killed and replaced, and the item gets the caller's `on_timeout(item, why)` result (an
*undecided* verdict -- never a violation)."""
from __future__ import annotations

import multiprocessing as mp
import multiprocessing.connection as mpc
import time


def _serve(fn, conn):
    while True:
        try:
            item = conn.recv()
        except EOFError:
            return
        if item is None:
            return
        try:
            conn.send(("ok", fn(item)))
        except BaseException as e:      # noqa: the parent decides what an exception of the worker means
            try:
                conn.send(("exc", f"{type(e).__name__}: {e}"))
            except Exception:
                return


class _Worker:
    def __init__(self, ctx, fn):
        self.conn, child = ctx.Pipe()
        self.proc = ctx.Process(target=_serve, args=(fn, child), daemon=True)
        self.proc.start()
        child.close()
        self.item = None
        self.t0 = 0.0

    def give(self, item):
        self.item, self.t0 = item, time.time()
        self.conn.send(item)

    def stop(self, kill=False):
        try:
            if kill:
                self.proc.kill()
            else:
                self.conn.send(None)
        except Exception:
            pass
        try:
            self.conn.close()
        except Exception:
            pass
        self.proc.join(2)
        if self.proc.is_alive():
            self.proc.kill()
            self.proc.join(2)


def forked_map(fn, items, jobs, deadline_s, on_timeout):
    """yields (item, result) in completion order; on_timeout(item, why) gives the result of an item whose worker was killed, died or
    raised"""
    ctx = mp.get_context("fork")
    items = list(items)
    nxt = 0
    workers = []
    done = 0
    try:
        for _ in range(min(jobs, len(items))):
            w = _Worker(ctx, fn)
            w.give(items[nxt]); nxt += 1
            workers.append(w)
        while done < len(items):
            busy = [w for w in workers if w.item is not None]
            ready = mpc.wait([w.conn for w in busy], timeout=1.0)
            now = time.time()
            for w in busy:
                replace = False
                if w.conn in ready:
                    try:
                        tag, val = w.conn.recv()
                        res = val if tag == "ok" else on_timeout(w.item, f"worker raised {val}")
                    except (EOFError, OSError):
                        res = on_timeout(w.item, "worker died")
                        replace = True
                elif deadline_s is not None and now - w.t0 > deadline_s:
                    res = on_timeout(w.item, f"no answer within the hard deadline of {deadline_s:.0f} s (the solver ignored its own "
                                             f"timeout); worker killed")
                    replace = True
                else:
                    continue
                item = w.item
                w.item = None
                done += 1
                if replace:
                    w.stop(kill=True)
                    workers.remove(w)
                    if nxt < len(items):
                        w = _Worker(ctx, fn)
                        workers.append(w)
                if nxt < len(items) and w in workers and w.item is None:
                    w.give(items[nxt]); nxt += 1
                yield item, res
    finally:
        for w in workers:
            w.stop(kill=w.item is not None)
