"""Obligation generation (path exploration of a contract harness) and discharge; evidence; verdicts."""
from __future__ import annotations

import json
import os
import time
import traceback

import z3

from . import source, solve, values
from .values import SV, EngineError, truth_z
from .interp import Interp, Ctx, PyRaise, PathInfeasible, FuncVal, ObjVal

ROOT = os.path.dirname(os.path.dirname(os.path.abspath(__file__)))


class Obligation:
    def __init__(self, oid, prop, kind, hyps, goal, functions, path, note="", watch=None, replay=None, meta=None):
        self.id = oid
        self.prop = prop
        self.kind = kind            # ensures / ensures_raise / frame / lemma / cover / mustfail
        self.hyps = hyps
        self.goal = goal
        self.functions = functions
        self.path = path
        self.note = note
        self.watch = watch or {}
        self.replay = replay        # callable(model) -> replay spec, or None
        self.meta = meta or {}
        self.result = None

    def smt2(self):
        return solve.to_smt2(self.hyps, self.goal)


class Outcome:
    """result of calling the function under contract on one path"""

    def __init__(self, kind, value=None, exc=None):
        self.kind = kind    # 'return' | 'raise'
        self.value = value
        self.exc = exc

    @property
    def raised(self):
        return self.kind == "raise"

    def exc_name(self):
        e = self.exc
        if isinstance(e, ObjVal):
            return e.cls.name
        return type(e).__name__

    def __repr__(self):
        return f"<Outcome {self.kind} {self.value if self.kind == 'return' else self.exc!r}>"


class Path:
    """handle given to a contract harness for one path"""

    def __init__(self, vc, name, ctx, interp, index):
        self.vc = vc
        self.name = name
        self.ctx = ctx
        self.it = interp
        self.index = index
        self.functions = []
        self.n_obl = 0

    # -- running the real code ---------------------------------------------------------------------
    def fn(self, key):
        f = self.it.function(key)
        if key not in self.functions:
            self.functions.append(key)
        self.vc.note_function(key)
        return f

    def call(self, key, *args, **kwargs):
        """interpret the real function `module:qualname`; returns an Outcome (normal or exceptional exit)"""
        f = self.fn(key) if isinstance(key, str) else key
        try:
            v = self.it.call(f, list(args), kwargs)
            return Outcome("return", value=v)
        except PyRaise as pr:
            return Outcome("raise", exc=pr.exc)

    def assume(self, cond):
        """contract precondition / harness hypothesis. A path on which the hypothesis contradicts what the code already decided is
        outside the contract: it is abandoned, so nothing is 'proved' from contradictory hypotheses."""
        self.ctx.assume(cond)
        self._assumed = True

    def _still_feasible(self):
        # checked once per batch of hypotheses, before the next obligation is emitted
        if getattr(self, "_assumed", False):
            self._assumed = False
            if not self.ctx.feasible(z3.BoolVal(True)):
                # recorded in the evidence: a path abandoned here is outside the contract's hypotheses (or the hypotheses are inconsistent)
                ab = self.vc.extra.setdefault("paths_abandoned_as_outside_the_hypotheses", {})
                ab[self.name] = ab.get(self.name, 0) + 1
                if os.environ.get("PYVC_DEBUG_ABANDON"):
                    sol = z3.Solver(); sol.set(unsat_core=True)
                    hs = self.ctx.hyps()
                    for k, h in enumerate(hs):
                        sol.assert_and_track(h, f"h{k}")
                    if sol.check() == z3.unsat:
                        print(f"ABANDONED {self.name}@p{self.index}:")
                        for c in sol.unsat_core():
                            print("    ", str(hs[int(str(c)[1:])])[:400].replace("\n", " "))
                raise PathInfeasible()

    def _z(self, cond):
        if isinstance(cond, bool):
            return z3.BoolVal(cond)
        if isinstance(cond, SV):
            return truth_z(cond)
        if isinstance(cond, z3.ExprRef):
            return cond
        raise EngineError(f"obligation goal is not a formula: {cond!r}")

    def prove(self, label, goal, kind="ensures", note="", watch=None, replay=None, meta=None):
        self._still_feasible()
        oid = f"{self.vc.prop}/{self.name}/{label}@p{self.index}"
        ob = Obligation(oid, self.vc.prop, kind, self.ctx.hyps(), self._z(goal), list(self.functions), self.index,
                        note=note, watch=watch, replay=replay, meta=dict(meta or {}, label=label, harness=self.name))
        self.vc.obligations.append(ob)
        self.n_obl += 1
        return ob

    def cover(self, label, cond=True, note=""):
        """reachability / non-vacuity: hyps and cond must be satisfiable"""
        self._still_feasible()
        oid = f"{self.vc.prop}/{self.name}/cover:{label}@p{self.index}"
        ob = Obligation(oid, self.vc.prop, "cover", self.ctx.hyps(), self._z(cond), list(self.functions), self.index,
                        note=note, meta=dict(label=label, harness=self.name))
        self.vc.obligations.append(ob)
        return ob


class VC:
    def __init__(self, prop, tier="quick", seed=0):
        self.prop = prop
        self.tier = tier
        self.seed = seed
        self.obligations = []
        self.functions = {}
        self.errors = []
        self.paths = {}
        self.trusted = set()
        self.assumptions = set()
        self.inlined = {}
        self.summarised = {}
        self.opaque_ops = set()
        self.bounded = []
        self.extra = {}
        self.z3_timeout_ms = 10000 if tier == "quick" else 60000
        self.cvc5_timeout_s = 10 if tier == "quick" else 60
        self.hard_deadline_s = None     # per obligation; default 3 * z3 timeout + cvc5 timeout + 900 s (normaliser)
        self.t0 = time.time()
        self.configure = None   # callable(interp) installing library summaries for this property

    def note_function(self, key):
        if key not in self.functions:
            m, q = key.split(":")
            self.functions[key] = source.source_hash(m, q)

    def trust(self, *items):
        self.trusted.update(items)

    def assume_std(self, *items):
        self.assumptions.update(items)

    # -- exploration --------------------------------------------------------------------------------
    def explore(self, name, harness, max_paths=400, expect_paths=None):
        """run `harness(path)` once per feasible path of the code it calls"""
        only = os.environ.get("PYVC_ONLY")
        if only and only not in name:
            return 0
        work = [[]]
        n = 0
        t0 = time.time()
        while work:
            decisions = work.pop()
            if n >= max_paths:
                self.errors.append(f"{name}: path limit {max_paths} exceeded")
                break
            values._counter = __import__("itertools").count()
            values.AX.reset()
            ctx = Ctx(decisions)
            it = Interp(ctx)
            if self.configure is not None:
                self.configure(it)
            p = Path(self, name, ctx, it, n)
            try:
                harness(p)
            except PathInfeasible:
                work.extend(ctx.alternatives)
                continue
            except (EngineError, source.SourceError) as e:
                self.errors.append(f"{name} path {n}: {type(e).__name__}: {e}")
                if os.environ.get("PYVC_DEBUG"):
                    traceback.print_exc()
                work.extend(ctx.alternatives)
                n += 1
                continue
            except PyRaise as pr:
                self.errors.append(f"{name} path {n}: uncaught exception of the interpreted program in the harness: {pr.exc!r}")
                work.extend(ctx.alternatives)
                n += 1
                continue
            work.extend(ctx.alternatives)
            for j, (label, hyps, goal, note) in enumerate(ctx.side):
                self.obligations.append(Obligation(f"{self.prop}/{name}/side:{label}#{j}@p{n}", self.prop, "side", hyps, goal,
                                                   list(p.functions), n, note=note, meta=dict(label=f"side:{label}", harness=name)))
            for k, c in ctx.called.items():
                self.inlined[k] = self.inlined.get(k, 0) + c
            for k, c in ctx.summarised.items():
                self.summarised[k] = self.summarised.get(k, 0) + c
            self.opaque_ops.update(ctx.log_opaque)
            n += 1
        self.paths[name] = {"paths": n, "seconds": round(time.time() - t0, 3)}
        return n

    # -- discharge ----------------------------------------------------------------------------------
    def discharge(self):
        todo = [k for k, ob in enumerate(self.obligations) if ob.result is None]
        jobs = int(os.environ.get("PYVC_JOBS", "12"))
        if jobs > 1 and len(todo) > 8:
            # obligations are independent queries: discharged by forked workers (each with its own solver state)
            from .par import forked_map
            global _DISCHARGE_SELF
            _DISCHARGE_SELF = self
            deadline = self.hard_deadline_s if self.hard_deadline_s is not None else \
                3 * self.z3_timeout_ms / 1000 + self.cvc5_timeout_s + 900
            try:
                for _, (k, r) in forked_map(_discharge_one, todo, jobs, deadline,
                                            lambda k, why: (k, solve.Result(solve.UNKNOWN, "none", 0.0, reason=why))):
                    self.obligations[k].result = r
            finally:
                _DISCHARGE_SELF = None

            return self.obligations
        for ob in self.obligations:
            if ob.result is not None:
                continue
            ob.result = self._discharge_ob(ob)
        return self.obligations

    def thorough_recheck(self, limit=600):
        """thorough tier: every (up to `limit`, evenly sampled) obligation proved by z3 / the normaliser is re-checked by cvc5 and its
        hypotheses are probed for satisfiability. Returns a summary; disagreements are returned as obligation ids."""
        cand = [k for k, ob in enumerate(self.obligations) if ob.kind != "cover" and ob.result is not None and ob.result.status == solve.PROVED
                and ob.result.backend != "cvc5"]
        step = max(1, len(cand) // limit)
        todo = cand[::step][:limit]
        res = []
        if todo:
            from .par import forked_map
            global _DISCHARGE_SELF
            _DISCHARGE_SELF = self
            try:
                res = [r for _, r in forked_map(_thorough_one, todo, int(os.environ.get("PYVC_JOBS", "12")), 90,
                                                lambda k, why: {"k": k, "cvc5": solve.UNKNOWN, "hyps": solve.UNKNOWN, "why": why})]
            finally:
                _DISCHARGE_SELF = None
        summary = {"candidates": len(cand), "rechecked": len(res),
                   "cvc5_agrees": sum(1 for r in res if r["cvc5"] == solve.PROVED), "cvc5_unknown": sum(1 for r in res if r["cvc5"] == solve.UNKNOWN),
                   "cvc5_disagrees": [self.obligations[r["k"]].id for r in res if r["cvc5"] == solve.REFUTED],
                   "hypotheses_satisfiable": sum(1 for r in res if r["hyps"] == solve.PROVED),
                   "hypotheses_undecided": sum(1 for r in res if r["hyps"] == solve.UNKNOWN),
                   "hypotheses_contradictory": [self.obligations[r["k"]].id for r in res if r["hyps"] == solve.REFUTED]}
        self.extra["thorough_recheck"] = summary
        return summary

    def _discharge_ob(self, ob):
        if True:
            if ob.kind == "cover":
                return solve.z3_sat(ob.hyps, ob.goal, self.z3_timeout_ms)
            if ob.kind == "lemma":
                # algebraic identities: the polynomial normaliser first (z3's nonlinear arithmetic needs its whole budget on them)
                r0 = solve.ring_check(ob.hyps, ob.goal)
                if r0.status == solve.PROVED:
                    return r0
            r = solve.z3_check(ob.hyps, ob.goal, self.z3_timeout_ms, ob.watch)
            if r.status == solve.UNKNOWN:
                r2 = solve.ring_check(ob.hyps, ob.goal)
                if r2.status == solve.PROVED:
                    r2.seconds += r.seconds
                    r = r2
                else:
                    r3 = solve.cvc5_check(ob.hyps, ob.goal, self.cvc5_timeout_s)
                    if r3.status != solve.UNKNOWN:
                        r3.seconds += r.seconds
                        r = r3
                    else:
                        r.reason = f"z3: {r.reason}; ring: {r2.reason}; cvc5: {r3.reason}"
            return r

    def by_status(self):
        out = {"proved": [], "refuted": [], "unknown": [], "cover_ok": [], "cover_fail": [], "cover_unknown": []}
        for ob in self.obligations:
            r = ob.result
            if ob.kind == "cover":
                key = {"proved": "cover_ok", "refuted": "cover_fail", "unknown": "cover_unknown"}[r.status]
            else:
                key = r.status
            out[key].append(ob)
        return out


_DISCHARGE_SELF = None


def _thorough_one(k):
    """second opinion + vacuity probe for one proved obligation (thorough tier)"""
    vc = _DISCHARGE_SELF
    ob = vc.obligations[k]
    out = {"k": k}
    r = solve.cvc5_check(ob.hyps, ob.goal, 20)
    out["cvc5"] = r.status
    v = solve.z3_sat(ob.hyps, z3_true(), 5000)
    out["hyps"] = v.status          # proved = satisfiable, refuted = contradictory hypotheses (vacuous proof)
    return out


def z3_true():
    import z3
    return z3.BoolVal(True)


def _discharge_one(k):
    vc = _DISCHARGE_SELF
    r = vc._discharge_ob(vc.obligations[k])
    return k, r


class _Consts:
    def __init__(self, d):
        self.__dict__.update(d)


_consts_cache = {}


def consts(modname):
    """constants of a pure-constant repository module (e.g. pandapower.pypower.idx_brch), by interpreting its source"""
    if modname in _consts_cache:
        return _consts_cache[modname]
    it = Interp(Ctx())
    me = it.modenv(modname)
    d = {}
    for name in me.src.defs:
        try:
            v = me.get(name)
        except Exception:
            continue
        if isinstance(v, (int, float, str, bool, tuple)):
            d[name] = v
    c = _Consts(d)
    _consts_cache[modname] = c
    return c
