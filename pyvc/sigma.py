"""Sigma abstraction: sums over rows as uninterpreted linear functionals (A-SUM, DESIGN 2.3)."""
from __future__ import annotations

import z3

from .values import SV, CV, XV, EngineError, to_z, R, I, coerce


def sigma(it, a):
    raise EngineError("sum over a generic array: Sigma abstraction not enabled for this contract")
