"""Sigma abstraction: sums over the rows of a (masked) generic array as linear combinations of uninterpreted row sums.

For an array a over row space S with mask m and element e(i), the element is normalised to a polynomial whose monomials are
    (row-independent factor) * (row-dependent factor)
and, by linearity of finite sums,
    sum_{i in S, m(i)} e(i)  =  sum_k  c_k * SUM[S, m, r_k]      with  SUM[S, m, 1] = count[S, m].
SUM[...] are uninterpreted real constants keyed by the canonical row-dependent factor: two sums are related only through linearity
(no other property of the rows is used), so anything proved holds for every finite population of rows.
Division by row-dependent terms, or row-dependent conditionals, are kept as opaque row factors (still sound, less precise).
"""
from __future__ import annotations

import hashlib

import z3

from .values import SV, CV, XV, EngineError, to_z, R, I, coerce


def _mentions(z, var):
    seen = set()
    stack = [z]
    while stack:
        t = stack.pop()
        if t.get_id() in seen:
            continue
        seen.add(t.get_id())
        if z3.eq(t, var):
            return True
        stack.extend(t.children())
    return False


def _split(z, var):
    """z (real/int term) as a list of (scalar_z, row_z) products: z == sum scalar*row; row_z is None for row-independent terms"""
    k = z.decl().kind() if z3.is_app(z) else None
    if not _mentions(z, var):
        return [(z, None)]
    if k == z3.Z3_OP_ADD:
        out = []
        for c in z.children():
            out += _split(c, var)
        return out
    if k == z3.Z3_OP_SUB:
        ch = z.children()
        out = _split(ch[0], var)
        for c in ch[1:]:
            out += [(-s, r) for s, r in _split(c, var)]
        return out
    if k == z3.Z3_OP_UMINUS:
        return [(-s, r) for s, r in _split(z.children()[0], var)]
    if k == z3.Z3_OP_TO_REAL:
        return [(z3.ToReal(s) if z3.is_int(s) else s, (z3.ToReal(r) if r is not None and z3.is_int(r) else r)) for s, r in _split(z.children()[0], var)]
    if k == z3.Z3_OP_MUL:
        acc = [(z3.RealVal(1), None)]
        for c in z.children():
            parts = _split(c, var)
            new = []
            for s1, r1 in acc:
                for s2, r2 in parts:
                    s = _mulz(s1, s2)
                    r = r2 if r1 is None else (r1 if r2 is None else _mulz(r1, r2))
                    new.append((s, r))
            acc = new
            if len(acc) > 64:
                raise EngineError("Sigma: product expands into too many monomials")
        return acc
    if k == z3.Z3_OP_DIV:
        num, den = z.children()
        if not _mentions(den, var):
            return [(_real(s) / _real(den), r) for s, r in _split(num, var)]
        return [(z3.RealVal(1), z)]
    return [(z3.RealVal(1), z)]


def _real(z):
    return z3.ToReal(z) if z3.is_int(z) else z


def _mulz(a, b):
    a, b = _real(a), _real(b)
    if z3.is_rational_value(a) and a.numerator_as_long() == a.denominator_as_long():
        return b
    if z3.is_rational_value(b) and b.numerator_as_long() == b.denominator_as_long():
        return a
    return a * b


def _canon(r):
    """canonical key of a row factor (commutative products sorted)"""
    r = z3.simplify(_real(r))
    if z3.is_app(r) and r.decl().kind() == z3.Z3_OP_MUL:
        return "*".join(sorted(c.sexpr() for c in r.children()))
    return r.sexpr()


def sum_const(space, mask_key, row, outer=()):
    key = hashlib.sha1((_canon(row)).encode()).hexdigest()[:10]
    if outer:
        # mask or row factor refer to the generic row of another space: the sum is a function of it
        return z3.Function(f"SUM[{space.name},{mask_key},{key}]", *([v.sort() for v in outer] + [z3.RealSort()]))(*outer)
    return z3.Real(f"SUM[{space.name},{mask_key},{key}]")


def _under_mask(z, mask):
    """rewrite conditionals of the row expression that the mask decides (rows outside the mask do not contribute to the sum)"""
    if mask is True:
        return z
    cache = {}
    s = z3.Solver()
    s.set("timeout", 1000)
    s.add(mask)

    def decided(c):
        s.push(); s.add(z3.Not(c)); r1 = s.check(); s.pop()
        if r1 == z3.unsat:
            return True
        s.push(); s.add(c); r2 = s.check(); s.pop()
        if r2 == z3.unsat:
            return False
        return None

    def rw(t):
        k = t.get_id()
        if k in cache:
            return cache[k]
        if z3.is_app(t) and t.decl().kind() == z3.Z3_OP_ITE:
            d = decided(t.arg(0))
            r = rw(t.arg(1)) if d is True else rw(t.arg(2)) if d is False else None
            if r is None:
                r = z3.If(t.arg(0), rw(t.arg(1)), rw(t.arg(2)))
        elif z3.is_app(t) and t.num_args() > 0 and not z3.is_quantifier(t):
            ch = [rw(c) for c in t.children()]
            r = t.decl()(*ch) if any(not z3.eq(a, b) for a, b in zip(ch, t.children())) else t
        else:
            r = t
        cache[k] = r
        return r
    return rw(z)


def sigma(it, a):
    """sum of a generic (masked) array"""
    from .arrays import Arr, Series, _key, _count, _zb
    if isinstance(a, Series):
        a = a.arr()
    if not isinstance(a, Arr):
        raise EngineError("Sigma of a non-array")
    e = a.e
    if isinstance(e, XV):
        raise EngineError("Sigma over values that may be NaN")
    if isinstance(e, CV):
        return CV(sigma(it, Arr(a.space, e.re, a.mask)), sigma(it, Arr(a.space, e.im, a.mask)))
    if isinstance(e, (int, float)) and not isinstance(e, bool):
        e = SV(z3.RealVal(e))
    var = a.space.i
    mask = a.mask if a.mask is True else z3.simplify(a.mask)
    z = z3.simplify(_under_mask(z3.simplify(_real(to_z(e))), mask))
    mkey = "T" if mask is True else _key(mask)
    cnt = z3.ToReal(a.space.n) if mask is True else z3.ToReal(_count(it, a.space, mask))
    total = z3.RealVal(0)
    for s, r in _split(z, var):
        if r is None:
            total = total + _real(s) * cnt
        else:
            from .arrays import outer_vars
            ov = outer_vars(a.space, mask if mask is not True else None, r)
            sc = sum_const(a.space, mkey, r, ov)
            empty = z3.Implies(cnt == 0, sc == 0)                    # the empty sum
            it.ctx.facts.append(z3.ForAll(ov, empty, patterns=[sc]) if ov else empty)
            total = total + _real(s) * sc
    it.ctx.ghost.setdefault("sigma", []).append((a.space.name, mkey))
    return SV(z3.simplify(total))
