"""Table theory: inner joins (DataFrame.merge), maps built from zipped columns (dict(zip(keys, values))), rank
counters (position inside a mask-compressed array) and loops over range(len(column)).

Join  J = L.merge(R[mask], on=keys): a new row space whose generic row j is a pair (left(j), right(j)) with
    valid(j):  0 <= left(j) < n_L, 0 <= right(j) < n_R, mask(right(j)), key_L(left(j)) == key_R(right(j))  (no NaN keys)
  completeness (instantiated by contracts): rows c, t satisfying the join condition have a row pair(c, t) in J.
  Row order and multiplicity are left unspecified (pandas: order of the left keys).

Map   m = dict(zip(K, V)) over a row space S: for a key k
    has_m(k)  =>  0 <= sel_m(k) < n_S, rowinv_S(sel_m(k)), K(sel_m(k)) == k
    m.get(k, d) = V(sel_m(k)) if has_m(k) else d
  sel_m(k) is *some* row with that key (python keeps the last one; which one is last is not specified here), so that a
  postcondition about m.get(k) has to hold for every row with key k. Completeness (K(j) == k => has_m(k)) is instantiated
  by contracts for the rows they name.
"""
from __future__ import annotations

import z3

from .values import SV, CV, XV, PV, Opaque, B, I, R, EngineError, to_z, is_sym, coerce
from .arrays import Arr, Series, Table, FilteredTable, Space, ZipArr, subst, scalar_ite, _mask_and, _key, truth_z, require_same_mask, is_scalar
from .interp import Native, PyRaise, CannotMerge

_n = [0]


def _fresh(prefix):
    _n[0] += 1
    return f"{prefix}{_n[0]}"


def reset():
    _n[0] = 0


def _zv(e):
    """numeric z3 term of a key component (NaN flag handled separately)"""
    if isinstance(e, XV):
        return to_z(e.v)
    if isinstance(e, (int, float)) and not isinstance(e, bool):
        return z3.RealVal(e) if isinstance(e, float) else z3.IntVal(e)
    return to_z(e)


def _notnan(e):
    if isinstance(e, XV):
        return z3.Not(e.nan) if not isinstance(e.nan, bool) else z3.BoolVal(not e.nan)
    return z3.BoolVal(True)


def _num_eq(a, b):
    za, zb = _zv(a), _zv(b)
    if za.sort() != zb.sort():
        if z3.is_int(za) and z3.is_real(zb):
            za = z3.ToReal(za)
        elif z3.is_int(zb) and z3.is_real(za):
            zb = z3.ToReal(zb)
        else:
            return z3.BoolVal(False)
    return z3.And(za == zb, _notnan(a), _notnan(b))


def keys_equal(a, b):
    if isinstance(a, tuple) or isinstance(b, tuple):
        if not (isinstance(a, tuple) and isinstance(b, tuple) and len(a) == len(b)):
            return z3.BoolVal(False)
        return z3.And(*[keys_equal(x, y) for x, y in zip(a, b)])
    return _num_eq(a, b)


def subst_any(e, var, by):
    if isinstance(e, tuple):
        return tuple(subst_any(x, var, by) for x in e)
    return subst(e, var, by)


class JoinSpace(Space):
    """row space of an inner join; rows are pairs"""

    def __init__(self, name, left_space, right_space, cond):
        Space.__init__(self, name)
        self.left_space, self.right_space = left_space, right_space
        self.left = z3.Function(f"left[{name}]", I, I)
        self.right = z3.Function(f"right[{name}]", I, I)
        self.pair = z3.Function(f"pair[{name}]", I, I, I)
        self._cond = cond          # cond(c_z, t_z) -> z3 Bool: join condition for left row c and right row t

    def rowinv(self, jz):
        c, t = self.left(jz), self.right(jz)
        return z3.And(c >= 0, c < self.left_space.n, t >= 0, t < self.right_space.n, self._cond(c, t))

    def complete(self, cz, tz):
        """instance of join completeness for left row cz and right row tz"""
        j = self.pair(cz, tz)
        return z3.Implies(z3.And(cz >= 0, cz < self.left_space.n, tz >= 0, tz < self.right_space.n, self._cond(cz, tz)),
                          z3.And(j >= 0, j < self.n, self.left(j) == cz, self.right(j) == tz))


def merge(it, left, right, on=None, how="inner", **k):
    if how != "inner" or k:
        raise EngineError(f"DataFrame.merge(how={how!r}, {list(k)})")
    if isinstance(on, str):
        on = [on]
    on = list(it.iterate(on))
    if not isinstance(left, Table):
        raise EngineError("merge: left operand")
    if isinstance(right, FilteredTable):
        rt, rmask = right.table, right.mask
    elif isinstance(right, Table):
        rt, rmask = right, True
    else:
        raise EngineError("merge: right operand")
    ls, rs = left.space, rt.space
    lk = [left.cols[c] for c in on]
    rk = [rt.cols[c] for c in on]

    def cond(cz, tz):
        cs = [keys_equal(subst_any(a, ls.i, cz), subst_any(b, rs.i, tz)) for a, b in zip(lk, rk)]
        if rmask is not True:
            cs.append(z3.substitute(rmask, (rs.i, tz)))
        return z3.And(*cs)
    name = _fresh("join")
    js = JoinSpace(name, ls, rs, cond)
    Space._all[name] = js
    cols = {}
    for c, e in left.cols.items():
        cols[c] = subst_any(e, ls.i, js.left(js.i))
    for c, e in rt.cols.items():
        if c in on:
            continue
        nm = c if c not in cols else c + "_y"
        if c in cols:
            cols[c + "_x"] = cols.pop(c)
        cols[nm] = subst_any(e, rs.i, js.right(js.i))
    t = Table(name, space=js, cols=cols)
    it.ctx.facts.append(z3.Implies(z3.And(js.i >= 0, js.i < js.n), js.rowinv(js.i)))
    it.ctx.ghost.setdefault("joins", []).append(js)
    return t


class SymMap:
    """dict(zip(K, V)) of two aligned columns"""

    def __init__(self, it, space, mask, key_e, val_e):
        self.space, self.mask, self.key_e, self.val_e = space, mask, key_e, val_e
        self.name = _fresh("map")
        it.ctx.ghost.setdefault("maps", []).append(self)
        self.lookups = []

    def _kz(self, k):
        if isinstance(k, tuple):
            out = []
            for x in k:
                out += self._kz(x)
            return out
        z = _zv(k)
        return [z3.ToReal(z) if z3.is_int(z) else z]

    def row_valid(self, jz):
        cs = [jz >= 0, jz < self.space.n]
        if self.mask is not True:
            cs.append(z3.substitute(self.mask, (self.space.i, jz)))
        if hasattr(self.space, "rowinv"):
            cs.append(self.space.rowinv(jz))
        return z3.And(*cs)

    def lookup(self, it, k):
        if isinstance(k, Opaque) or (isinstance(k, tuple) and any(isinstance(x, Opaque) for x in k)):
            raise EngineError("lookup of an unknown key in a column map")
        kz = self._kz(k)
        sel = z3.Function(f"sel[{self.name}]", *([z.sort() for z in kz] + [I]))(*kz)
        has = z3.Function(f"has[{self.name}]", *([z.sort() for z in kz] + [B]))(*kz)
        it.ctx.facts.append(z3.Implies(has, z3.And(self.row_valid(sel), keys_equal(subst_any(self.key_e, self.space.i, sel), k))))
        self.lookups.append(dict(key=k, has=has, sel=sel))
        return has, sel

    def complete(self, k, jz, has):
        """instance of completeness: row jz carries key k  =>  has(k)"""
        return z3.Implies(z3.And(self.row_valid(jz), keys_equal(subst_any(self.key_e, self.space.i, jz), k)), has)

    def get(self, it, k, default=None):
        has, sel = self.lookup(it, k)
        return scalar_ite(SV(has), subst_any(self.val_e, self.space.i, sel), default)

    def sym_getitem(self, it, k):
        has, sel = self.lookup(it, k)
        if not it.ctx.expect(has, tag="key present in column map"):
            raise PyRaise(KeyError("key"))
        return subst_any(self.val_e, self.space.i, sel)

    def sym_contains(self, it, k):
        has, sel = self.lookup(it, k)
        return SV(has)

    def sym_isinstance(self, it, cls):
        return getattr(cls, "__name__", str(cls)) in ("dict", "object", "Mapping")


def symmap_attr(it, m, name):
    if name == "get":
        return Native(lambda it, k, d=None: m.get(it, k, d), name="get", pure=True)
    raise EngineError(f"column map attribute .{name}")


class RangeOver:
    """range(len(column)): positions of a row space"""

    def __init__(self, space):
        self.space = space

    def generic_row(self):
        return self.space, True, SV(self.space.i)

    def make_like(self, e):
        return Arr(self.space, e, True)


def rank_fn(it, space, pred):
    """rank of position i among the positions satisfying pred (number of k < i with pred(k))"""
    pz = z3.simplify(pred) if not isinstance(pred, bool) else z3.BoolVal(pred)
    f = z3.Function(f"rank[{space.name},{_key(pz)}]", I, I)
    it.ctx.ghost.setdefault("ranks", {})[f.name()] = (space, pz)
    it.ctx.facts.append(f(space.i) >= 0)
    return f


def rank_of(it, key):
    """(space, pred) when key is rank_P(i) of the generic position of a space"""
    if not isinstance(key, SV) or not z3.is_app(key.z):
        return None
    d = key.z.decl()
    reg = it.ctx.ghost.get("ranks", {})
    if d.name() in reg and key.z.num_args() == 1:
        space, pred = reg[d.name()]
        if z3.eq(key.z.arg(0), space.i):
            return space, pred
    return None


class EnumArr:
    """enumerate(column): (position inside the (compressed) column, element)"""

    def __init__(self, it, arr, start=0):
        if start != 0:
            raise EngineError("enumerate(start != 0) over a column")
        self.space, self.mask, self.e0 = arr.generic_row()
        f = rank_fn(it, self.space, True if self.mask is True else self.mask)
        self.rank = SV(self.space.i) if self.mask is True else SV(f(self.space.i))

    def generic_row(self):
        return self.space, self.mask, (self.rank, self.e0)

    def make_like(self, e):
        return Arr(self.space, e, self.mask)


def _rank_alignment(it, arr, space, pred, what):
    """a[rank_P(i)] is the element of row i of an array compressed by mask M iff M and P select the same rows -- all of
    them, not only the generic one: rank_P(i) counts the earlier rows -- and row i itself is inside the mask"""
    m = z3.BoolVal(True) if arr.mask is True else arr.mask
    it.ctx.global_obligation(f"rank-aligned:{what}", space, m == pred,
                             note=f"{what}: the counter ranks rows by a mask that must select exactly the rows of the compressed array")
    it.ctx.side_obligation("rank-access-inside-mask", pred,
                           note="the rank counter addresses a row of the compressed array only for rows inside the mask")


def arr_rank_get(it, arr, key):
    r = rank_of(it, key)
    if r is None:
        return NotImplemented
    space, pred = r
    if arr.space is not space:
        raise EngineError("rank index into an array of another row space")
    _rank_alignment(it, arr, space, pred, "positional access by rank")
    return arr.e


def arr_rank_set(it, arr, key, val):
    r = rank_of(it, key)
    if r is None:
        return NotImplemented
    space, pred = r
    if arr.space is not space:
        raise EngineError("rank index into an array of another row space")
    if it.ctx.merge_mode:
        raise CannotMerge()
    if not is_scalar(val):
        raise EngineError("store of a non-scalar through a rank index")
    _rank_alignment(it, arr, space, pred, "positional store by rank")
    arr.set_e(it, val)
    return None


class KeyedRows:
    """df.drop_duplicates(subset=[key], keep='first' | 'last'): per key value the first (last) row with it.
    .set_index(key)[col] is the map  k -> col at the first (last) row whose key is k:  lookups are  col(w(k))  with the witness function w,
        key(w(key(j))) == key(j)   and   w(key(j)) <= j  (first)  /  >= j  (last)      for every row j  (quantified axioms)"""

    def __init__(self, table, key, keep, indexed=False, col=None):
        self.table, self.key, self.keep, self.indexed, self.col = table, key, keep, indexed, col

    def witness(self, it):
        t = self.table
        ke = to_z(t.cols[self.key])
        w = z3.Function(f"{self.keep}-row[{t.name},{self.key}]", ke.sort(), I)
        j = t.space.i
        wk = w(ke)
        order = wk <= j if self.keep == "first" else wk >= j
        it.ctx.axiom(z3.ForAll([j], z3.Implies(z3.And(j >= 0, j < t.space.n),
                                               z3.And(wk >= 0, wk < t.space.n, z3.substitute(ke, (j, wk)) == ke, order)), patterns=[wk]))
        return w

    def lookup(self, it, k):
        """value of self.col at the kept row of key k"""
        t = self.table
        w = self.witness(it)
        ke = to_z(t.cols[self.key])
        wk = w(coerce(to_z(k), ke.sort()))
        return subst(t.cols[self.col], t.space.i, wk)


def keyedrows_attr(it, kr, name):
    if name == "set_index":
        def set_index(it, col, **k):
            if col != kr.key:
                raise EngineError("set_index of de-duplicated rows by another column")
            return KeyedRows(kr.table, kr.key, kr.keep, True, kr.col)
        return Native(set_index, name="set_index")
    if name in ("at", "loc") and kr.indexed and kr.col is not None:
        return _KeyedLookup(kr)
    raise EngineError(f"de-duplicated frame .{name}")


class _KeyedLookup:
    def __init__(self, kr):
        self.kr = kr

    def sym_getitem(self, it, key):
        if isinstance(key, Series):
            key = key.arr()
        if isinstance(key, Arr):
            return Arr(key.space, self.kr.lookup(it, key.e), key.mask)
        if is_scalar(key):
            return self.kr.lookup(it, key)
        raise EngineError("lookup in a de-duplicated frame")


def _keyedrows_getitem(self, it, key):
    if isinstance(key, str) and self.indexed:
        if key not in self.table.cols:
            raise PyRaise(KeyError(key))
        return KeyedRows(self.table, self.key, self.keep, True, key)
    raise EngineError("column of de-duplicated rows before set_index")


KeyedRows.sym_getitem = _keyedrows_getitem


class DataFrameCtor:
    """pd.DataFrame({...}) of aligned columns -> a table over their row space"""
    __name__ = "DataFrame"
    py = None
    typ = "DataFrame"

    def _pyvc_isinstance(self, x):
        return isinstance(x, (Table, FilteredTable))

    def fn(self, it, data=None, **k):
        from .containers import PDict
        if isinstance(data, Opaque) or data is None or k.get("columns") is not None and data is None:
            return Opaque("DataFrame(...)")
        if isinstance(data, PDict):
            if not data.is_concrete():
                return Opaque("DataFrame(...)")
            items = [(kk, data.raw(kk)) for kk in data.keys_list()]
        elif isinstance(data, dict):
            items = list(data.items())
        else:
            return Opaque("DataFrame(...)")
        arrs = [(c, v.arr() if isinstance(v, Series) else v) for c, v in items]
        if not arrs or not all(isinstance(v, Arr) for _, v in arrs):
            # a frame built from scalars / lists: its content is recorded for contracts (one-row frames of the create functions)
            it.ctx.ghost.setdefault("dataframe_ctor", []).append(dict(data=data, kwargs=k))
            return Opaque("DataFrame(...)")
        sp = arrs[0][1].space
        cols = {}
        for c, v in arrs:
            if v.space is not sp:
                raise EngineError("DataFrame from columns of different row spaces")
            require_same_mask(it, arrs[0][1].mask, v.mask, "DataFrame constructor")
            cols[c] = v.e
        if arrs[0][1].mask is not True:
            raise EngineError("DataFrame from compressed columns")
        return Table(_fresh("frame"), space=sp, cols=cols)


class SeriesCtor:
    """pd.Series(data, index=<labels of a row space>, dtype=...) -> a column over that row space (scalars are broadcast)"""
    __name__ = "Series"
    py = None
    typ = "Series"

    def _pyvc_isinstance(self, x):
        return isinstance(x, Series)

    def fn(self, it, data=None, index=None, dtype=None, **k):
        idx = index.arr() if isinstance(index, Series) else index
        if not isinstance(idx, Arr) or isinstance(data, Opaque):
            return Opaque("Series(...)")
        if isinstance(data, Series):
            data = data.arr()
        floaty = "float" in getattr(dtype, "__name__", str(dtype))
        if isinstance(data, Arr):
            if data.space is not idx.space:
                raise EngineError("Series from data and index of different row spaces")
            e = data.e
        elif data is None:
            e = XV(0, True)
        elif is_scalar(data):
            e = data
        else:
            return Opaque("Series(...)")
        if floaty and not isinstance(e, XV):
            if isinstance(e, float) and e != e:
                e = XV(0, True)
            elif isinstance(e, SV) and e.is_pv():
                raise EngineError("Series(dtype=float) of untyped values")
        return Arr(idx.space, e, idx.mask)


def install(it):
    reset()
    it.attr_hooks.append((SymMap, symmap_attr))
    it.attr_hooks.append((KeyedRows, keyedrows_attr))
