"""C23 -- result-preserving toolbox transformations: line <-> impedance replacement.

Functions under contract (real text): pandapower.toolbox.grid_modification:replace_line_by_impedance, replace_impedance_by_line (the
arguments handed to create_impedance / create_line_from_parameters for the generic replaced element).

  * replace_line_by_impedance: the impedance created for line k connects the same buses and has, with Z_N = vn_kv(from_bus)^2 / sn_mva,
        rft_pu = r_ohm_per_km * length_km / parallel / Z_N,  xft_pu alike,  gf_pu = g_us_per_km*1e-6 * length_km * parallel * Z_N,
        bf_pu = 2 pi f c_nf_per_km*1e-9 * length_km * parallel * Z_N
    -- with length_km and parallel **of line k itself** (the per-unit pi model of the line, C02 line build): the values must come from
    the replaced line's own row whatever the index labels are;
  * replace_impedance_by_line: the line created for a symmetric impedance has r_ohm_per_km * length_km = rft_pu * Z_N (x alike), no
    capacitance, parallel = 1, same buses and in_service -- the inverse mapping, so that the round trip restores the parameters.
"""
from __future__ import annotations

import z3

from pyvc.values import SV, CV, XV, PV, B, I, R, EngineError, to_z, real, pi, Opaque
from pyvc.containers import PDict
from pyvc.arrays import Table, Space, Arr, subst, truth_z
from pyvc.interp import Native, ObjVal
from pyvc import netmodel
from contracts import ppcmodel as pm

PROP = "C23"
MIN_OBLIGATIONS = 12
GM = "pandapower.toolbox.grid_modification"
NOT_DECIDED = ["not decided: the other transformations of the statement (continuous re-indexing: C22 reference updates; ext_grid -> gen, ward / "
               "xward replacement, merge_nets, select_subnet, drop_inactive_elements, fuse_buses, merge_parallel_line), result / profile / group "
               "adaptation helpers, the per-list sn_mva alignment when lines are skipped"]


def configure(it):
    pm.configure(it)
    it.generic_loops = True


def _stubs(p, created, name):
    me = p.it.modenv(GM)
    me.vals[name] = Native(lambda it, net, *a, **k: created.append((a, k)) or SV(z3.Int("new_index")), name=name, pure=False)
    for nm in ("_replace_group_member_element_type", "drop_lines", "drop_elements_simple", "_adapt_result_tables_in_replace_functions",
               "_adapt_profiles_in_replace_functions"):
        me.vals[nm] = Native(lambda it, *a, **k: None, name=nm, pure=False)


def run(vc):
    vc.configure = configure
    vc.trust("create_impedance / create_line_from_parameters store their arguments (C24/C25 contracts); the per-unit pi model of a line (C02)")
    vc.assume_std("A-REAL", "A-GENERIC")

    def h_l2i(p):
        line = pm.table("line", {"from_bus": I, "to_bus": I, "length_km": R, "parallel": R, "r_ohm_per_km": R, "x_ohm_per_km": R,
                                 "c_nf_per_km": R, "g_us_per_km": R, "in_service": B, "max_i_ka": R, "name": PV})
        bus = pm.table("bus", {"vn_kv": R})
        net = netmodel.Net({"line": line, "bus": bus, "sn_mva": real("sn_mva"), "f_hz": real("f_hz")}, strict=True)
        created = []
        _stubs(p, created, "create_impedance")
        p.assume(z3.And(line.space.n > 0, to_z(net.fields.raw("sn_mva")) > 0, to_z(line.cols["parallel"]) > 0))
        out = p.call(f"{GM}:replace_line_by_impedance", net, None, None, False)
        if out.raised:
            raise EngineError(f"replace_line_by_impedance raised {out.exc!r}")
        p.prove("line->impedance:one-impedance-per-line", len(created) == 1, meta=dict(part="l2i"))
        if not created:
            return
        a, k = created[0]
        c = line.cols
        vn = bus.by_label(p.it, "vn_kv", to_z(c["from_bus"], I))
        p.assume(to_z(vn) > 0)
        S = to_z(net.fields.raw("sn_mva"))
        zn = to_z(vn) * to_z(vn) / S
        L, par = to_z(c["length_km"]), to_z(c["parallel"])
        w = 2 * to_z(pi()) * to_z(net.fields.raw("f_hz"))
        want = {"rft_pu": to_z(c["r_ohm_per_km"]) * L / par / zn, "xft_pu": to_z(c["x_ohm_per_km"]) * L / par / zn,
                "gf_pu": to_z(c["g_us_per_km"]) * 1e-6 * L * par * zn, "bf_pu": w * to_z(c["c_nf_per_km"]) * 1e-9 * L * par * zn}
        for nm, wz in want.items():
            p.prove(f"line->impedance:{nm}", to_z(k[nm], R) == wz, meta=dict(part="l2i"),
                    note=f"{nm} from the replaced line's own length_km / parallel and Z_N = vn^2 / sn_mva")
        p.prove("line->impedance:buses", z3.And(to_z(a[0], I) == to_z(c["from_bus"], I), to_z(a[1], I) == to_z(c["to_bus"], I)), meta=dict(part="l2i"))
        p.prove("line->impedance:sn_mva", to_z(k["sn_mva"], R) == S, meta=dict(part="l2i"))
        p.prove("line->impedance:in_service", to_z(k["in_service"]) == to_z(c["in_service"]), meta=dict(part="l2i"))
    vc.explore("replace_line_by_impedance", h_l2i, max_paths=100)

    def h_i2l(p):
        imp = pm.table("impedance", {"from_bus": I, "to_bus": I, "rft_pu": R, "xft_pu": R, "rtf_pu": R, "xtf_pu": R, "sn_mva": R, "in_service": B,
                                     "name": PV})
        bus = pm.table("bus", {"vn_kv": R})
        net = netmodel.Net({"impedance": imp, "bus": bus}, strict=True)
        created = []
        _stubs(p, created, "create_line_from_parameters")
        me = p.it.modenv(GM)
        me.vals["ensure_iterability"] = Native(lambda it, x, n=None: Arr(imp.space, x) if n is not None else x, name="ensure_iterability")
        c = imp.cols
        p.assume(z3.And(imp.space.n > 0, to_z(c["sn_mva"]) > 0, to_z(c["rft_pu"]) == to_z(c["rtf_pu"]), to_z(c["xft_pu"]) == to_z(c["xtf_pu"])))
        p.it.summaries["numpy:isclose"] = None
        out = p.call(f"{GM}:replace_impedance_by_line", net, None, False, real("max_i_ka"))
        if out.raised:
            raise EngineError(f"replace_impedance_by_line raised {out.exc!r}")
        p.prove("impedance->line:one-line-per-impedance", len(created) == 1, meta=dict(part="i2l"))
        if not created:
            return
        a, k = created[0]
        vn = bus.by_label(p.it, "vn_kv", to_z(c["from_bus"], I))
        zn = to_z(vn) * to_z(vn) / to_z(c["sn_mva"])
        length = to_z(k["length_km"], R)
        p.prove("impedance->line:r", to_z(k["r_ohm_per_km"], R) * length == to_z(c["rft_pu"]) * zn, meta=dict(part="i2l"))
        p.prove("impedance->line:x", to_z(k["x_ohm_per_km"], R) * length == to_z(c["xft_pu"]) * zn, meta=dict(part="i2l"))
        p.prove("impedance->line:no-capacitance", to_z(k["c_nf_per_km"], R) == 0, meta=dict(part="i2l"))
        p.prove("impedance->line:parallel", to_z(k["parallel"], R) == 1, meta=dict(part="i2l"))
        p.prove("impedance->line:buses", z3.And(to_z(a[0], I) == to_z(c["from_bus"], I), to_z(a[1], I) == to_z(c["to_bus"], I)), meta=dict(part="i2l"))
        p.prove("impedance->line:in_service", to_z(k["in_service"]) == to_z(c["in_service"]), meta=dict(part="i2l"))
    vc.explore("replace_impedance_by_line", h_i2l, max_paths=100)


def classify(ob, model):
    return ob.meta.get("part", "")


def replay(ob, model, finding=None):
    return {"script": f"# replay of {ob.id}\nfrom replaylib.transformations import main\nmain()\n",
            "description": "line -> impedance -> line round trip on a net whose line indices are not their positions (parallel lines, different "
                           "lengths): power flow results of the buses unchanged"}
