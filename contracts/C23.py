"""C23 -- result-preserving toolbox transformations: line <-> impedance replacement.

Functions under contract (real text): pandapower.toolbox.grid_modification:replace_line_by_impedance, replace_impedance_by_line (the
arguments handed to create_impedance / create_line_from_parameters for the generic replaced element).

  * replace_line_by_impedance: the impedance created for line k connects the same buses and has, with Z_N = vn_kv(from_bus)^2 / sn_mva,
        rft_pu = r_ohm_per_km * length_km / parallel / Z_N,  xft_pu alike,  gf_pu = g_us_per_km*1e-6 * length_km * parallel * Z_N,
        bf_pu = 2 pi f c_nf_per_km*1e-9 * length_km * parallel * Z_N
    -- with length_km and parallel **of line k itself** (the per-unit pi model of the line, C02 line build): the values must come from
    the replaced line's own row whatever the index labels are;
  * replace_xward_by_internal_elements: the series impedance created for an xward is its r_ohm / x_ohm in per unit of the impedance's
    own sn_mva (physical value independent of net.sn_mva); load, shunt and the gen holding vm_pu copy the xward's values;
  * select_subnet: the new network carries f_hz of its source (line charging depends on it);
  * replace_impedance_by_line: the line created for a symmetric impedance has r_ohm_per_km * length_km = rft_pu * Z_N (x alike), no
    capacitance, parallel = 1, same buses and in_service -- the inverse mapping, so that the round trip restores the parameters.
"""
from __future__ import annotations

import z3

from pyvc.values import SV, CV, XV, PV, B, I, R, EngineError, to_z, real, pi, Opaque
from pyvc.containers import PDict
from pyvc.arrays import Table, Space, Arr, subst, truth_z
from pyvc.interp import Native, ObjVal
from pyvc import netmodel
from contracts import ppcmodel as pm

PROP = "C23"
MIN_OBLIGATIONS = 12
GM = "pandapower.toolbox.grid_modification"
NOT_DECIDED = ["not decided: the other transformations of the statement (continuous re-indexing: C22 reference updates; ext_grid -> gen, ward / "
               "xward replacement, merge_nets, select_subnet, fuse_buses, merge_parallel_line; drop_inactive_elements: bounded native stand-in only), result / profile / group "
               "adaptation helpers, the per-list sn_mva alignment when lines are skipped"]


def configure(it):
    pm.configure(it)
    it.generic_loops = True


def _stubs(p, created, name):
    me = p.it.modenv(GM)
    me.vals[name] = Native(lambda it, net, *a, **k: created.append((a, k)) or SV(z3.Int("new_index")), name=name, pure=False)
    for nm in ("_replace_group_member_element_type", "drop_lines", "drop_elements_simple", "_adapt_result_tables_in_replace_functions",
               "_adapt_profiles_in_replace_functions"):
        me.vals[nm] = Native(lambda it, *a, **k: None, name=nm, pure=False)


def run(vc):
    vc.configure = configure
    vc.trust("create_impedance / create_line_from_parameters store their arguments (C24/C25 contracts); the per-unit pi model of a line (C02)")
    vc.assume_std("A-REAL", "A-GENERIC")

    def h_l2i(p):
        line = pm.table("line", {"from_bus": I, "to_bus": I, "length_km": R, "parallel": R, "r_ohm_per_km": R, "x_ohm_per_km": R,
                                 "c_nf_per_km": R, "g_us_per_km": R, "in_service": B, "max_i_ka": R, "name": PV})
        bus = pm.table("bus", {"vn_kv": R})
        net = netmodel.Net({"line": line, "bus": bus, "sn_mva": real("sn_mva"), "f_hz": real("f_hz")}, strict=True)
        created = []
        _stubs(p, created, "create_impedance")
        p.assume(z3.And(line.space.n > 0, to_z(net.fields.raw("sn_mva")) > 0, to_z(line.cols["parallel"]) > 0))
        out = p.call(f"{GM}:replace_line_by_impedance", net, None, None, False)
        if out.raised:
            raise EngineError(f"replace_line_by_impedance raised {out.exc!r}")
        p.prove("line->impedance:one-impedance-per-line", len(created) == 1, meta=dict(part="l2i"))
        if not created:
            return
        a, k = created[0]
        c = line.cols
        vn = bus.by_label(p.it, "vn_kv", to_z(c["from_bus"], I))
        p.assume(to_z(vn) > 0)
        S = to_z(net.fields.raw("sn_mva"))
        zn = to_z(vn) * to_z(vn) / S
        L, par = to_z(c["length_km"]), to_z(c["parallel"])
        w = 2 * to_z(pi()) * to_z(net.fields.raw("f_hz"))
        want = {"rft_pu": to_z(c["r_ohm_per_km"]) * L / par / zn, "xft_pu": to_z(c["x_ohm_per_km"]) * L / par / zn,
                "gf_pu": to_z(c["g_us_per_km"]) * 1e-6 * L * par * zn, "bf_pu": w * to_z(c["c_nf_per_km"]) * 1e-9 * L * par * zn}
        for nm, wz in want.items():
            p.prove(f"line->impedance:{nm}", to_z(k[nm], R) == wz, meta=dict(part="l2i"),
                    note=f"{nm} from the replaced line's own length_km / parallel and Z_N = vn^2 / sn_mva")
        p.prove("line->impedance:buses", z3.And(to_z(a[0], I) == to_z(c["from_bus"], I), to_z(a[1], I) == to_z(c["to_bus"], I)), meta=dict(part="l2i"))
        p.prove("line->impedance:sn_mva", to_z(k["sn_mva"], R) == S, meta=dict(part="l2i"))
        p.prove("line->impedance:in_service", to_z(k["in_service"]) == to_z(c["in_service"]), meta=dict(part="l2i"))
    vc.explore("replace_line_by_impedance", h_l2i, max_paths=100)

    def h_i2l(p):
        imp = pm.table("impedance", {"from_bus": I, "to_bus": I, "rft_pu": R, "xft_pu": R, "rtf_pu": R, "xtf_pu": R, "sn_mva": R, "in_service": B,
                                     "name": PV, "gf_pu": R, "bf_pu": R, "gt_pu": R, "bt_pu": R})
        bus = pm.table("bus", {"vn_kv": R})
        net = netmodel.Net({"impedance": imp, "bus": bus, "f_hz": real("f_hz")}, strict=True)
        created = []
        _stubs(p, created, "create_line_from_parameters")
        me = p.it.modenv(GM)
        me.vals["ensure_iterability"] = Native(lambda it, x, n=None: Arr(imp.space, x) if n is not None else x, name="ensure_iterability")
        c = imp.cols
        p.assume(z3.And(imp.space.n > 0, to_z(c["sn_mva"]) > 0, to_z(c["rft_pu"]) == to_z(c["rtf_pu"]), to_z(c["xft_pu"]) == to_z(c["xtf_pu"]),
                        to_z(c["gf_pu"]) == to_z(c["gt_pu"]), to_z(c["bf_pu"]) == to_z(c["bt_pu"]), to_z(net.fields.raw("f_hz")) > 0))
        p.it.summaries["numpy:isclose"] = None
        out = p.call(f"{GM}:replace_impedance_by_line", net, None, False, real("max_i_ka"))
        if out.raised:
            raise EngineError(f"replace_impedance_by_line raised {out.exc!r}")
        p.prove("impedance->line:one-line-per-impedance", len(created) == 1, meta=dict(part="i2l"))
        if not created:
            return
        a, k = created[0]
        vn = bus.by_label(p.it, "vn_kv", to_z(c["from_bus"], I))
        zn = to_z(vn) * to_z(vn) / to_z(c["sn_mva"])
        p.assume(to_z(vn) > 0)          # rated bus voltages are positive
        length = to_z(k["length_km"], R)
        p.prove("impedance->line:r", to_z(k["r_ohm_per_km"], R) * length == to_z(c["rft_pu"]) * zn, meta=dict(part="i2l"))
        p.prove("impedance->line:x", to_z(k["x_ohm_per_km"], R) * length == to_z(c["xft_pu"]) * zn, meta=dict(part="i2l"))
        # the pi circuit of the line has half of its shunt admittance at each end: per end the impedance's own gf + j bf (per unit of Z_N)
        from pyvc.values import pi as _pi
        w = 2 * to_z(_pi(), R) * to_z(net.fields.raw("f_hz"), R)
        p.prove("impedance->line:shunt-susceptance-per-end", w * to_z(k["c_nf_per_km"], R) * length / 1e9 * zn / 2 == to_z(c["bf_pu"]), meta=dict(part="i2l"),
                note="omega * C * length * Z_N / 2 == bf_pu (the expectation used to be 'no capacitance', copied from the code)")
        g_us = k.get("g_us_per_km", 0.0)
        p.prove("impedance->line:shunt-conductance-per-end", to_z(g_us, R) * length / 1e6 * zn / 2 == to_z(c["gf_pu"]), meta=dict(part="i2l"))
        p.prove("impedance->line:parallel", to_z(k["parallel"], R) == 1, meta=dict(part="i2l"))
        p.prove("impedance->line:buses", z3.And(to_z(a[0], I) == to_z(c["from_bus"], I), to_z(a[1], I) == to_z(c["to_bus"], I)), meta=dict(part="i2l"))
        p.prove("impedance->line:in_service", to_z(k["in_service"]) == to_z(c["in_service"]), meta=dict(part="i2l"))
    vc.explore("replace_impedance_by_line", h_i2l, max_paths=100)


    # ---- xward -> internal elements: per-unit series impedance ------------------------------------------------------------------
    def h_xw(p):
        xw = pm.table("xward", {"bus": I, "ps_mw": R, "qs_mvar": R, "pz_mw": R, "qz_mvar": R, "r_ohm": R, "x_ohm": R, "vm_pu": R,
                                "in_service": B, "name": PV})
        bus = pm.table("bus", {"vn_kv": R, "min_vm_pu": R, "max_vm_pu": R})
        net = netmodel.Net({"xward": xw, "bus": bus, "sn_mva": real("sn_mva"), "res_xward": Opaque("res_xward")}, strict=True)
        created = {}
        me = p.it.modenv(GM)
        for nm in ("create_bus", "create_load", "create_shunt", "create_gen", "create_impedance"):
            me.vals[nm] = Native(lambda it, net_, *a, _nm=nm, **k: created.setdefault(_nm, []).append((a, k)) or SV(z3.Int(f"new_{_nm}")),
                                 name=nm, pure=False)
        for nm in ("element_associated_groups", "attach_to_groups", "drop_elements_simple", "log_to_level"):
            me.vals[nm] = Native(lambda it, *a, **k: Opaque("groups"), name=nm, pure=False)
        p.assume(z3.And(xw.space.n > 0, to_z(net.fields.raw("sn_mva")) > 0))
        out = p.call(f"{GM}:replace_xward_by_internal_elements", net, None, False)
        if out.raised:
            raise EngineError(f"replace_xward_by_internal_elements raised {out.exc!r}")
        c = xw.cols
        imp = created.get("create_impedance", [])
        p.prove("xward:one-impedance", len(imp) == 1, meta=dict(part="xward"))
        if imp:
            a, k = imp[0]
            vn = to_z(bus.by_label(p.it, "vn_kv", to_z(c["bus"], I)))
            p.assume(vn > 0)
            sn_imp = to_z(a[4] if len(a) > 4 else k.get("sn_mva"), R)
            zn = vn * vn / sn_imp
            p.prove("xward:series-resistance-physical", to_z(a[2], R) * zn == to_z(c["r_ohm"]), meta=dict(part="xward"),
                    note="rft_pu * vn^2 / sn_mva(impedance) == r_ohm of the xward, for every net.sn_mva")
            p.prove("xward:series-reactance-physical", to_z(a[3], R) * zn == to_z(c["x_ohm"]), meta=dict(part="xward"))
            p.prove("xward:impedance-from-the-xward-bus", to_z(a[0], I) == to_z(c["bus"], I), meta=dict(part="xward"))
        ld, sh, gn = created.get("create_load", []), created.get("create_shunt", []), created.get("create_gen", [])
        p.prove("xward:load-shunt-gen-created", len(ld) == 1 and len(sh) == 1 and len(gn) == 1, meta=dict(part="xward"))
        if ld and sh and gn:
            p.prove("xward:load", z3.And(to_z(ld[0][0][1], R) == to_z(c["ps_mw"]), to_z(ld[0][0][2], R) == to_z(c["qs_mvar"])), meta=dict(part="xward"))
            p.prove("xward:shunt", z3.And(to_z(sh[0][1]["p_mw"], R) == to_z(c["pz_mw"]), to_z(sh[0][1]["q_mvar"], R) == to_z(c["qz_mvar"])), meta=dict(part="xward"))
            p.prove("xward:gen-holds-the-internal-voltage", z3.And(to_z(gn[0][0][2], R) == to_z(c["vm_pu"]), to_z(gn[0][0][1], R) == 0), meta=dict(part="xward"))
    vc.explore("replace_xward_by_internal_elements", h_xw, max_paths=100)

    # ---- select_subnet keeps the network-wide parameters the results depend on ------------------------------------------------
    def h_sub(p):
        from pyvc import frame, lib_np
        frame.install(p.it)
        p.it.opaque_loops = True
        p.it.lenient_numpy = True
        class ClosedNet(frame.FrameNet):
            """a net with the standard element tables and no optional extras"""

            def sym_contains(self, it, key):
                if self.fields.presence(key) is True:
                    return True
                return key in ("bus_geodata", "line_geodata") or self._is_table(key) and not key.endswith("_characteristic_table") and not key.endswith("geodata")
        net = ClosedNet(extra={"f_hz": real("f_hz"), "name": SV(z3.Const("net_name", PV)), "sn_mva": real("sn_mva"), "std_types": PDict()})
        made = []

        def create_empty(it, *a, **k):
            n2 = frame.FrameNet(extra={"f_hz": 50.0, "name": "", "sn_mva": k.get("sn_mva", 1.0), "std_types": PDict()})
            made.append(n2)
            return n2
        me = p.it.modenv(GM)
        me.vals["create_empty_network"] = Native(create_empty, name="create_empty_network", pure=False)
        me.vals["pandapowerNet"] = Native(lambda it, x: x, name="pandapowerNet")
        me.vals["pp_elements"] = Native(lambda it, **k: ["load", "sgen", "gen"], name="pp_elements")
        me.vals["_select_cost_df"] = Native(lambda it, *a, **k: None, name="_select_cost_df", pure=False)
        out = p.call(f"{GM}:select_subnet", net, Opaque("buses"), False, False, False)
        if out.raised:
            raise EngineError(f"select_subnet raised {out.exc!r}")
        p.prove("subnet:new-net", len(made) == 1 and out.value is made[0], meta=dict(part="subnet"))
        if made:
            f2 = made[0].fields.raw("f_hz")
            p.prove("subnet:f_hz-kept", isinstance(f2, SV) and z3.eq(f2.z, net.fields.raw("f_hz").z), meta=dict(part="subnet"),
                    note="line susceptances depend on the network frequency: the selected subnet must carry the frequency of its source")
    vc.explore("select_subnet", h_sub, max_paths=200)

    run_drop_oos(vc)
    if not hasattr(vc, "native_standins"):
        vc.native_standins = []
    vc.native_standins.append(dict(
        name="further electrically neutral transformations on fixed networks",
        bound="an impedance with symmetric shunt admittances replaced by a line; select_subnet of all buses and drop_inactive_elements on a "
              "network with a three-winding transformer whose lv side is behind an open t3 switch: bus voltages and slack power before / after",
        script="from replaylib.transformations import main_more\nmain_more()\n"))

    if not hasattr(vc, "native_standins"):
        vc.native_standins = []
    vc.native_standins.append(dict(
        name="dropping inactive elements on a fixed network",
        bound="one 110/20 kV feeder with an open-ended cable (dead-end bus as its from or as its to bus), an in-service stub line at an "
              "out-of-service bus, out-of-service load / sgen; drop_inactive_elements and drop_out_of_service_elements: bus voltages and slack "
              "reactive power before / after",
        script="from replaylib.transformations import main_inactive\nmain_inactive()\n"))


def run_drop_oos(vc):
    """drop_out_of_service_elements keeps every bus that an (in-service) branch still uses: the buses protected from deletion are collected
    from *every* bus column of every non-empty branch table (both ends of lines, impedances and dclines, all windings of transformers).
    Dropping an out-of-service bus that is one end of a branch that stays in the net removes that branch as well (drop_buses with
    drop_elements=True) and changes the power flow."""
    GMm = "pandapower.toolbox.grid_modification"
    BRANCH_COLS = {("line", "from_bus"), ("line", "to_bus"), ("impedance", "from_bus"), ("impedance", "to_bus"), ("trafo", "hv_bus"),
                   ("trafo", "lv_bus"), ("trafo3w", "hv_bus"), ("trafo3w", "mv_bus"), ("trafo3w", "lv_bus"), ("dcline", "from_bus"),
                   ("dcline", "to_bus")}

    class Col:
        no_identity_merge = True

        def __init__(self, table, col):
            self.table, self.col = table, col

    class Columns:
        def sym_contains(self, it, c):
            return True

    class T:
        opaque_like = False

        def __init__(self, name):
            self.name = name

        def sym_getitem(self, it, key):
            return Col(self.name, key) if isinstance(key, str) else Opaque(f"{self.name}[...]")

        def sym_len(self, it):
            return 3          # every branch table has rows (an empty table has no bus to protect)

    def t_attr(it, t, name):
        if name == "columns":
            return Columns()
        return Opaque(f"{t.name}.{name}")

    class N:
        def __init__(self):
            self.t = {}

        def sym_getitem(self, it, key):
            return self.t.setdefault(key, T(key))

    def n_attr(it, n, name):
        return n.sym_getitem(it, name)

    def h(p):
        it = p.it
        it.attr_hooks.append((T, t_attr)); it.attr_hooks.append((N, n_attr))
        protected = []
        dropped = []
        me = it.modenv(GMm)
        for nm in ("drop_lines", "drop_trafos", "__drop_inactive_other_branches", "__drop_inactive_elements_other"):
            me.vals[nm] = Native(lambda it_, *a, **k: None, name=nm, pure=False)
        me.vals["drop_buses"] = Native(lambda it_, n, buses, **k: dropped.append((buses, k)), name="drop_buses", pure=False)

        def concat(it_, series, **k):
            protected.extend(series)
            return Opaque("all branch buses")
        from pyvc.interp import Namespace
        me.vals["pd"] = Namespace("pandas", {"Index": Native(lambda it_, x=None, **k: Opaque("Index"), name="Index"),
                                             "concat": Native(concat, name="concat", pure=False)})
        p.fn("pandapower.toolbox.element_selection:element_bus_tuples")
        out = p.call(f"{GMm}:drop_out_of_service_elements", N())
        if out.raised:
            raise EngineError(f"drop_out_of_service_elements raised {out.exc!r}")
        got = {(c.table, c.col) for c in protected if isinstance(c, Col)}
        meta = dict(part="drop-oos")
        p.prove("drop_out_of_service: the protected buses are collected from table columns only", all(isinstance(c, Col) for c in protected) and bool(protected),
                meta=meta)
        for tab, col in sorted(BRANCH_COLS):
            p.prove(f"drop_out_of_service: buses in {tab}.{col} are protected from deletion", (tab, col) in got, meta=meta,
                    note="a bus that a remaining branch uses at this end must not be dropped (the branch would be dropped with it)")
        p.prove("drop_out_of_service: the buses are dropped once, after the protected set is known", len(dropped) == 1, meta=meta)
    vc.explore("drop_out_of_service_elements", h, max_paths=40)


def classify(ob, model):
    return ob.meta.get("part", "")


def replay(ob, model, finding=None):
    if ob.meta.get("part") == "drop-oos":
        return {"script": f"# replay of {ob.id}\nfrom replaylib.transformations import main_inactive\nmain_inactive()\n",
                "description": "drop_inactive_elements / drop_out_of_service_elements on a feeder with an open-ended cable (dead end as from or to "
                               "bus) and a stub line at an out-of-service bus: power flow before / after"}
    return {"script": f"# replay of {ob.id}\nfrom replaylib.transformations import main\nmain()\n",
            "description": "line -> impedance -> line round trip on a net whose line indices are not their positions (parallel lines, different "
                           "lengths): power flow results of the buses unchanged"}
