"""C12 -- recycled time-series power flows re-read everything a controller may have changed.

Functions under contract (real text): pandapower.control.controller.const_control:ConstControl.set_recycle,
pandapower.powerflow:_recycled_powerflow.

Ghost state: the set of element tables whose values were (possibly) written by a controller since the last full power flow, and the
set of ppc parts re-derived from the tables by the recycled power flow.
  * set_recycle: for every (element, variable) a ConstControl may drive, the recycle flags it declares cover the ppc part derived from
    that table column (bus_pq for p/q/scaling of loads, sgens, storages; gen for gen / ext_grid setpoints; the branch flag 'trafo' for
    trafo, trafo3w and line tables) -- or recycling is switched off (False => full power flow);
  * _recycled_powerflow: for every flag that is set, every ppc part of that flag is re-derived: bus_pq -> _calc_pq_elements_and_add_on_ppc;
    gen -> _build_gen_ppc; 'trafo' -> the parameter function of *every* branch table in the flag's domain that exists in the branch lookup
    (trafo, trafo3w, line), independently of which other tables exist; the solver is run on the re-derived ppc.

Added later: _evaluate_net discards net._ppc when the run function raises, before the repair run and before returning (run_evaluate_net).
"""
from __future__ import annotations

import z3

from pyvc.values import SV, CV, XV, PV, B, I, R, EngineError, to_z, real, Opaque
from pyvc.containers import PDict
from pyvc.arrays import Mat, Space
from pyvc.interp import Native, ObjVal, PyRaise
from pyvc import netmodel
from contracts import ppcmodel as pm

PROP = "C12"
MIN_OBLIGATIONS = 30
PF = "pandapower.powerflow"
CC = "pandapower.control.controller.const_control"
NOT_DECIDED = ["bounded native stand-in only: the batch result reading of the output writer (read_batch_results / _check_output_writer_recyclability), "
               "only_v_results shortcuts, other controllers' recycle declarations, the solver",
               "not decided: that the parameter functions re-read every column (their own contracts: C02 line build)"]

# which ppc part is derived from which table (domain of the recycle flags)
DOMAIN = {"bus_pq": {("load", "p_mw"), ("load", "q_mvar"), ("load", "scaling"), ("sgen", "p_mw"), ("sgen", "q_mvar"), ("sgen", "scaling"),
                     ("storage", "p_mw"), ("storage", "q_mvar"), ("storage", "scaling")},
          "gen": {("gen", "p_mw"), ("gen", "vm_pu"), ("gen", "scaling"), ("ext_grid", "vm_pu"), ("ext_grid", "va_degree")}}
BRANCH_TABLES = {"trafo": "_calc_trafo_parameter", "trafo3w": "_calc_trafo3w_parameter", "line": "_calc_line_parameter"}
VARIABLES = {"load": ["p_mw", "q_mvar", "scaling", "const_z_p_percent", "in_service"], "sgen": ["p_mw", "q_mvar", "scaling", "in_service"],
             "storage": ["p_mw", "q_mvar", "scaling"], "gen": ["p_mw", "vm_pu", "scaling", "max_q_mvar", "in_service"],
             "ext_grid": ["vm_pu", "va_degree", "in_service"], "trafo": ["tap_pos", "in_service", "vk_percent"],
             "trafo3w": ["tap_pos", "in_service"], "line": ["length_km", "in_service", "max_i_ka"], "shunt": ["q_mvar", "step"],
             "ward": ["ps_mw"], "switch": ["closed"]}


def configure(it):
    pm.configure(it)


def run(vc):
    vc.configure = configure
    vc.trust("the ppc parts and the tables they are derived from (DOMAIN in this contract): bus PD/QD from load, sgen, storage; ppc['gen'] "
             "from gen, ext_grid; branch rows from trafo, trafo3w, line")
    vc.assume_std("A-GENERIC")

    # ---- set_recycle -------------------------------------------------------------------------------------------------------
    for element, variables in VARIABLES.items():
        for variable in variables:
            def h_set(p, element=element, variable=variable):
                cls = p.it.modenv(CC).get("ConstControl")
                cell = {}

                class At:
                    def sym_getitem(self, it, key):
                        return cell.get("v", True)

                    def sym_setitem(self, it, key, val):
                        cell["v"] = val
                ctab = ObjVal(None, {"at": At()})
                net = ObjVal(None, {"controller": ctab})
                obj = ObjVal(cls, {"index": 0, "element": element, "variable": variable})
                p.it.call(p.it.getattr(obj, "set_recycle"), [net], {})
                p.fn(f"{CC}:ConstControl.set_recycle")
                rec = cell.get("v", True)
                tag = f"set_recycle[{element}.{variable}]"
                if rec is False:
                    p.prove(f"{tag}:full-power-flow", True, note="recycling switched off: every step is a full power flow", meta=dict(part="set_recycle"))
                    return
                if not isinstance(rec, (dict, PDict)):
                    p.prove(f"{tag}:flags", False, note=f"recycle = {rec!r}", meta=dict(part="set_recycle"))
                    return
                flags = rec.to_dict() if isinstance(rec, PDict) else rec
                need = [k for k, dom in DOMAIN.items() if (element, variable) in dom]
                if element in BRANCH_TABLES:
                    need.append("trafo")
                covered = bool(need) and all(flags.get(k) is True for k in need)
                p.prove(f"{tag}:flags-cover-the-written-table", covered, meta=dict(part="set_recycle", element=element),
                        note=f"a recyclable controller on {element}.{variable} must flag the ppc part derived from it (needs {need}, flags {flags})")
            vc.explore(f"ConstControl.set_recycle[{element}.{variable}]", h_set, max_paths=10)

    # ---- _recycled_powerflow --------------------------------------------------------------------------------------------------
    for ac in (True, False):
        def h_rec(p, ac=ac):
            events = []
            me = p.it.modenv(PF)

            def ev(name, ret=None):
                def f(it, *a, **k):
                    events.append(name)
                    return ret(*a) if callable(ret) else ret
                return Native(f, name=name, pure=False)
            for nm in ("_calc_pq_elements_and_add_on_ppc", "_calc_trafo_parameter", "_calc_trafo3w_parameter", "_calc_line_parameter", "_build_gen_ppc",
                       "_ppci_to_net", "_ppci_bus_to_ppc", "_ppci_other_to_ppc", "_switch_branches"):
                if me.has(nm):
                    me.vals[nm] = ev(nm)
            # the parameter functions write the buses of the element tables to the branch rows again (their own contract, C02): after
            # them the end buses are those of the tables, not the ones _pd2ppc determined (auxiliary buses at open switches)
            from pandapower.pypower.idx_brch import F_BUS, T_BUS
            branch = Mat("ppcbranch", {"all": Space.get("ppcbranch")})
            ends0 = {c: pm.colfun(branch, "all", c, I) for c in (F_BUS, T_BUS)}

            def rewrites(name):
                def f(it, n, ppc_, *a, **k):
                    events.append(name)
                    for c in (F_BUS, T_BUS):
                        branch.cols[("all", c)] = SV(z3.Function(f"table_bus[{name},{c}]", I, I)(branch.segments["all"].i))
                return Native(f, name=name, pure=False)
            for nm in ("_calc_trafo_parameter", "_calc_trafo3w_parameter", "_calc_line_parameter"):
                me.vals[nm] = rewrites(nm)
            me.vals["_ppc2ppci"] = ev("_ppc2ppci", lambda ppc, net, ppci=None: PDict({"success": True, "iterations": 1, "et": 0.}))
            me.vals["_run_newton_raphson_pf"] = ev("solver", lambda ppci, options: ppci)
            me.vals["_run_dc_pf"] = ev("solver", lambda ppci, recycle=None: ppci)
            me.vals["nan_to_num"] = Native(lambda it, x: x, name="nan_to_num")
            has = {t: z3.Bool(f"lookup.has[{t}]") for t in BRANCH_TABLES}
            lookup = PDict()
            for t, h in has.items():
                lookup.set(t, (0, 1), when=h)
            fl = {k: z3.Bool(f"recycle[{k}]") for k in ("bus_pq", "trafo", "gen")}
            recycle = PDict({k: SV(v) for k, v in fl.items()})
            internal = PDict({"bus": Opaque("bus"), "gen": Opaque("gen"), "branch": Opaque("branch"), "baseMVA": 1.0})
            ppc = PDict({"internal": internal, "gen": Opaque("ppc.gen"), "branch": branch})
            net = netmodel.Net({"_options": PDict({"algorithm": "nr", "ac": ac, "only_v_results": False, "mode": "pf"}), "_ppc": ppc,
                                "_pd2ppc_lookups": PDict({"branch": lookup})}, strict=True)
            net.fields.raw("_options").set("neglect_open_switch_branches", SV(z3.Bool("neglect_open_switch_branches")))
            out = p.call(f"{PF}:_recycled_powerflow", net, recycle=recycle)
            if out.raised:
                raise EngineError(f"_recycled_powerflow raised {out.exc!r}")
            pc = z3.And(*p.it.ctx.pc) if p.it.ctx.pc else z3.BoolVal(True)
            tag = f"recycled[{'ac' if ac else 'dc'}]"

            def called_when(cond, fn, label):
                # on this path: cond holds  =>  fn was called before the solver
                before = events[:events.index("solver")] if "solver" in events else events
                p.prove(f"{tag}:{label}", z3.Implies(cond, z3.BoolVal(fn in before)), meta=dict(part="recycled", fn=fn),
                        note=f"{fn} must run before the solver whenever its flag is set" + (" and the table is in the branch lookup" if "lookup" in label else ""))
            called_when(fl["bus_pq"], "_calc_pq_elements_and_add_on_ppc", "bus_pq-refreshed")
            called_when(fl["gen"], "_build_gen_ppc", "gen-refreshed")
            for t, fn in BRANCH_TABLES.items():
                called_when(z3.And(fl["trafo"], has[t]), fn, f"branch-refreshed[{t} in lookup]")
            for c, nm in ((F_BUS, "from"), (T_BUS, "to")):
                now = branch.cols.get(("all", c))
                p.prove(f"{tag}:branch-{nm}-buses-kept", now is not None and to_z(now, I) == to_z(ends0[c], I), meta=dict(part="recycled-ends"),
                        note="the end buses of the branches (auxiliary buses at open switches and out-of-service buses, determined by the full "
                             "conversion) are the same after the parameters have been re-read")
            p.prove(f"{tag}:solver-runs-on-rebuilt-ppci", "solver" in events and "_ppc2ppci" in events and events.index("_ppc2ppci") < events.index("solver"),
                    meta=dict(part="recycled"))
        vc.explore(f"_recycled_powerflow[{'ac' if ac else 'dc'}]", h_rec, max_paths=400)


    run_evaluate_net(vc)
    _standins(vc)

    # ---- batch read eligibility against what the batch reader can derive -----------------------------------------------------
    RES_COLS = {"res_bus": ["vm_pu", "va_degree", "p_mw", "q_mvar"],
                "res_line": ["p_from_mw", "q_from_mvar", "p_to_mw", "q_to_mvar", "pl_mw", "ql_mvar", "i_from_ka", "i_to_ka", "i_ka", "vm_from_pu",
                             "va_from_degree", "vm_to_pu", "va_to_degree", "loading_percent"],
                "res_trafo": ["p_hv_mw", "q_hv_mvar", "p_lv_mw", "q_lv_mvar", "pl_mw", "ql_mvar", "i_hv_ka", "i_lv_ka", "vm_hv_pu", "va_hv_degree",
                              "vm_lv_pu", "va_lv_degree", "loading_percent"],
                "res_trafo3w": ["p_hv_mw", "q_hv_mvar", "p_mv_mw", "q_mv_mvar", "p_lv_mw", "q_lv_mvar", "pl_mw", "ql_mvar", "i_hv_ka", "i_mv_ka",
                                "i_lv_ka", "vm_hv_pu", "va_hv_degree", "loading_percent"],
                "res_load": ["p_mw", "q_mvar"], "res_gen": ["p_mw", "q_mvar", "vm_pu"]}
    TS = "pandapower.timeseries.run_time_series"
    OW = "pandapower.timeseries.output_writer"
    for table, variables in RES_COLS.items():
        for variable in variables:
            def h_batch(p, table=table, variable=variable):
                logged = []
                ow = ObjVal(None, {"log_variables": [(table, variable)],
                                   "log_variable": Native(lambda it, t, v, *a, **k: logged.append((t, v)), name="log_variable", pure=False)})

                class At:
                    def sym_getitem(self, it, key):
                        return ow
                net = ObjVal(None, {"output_writer": ObjVal(None, {"at": At()})})
                net_c = _ContainsNet(net)
                recycle = PDict({"trafo": False, "gen": False, "bus_pq": True})
                out = p.call(f"{TS}:_check_output_writer_recyclability", net_c, recycle, ObjVal(None, {"__name__": "runpp"}))
                if out.raised:
                    raise EngineError(f"_check_output_writer_recyclability raised {out.exc!r}")
                rec = out.value
                br = rec.raw("batch_read")
                tag = f"batch[{table}.{variable}]"
                if br is False or br == []:
                    p.prove(f"{tag}:read-per-step", rec.raw("only_v_results") is False, meta=dict(part="batch", table=table),
                            note="not eligible for the batch read: full results are read in every step")
                    return
                # eligible: the batch reader must be able to produce exactly this variable
                me = p.it.modenv(OW)
                me.vals["v_to_i_s"] = Native(lambda it, *a: (Opaque("v"), Opaque("s_abs"), Opaque("i_abs")), name="v_to_i_s")
                me.vals["get_batch_line_results"] = Native(lambda it, *a: tuple(Opaque(f"line{k}") for k in range(4)), name="get_batch_line_results")
                me.vals["get_batch_trafo_results"] = Native(lambda it, *a: tuple(Opaque(f"trafo{k}") for k in range(5)), name="get_batch_trafo_results")
                me.vals["get_batch_trafo3w_results"] = Native(lambda it, *a: tuple(Opaque(f"t3w{k}") for k in range(4)), name="get_batch_trafo3w_results")
                me.vals["get_batch_bus_results"] = Native(lambda it, *a: (Opaque("vm"), Opaque("va")), name="get_batch_bus_results")
                cls = me.get("OutputWriter")
                self_ = ObjVal(cls, {"output": PDict({"ppc_bus.vm": Opaque("vm"), "ppc_bus.va": Opaque("va")}), "time_steps": Opaque("steps"),
                                     "output_list": []})
                try:
                    p.it.call(p.it.getattr(self_, "get_batch_outputs"), [Opaque("net"), rec], {})
                    ok, why = True, ""
                except PyRaise as e:
                    ok, why = False, repr(e.exc)
                p.fn(f"{OW}:OutputWriter.get_batch_outputs")
                p.prove(f"{tag}:batch-reader-produces-it", ok and self_.attrs["output"].presence(f"{table}.{variable}") is True,
                        meta=dict(part="batch", table=table), note=f"declared eligible for the batch read, so get_batch_outputs must record it {why}")
            vc.explore(f"batch_read[{table}.{variable}]", h_batch, max_paths=10)


def run_evaluate_net(vc):
    """_evaluate_net (one power flow of the control loop / of a time step): when the run function raises a convergence error the cached
    network data net._ppc -- which the recycled power flow of the next run starts from -- is discarded before anything else runs, with
    and without continue_on_divergence: the repair run and every later time step then build the network data anew."""
    RC = "pandapower.control.run_control"

    class NotConverged(Exception):
        pass
    for cont in (True, False):
        for second_fails in ((True, False) if cont else (False,)):
            def h(p, cont=cont, second_fails=second_fails):
                from pyvc.interp import PyRaise
                seen = []
                stale = Opaque("ppc of the diverged run")
                net = netmodel.Net({"_ppc": stale, "converged": False}, strict=False)

                def run_funct(it, n, **k):
                    seen.append(n.fields.raw("_ppc") if "_ppc" in n.fields.keys_list() else None)
                    if len(seen) == 1 or second_fails:
                        raise PyRaise(NotConverged("no convergence"))
                    return None
                me = p.it.modenv(RC)
                me.vals["_control_repair"] = Native(lambda it, levelorder: seen.append("repair") or None, name="_control_repair", pure=False)
                cv = PDict({"run": Native(run_funct, name="run", pure=False), "errors": (NotConverged,), "continue_on_divergence": cont,
                            "converged": False})
                out = p.call(f"{RC}:_evaluate_net", net, Opaque("levelorder"), cv)
                tag = f"_evaluate_net[continue_on_divergence={cont},retry_fails={second_fails}]"
                meta = dict(part="evaluate_net")
                ppc_after = net.fields.raw("_ppc") if "_ppc" in net.fields.keys_list() else None
                p.prove(f"{tag}: the cached network data of a diverged run is discarded", ppc_after is None, meta=meta,
                        note="net._ppc is None when the function is left (by return or by re-raising)")
                if cont:
                    runs = [x for x in seen if x != "repair"]
                    p.prove(f"{tag}: the repair run does not start from the data of the diverged run", len(runs) == 2 and runs[1] is None, meta=meta)
                    p.prove(f"{tag}: returns normally", not out.raised, meta=meta)
                else:
                    p.prove(f"{tag}: the error is re-raised", out.raised, meta=meta)
            vc.explore(f"_evaluate_net[{cont},{second_fails}]", h, max_paths=10)


class _ContainsNet:
    """net for _check_output_writer_recyclability: 'output_writer' in net, net.output_writer.at[0, 'object']"""

    def __init__(self, obj):
        self.obj = obj
        self.output_writer = obj.attrs["output_writer"]

    def sym_contains(self, it, key):
        return key == "output_writer"


def _standins(vc):
    if not hasattr(vc, "native_standins"):
        vc.native_standins = []
    vc.native_standins.append(dict(
        name="run_timeseries against fresh power flows of every step on fixed networks",
        bound="ConstControl profiles (3-5 steps) on trafo3w/trafo tap_pos, line length, load p, gen vm in a 5-bus network; a diverging "
              "step; several logged variables of one result table (batch reading); open transformer / line switches together with "
              "tap_pos / line length profiles (with and without neglect_open_switch_branches); a net that carries the ppc of an earlier "
              "power flow with another switching state",
        script="import sys\nfrom replaylib.timeseries_fresh import main, main_divergence, main_more\n"
               "from replaylib import run_all\nrun_all(main, main_divergence, main_more)\n",
        timeout=1500))


def classify(ob, model):
    return ob.meta.get("part", "recycle") + ":" + str(ob.meta.get("fn", ob.meta.get("element", "")))


def replay(ob, model, finding=None):
    if ob.meta.get("part") == "evaluate_net":
        return {"script": f"# replay of {ob.id}\nfrom replaylib.timeseries_fresh import main_divergence\nmain_divergence()\n",
                "description": "run_timeseries(continue_on_divergence=True) with one time step without a power flow solution: the steps after it "
                               "against fresh power flows"}
    if ob.meta.get("part") == "recycled-ends":
        return {"script": f"# replay of {ob.id}\nfrom replaylib.timeseries_fresh import main_more\nmain_more()\n",
                "description": "tap_pos / line length profiles in a net with open transformer and line switches against fresh power flows"}
    return {"script": f"# replay of {ob.id}\nfrom replaylib.timeseries_fresh import main\nmain()\n",
            "description": "run_timeseries with ConstControl on load / gen / trafo / trafo3w / line columns (with and without 2W transformers in the "
                           "net) against fresh power flows of every step"}
