"""C13 -- controller loop: tap limits, convergence meaning, initial run, level order.

Proof part (generic controlled transformer of a vectorised controller, real method text):
  * DiscreteTapControl.control_step: tap_min <= tap_pos <= tap_max is preserved, the tap moves by at most one step, the value
    written to the net is the new tap position.
  * DiscreteTapControl.is_converged: True implies for every controlled transformer with a voltage result: the voltage is inside
    (vm_lower, vm_upper) or the tap is at the limit in the direction control_step would move it.
  * ContinuousTapControl.control_step (check_tap_bounds): the written tap is inside [tap_min, tap_max];
    is_converged: True implies |1 - vm_set/vm| < tol or the tap is at the limit in the needed direction.
Bounded part (labelled bounded; lists of controller levels are unrolled: <= 3 levels with <= 2 controllers, all flags symbolic):
  * check_for_initial_run(controller_order) is True iff some controller of some level asks for an initial run;
  * control_implementation (max_iter = 2, ghost state: `dirty` = an element value was written since the last power flow):
    on normal return every controller of every level reported convergence after the last control step and no control step
    happened after the last power flow; levels are processed in list order.

Added later: TrafoController.initialize_control re-derives the direction coefficient, the tap parameters and the controlled bus from the current
network (run_initialize; single-index controllers, controlled side lv / hv).
"""
from __future__ import annotations

import z3

from pyvc.values import SV, CV, XV, PV, B, I, R, EngineError, to_z, to_pv, real, arith, compare, ite, Opaque
from pyvc.containers import PDict
from pyvc.arrays import Table, Space, Arr, subst, truth_z
from pyvc.interp import Native, ObjVal, PyRaise
from pyvc import netmodel
from contracts import ppcmodel as pm

PROP = "C13"
MIN_OBLIGATIONS = 20
DT = "pandapower.control.controller.trafo.DiscreteTapControl"
CT = "pandapower.control.controller.trafo.ContinuousTapControl"
RC = "pandapower.control.run_control"
NOT_DECIDED = ["not decided: results equal a fresh power flow beyond the ghost 'no write after the last power flow' (the power flow itself: C01/C09)",
               "not decided: other controllers (ConstControl, characteristic control, DER, shunt, station control), hunting detection",
               "bounded only: loops over the list of controller levels (<= 3 levels x <= 2 controllers, max_iter = 2)"]


def configure(it):
    pm.configure(it)


def _controller(p, modname, clsname, sp, continuous=False):
    it = p.it
    cls = it.modenv(modname).get(clsname)
    f = lambda nm, sort=R: SV(z3.Function(f"ctrl.{nm}", I, sort)(sp.i))
    vm = XV(f("vm_pu"), z3.Function("ctrl.vm_pu.isnan", I, B)(sp.i))
    tap0 = f("tap_pos", R if continuous else I)
    attrs = {"tap_side_coeff": Arr(sp, f("tap_side_coeff", I)), "tap_sign": Arr(sp, f("tap_sign", I)),
             "tap_min": Arr(sp, f("tap_min", I)), "tap_max": Arr(sp, f("tap_max", I)),
             "trafobus": Arr(sp, f("trafobus", I)), "element": "trafo", "element_index": Arr(sp, f("element_index", I)),
             "_read_write_flag": "loc", "hunting_limit": None, "_hunting_taps": Opaque("hunting"), "tap_pos": Arr(sp, tap0)}
    if continuous:
        attrs.update({"vm_set_pu": Arr(sp, f("vm_set_pu")), "tol": real("tol"), "tap_step_percent": Arr(sp, f("tap_step_percent")),
                      "t_nom": Arr(sp, f("t_nom")), "check_tap_bounds": True})
    else:
        attrs.update({"vm_lower_pu": Arr(sp, f("vm_lower_pu")), "vm_upper_pu": Arr(sp, f("vm_upper_pu"))})
    obj = ObjVal(cls, attrs)
    written = []

    def read_from_net(it, net, element, index, variable, flag="auto"):
        if variable == "vm_pu":
            return Arr(sp, vm)
        if variable == "tap_pos":
            return Arr(sp, tap0)
        raise EngineError(f"read_from_net({element}, {variable}) not expected here")

    def write_to_net(it, net, element, index, variable, values, flag="auto"):
        written.append((element, variable, values))
    for m in (modname,):
        me = it.modenv(m)
        me.vals["read_from_net"] = Native(read_from_net, name="read_from_net")
        me.vals["write_to_net"] = Native(write_to_net, name="write_to_net", pure=False)
    it.summaries["pandapower.control.controller.trafo_control:TrafoController.nothing_to_do"] = lambda it, self, net: False
    return obj, vm, tap0, written, f


TC = "pandapower.control.controller.trafo_control"


def run_initialize(vc):
    """TrafoController.initialize_control (run by run_control before the first control step): the direction coefficient and the tap
    parameters the control step and the convergence test work with are those of the *current* network -- 'the needed direction' of
    the property is the physical one: with the tap changer on the controlled side a higher tap lowers the controlled voltage (for a
    positive tap_step_percent), on the other side it raises it."""
    for side in ("lv", "hv"):
        def h(p, side=side):
            it = p.it
            cls = it.modenv(TC).get("TrafoController")
            idx = SV(z3.Int("trafo_idx"))
            col = lambda nm, sort=R: SV(z3.Function(f"trafo.{nm}", I, sort)(idx.z))
            stale = lambda nm, sort=R: SV(z3.Const(f"stale.{nm}", sort))
            attrs = {"element": "trafo", "element_index": idx, "side": side, "_read_write_flag": "single_index", "trafobus": stale("trafobus", I),
                     "tap_side_coeff": stale("tap_side_coeff", I)}
            for nm in ("tap_min", "tap_max", "tap_neutral", "tap_step_percent", "tap_step_degree", "tap_pos"):
                attrs[nm] = stale(nm)
            obj = ObjVal(cls, attrs)

            def read_from_net(it, net, element, index, variable, flag="auto"):
                if element != "trafo" or index is not idx:
                    raise EngineError("read_from_net of another element")
                if variable == "tap_side":
                    return col("tap_side", PV)
                if variable == "in_service":
                    return col("in_service", B)
                if variable.endswith("_bus"):
                    return col(variable, I)
                return col(variable)
            me = it.modenv(TC)
            me.vals["read_from_net"] = Native(read_from_net, name="read_from_net")
            me.vals["_detect_read_write_flag"] = Native(lambda it, *a, **k: ("single_index", None), name="_detect_read_write_flag")
            it.summaries[f"{TC}:TrafoController.nothing_to_do"] = lambda it, self, net: False
            ts = col("tap_side", PV).z
            p.assume(z3.Or(ts == to_pv("hv"), ts == to_pv("lv")))
            p.fn(f"{TC}:TrafoController._set_tap_side_coeff"); p.fn(f"{TC}:TrafoController._set_tap_parameters")
            it.call(it.getattr(obj, "initialize_control"), [Opaque("net")], {})
            p.fn(f"{TC}:TrafoController.initialize_control")
            meta = dict(part="initialize")
            on_ctrl_side = ts == to_pv(side)
            step_neg = to_z(col("tap_step_percent"), R) < 0
            # +1: a higher tap lowers the controlled voltage; -1: it raises it; a negative step per tap reverses the effect
            want = z3.If(on_ctrl_side, -1, 1) * z3.If(step_neg, -1, 1)
            got = it.getattr(obj, "tap_side_coeff")
            p.prove(f"initialize[{side}]: the direction coefficient is derived from the network's current tap_side and tap_step_percent",
                    to_z(got, I) == want, meta=meta, note="a coefficient kept from the time the controller was created moves the tap the wrong way "
                                                          "after the tap side or the sign of the step was edited")
            for nm in ("tap_min", "tap_max", "tap_neutral", "tap_step_percent"):
                p.prove(f"initialize[{side}]: {nm} is the network's current value", to_z(it.getattr(obj, nm), R) == to_z(col(nm), R), meta=meta)
            p.prove(f"initialize[{side}]: the controlled bus is the transformer's current {side} bus",
                    to_z(it.getattr(obj, "trafobus"), I) == to_z(col(side + "_bus", I), I), meta=meta)
        vc.explore(f"TrafoController.initialize_control[{side}]", h, max_paths=40)


def run(vc):
    vc.configure = configure
    vc.trust("read_from_net / write_to_net read and write the named column of the controlled elements (pandapower.auxiliary)",
             "TrafoController.nothing_to_do is False for controllers with controlled, in-service elements")
    vc.assume_std("A-REAL", "A-GENERIC", "A-NUMPY")
    sp = Space.get("ctrl")

    def direction(f, vm, lower, upper):
        """unconstrained direction of a tap step: sign convention of control_step (tap_side_coeff * tap_sign)"""
        same = to_z(f("tap_side_coeff", I)) * to_z(f("tap_sign", I)) == 1
        low = z3.And(z3.Not(vm.nan), to_z(vm.v) < to_z(lower))
        high = z3.And(z3.Not(vm.nan), to_z(vm.v) > to_z(upper))
        d = z3.If(same, z3.If(low, -1, z3.If(high, 1, 0)), z3.If(low, 1, z3.If(high, -1, 0)))
        return d, low, high

    def h_dstep(p):
        obj, vm, tap0, written, f = _controller(p, DT, "DiscreteTapControl", sp)
        tmin, tmax = to_z(f("tap_min", I)), to_z(f("tap_max", I))
        p.assume(z3.And(tmin <= to_z(tap0), to_z(tap0) <= tmax))
        p.assume(to_z(f("vm_lower_pu")) <= to_z(f("vm_upper_pu")))
        p.assume(z3.Or(to_z(f("tap_side_coeff", I)) == 1, to_z(f("tap_side_coeff", I)) == -1))
        p.assume(z3.Or(to_z(f("tap_sign", I)) == 1, to_z(f("tap_sign", I)) == -1))
        p.it.call(p.it.getattr(obj, "control_step"), [Opaque("net")], {})
        p.fn(f"{DT}:DiscreteTapControl.control_step")
        p.prove("discrete:one-write", len(written) == 1 and written[0][:2] == ("trafo", "tap_pos"))
        new = written[0][2].e if written else None
        nz = to_z(new, I)
        p.prove("discrete:tap-within-limits", z3.And(tmin <= nz, nz <= tmax), note="tap_min <= tap_pos' <= tap_max")
        p.prove("discrete:single-step", z3.And(nz - to_z(tap0) <= 1, to_z(tap0) - nz <= 1))
        d, low, high = direction(f, vm, f("vm_lower_pu"), f("vm_upper_pu"))
        p.prove("discrete:step-direction", nz == to_z(tap0) + z3.If(z3.And(d == -1, to_z(tap0) > tmin), -1, z3.If(z3.And(d == 1, to_z(tap0) < tmax), 1, 0)),
                note="one step in the needed direction unless the limit is reached")
        p.prove("discrete:attribute-is-written-value", z3.eq(to_z(p.it.getattr(obj, "tap_pos").e), to_z(new)))
    vc.explore("DiscreteTapControl.control_step", h_dstep, max_paths=20)

    def h_dconv(p):
        obj, vm, tap0, written, f = _controller(p, DT, "DiscreteTapControl", sp)
        tmin, tmax = to_z(f("tap_min", I)), to_z(f("tap_max", I))
        p.assume(z3.Or(to_z(f("tap_side_coeff", I)) == 1, to_z(f("tap_side_coeff", I)) == -1))
        p.assume(z3.Or(to_z(f("tap_sign", I)) == 1, to_z(f("tap_sign", I)) == -1))
        p.assume(to_z(f("vm_lower_pu")) <= to_z(f("vm_upper_pu")))
        r = p.it.call(p.it.getattr(obj, "is_converged"), [Opaque("net")], {})
        p.fn(f"{DT}:DiscreteTapControl.is_converged")
        d, low, high = direction(f, vm, f("vm_lower_pu"), f("vm_upper_pu"))
        inband = z3.And(z3.Not(vm.nan), to_z(f("vm_lower_pu")) < to_z(vm.v), to_z(vm.v) < to_z(f("vm_upper_pu")))
        atlimit = z3.Or(z3.And(d == -1, to_z(tap0) == tmin), z3.And(d == 1, to_z(tap0) == tmax))
        p.prove("discrete:converged-means-band-or-limit", z3.Implies(truth_z(r), z3.Or(vm.nan, inband, atlimit)),
                note="reported convergence: voltage inside the band or tap at the limit in the needed direction (or no voltage result)")
        p.prove("discrete:convergence-read-only", not written)
    vc.explore("DiscreteTapControl.is_converged", h_dconv, max_paths=20)

    def h_cstep(p):
        obj, vm, tap0, written, f = _controller(p, CT, "ContinuousTapControl", sp, continuous=True)
        tmin, tmax = to_z(f("tap_min", I)), to_z(f("tap_max", I))
        p.assume(tmin <= tmax)
        p.assume(z3.Not(vm.nan))
        net = netmodel.Net({"trafo": pm.table("trafo", {"tap_pos": R})}, strict=True)
        p.it.call(p.it.getattr(obj, "control_step"), [net], {})
        p.fn(f"{CT}:ContinuousTapControl.control_step")
        tw = [w for w in written if w[1] == "tap_pos"]
        p.prove("continuous:one-write", len(tw) == 1)
        if tw:
            ne = tw[0][2].e
            nz = to_z(ne.v if isinstance(ne, XV) else ne, R)
            p.prove("continuous:tap-within-limits", z3.And(z3.ToReal(tmin) <= nz, nz <= z3.ToReal(tmax)))
    vc.explore("ContinuousTapControl.control_step", h_cstep, max_paths=40)

    def h_cconv(p):
        obj, vm, tap0, written, f = _controller(p, CT, "ContinuousTapControl", sp, continuous=True)
        tmin, tmax = to_z(f("tap_min", I)), to_z(f("tap_max", I))
        p.assume(z3.Or(to_z(f("tap_side_coeff", I)) == 1, to_z(f("tap_side_coeff", I)) == -1))
        p.assume(z3.Or(to_z(f("tap_sign", I)) == 1, to_z(f("tap_sign", I)) == -1))
        p.assume(z3.Or(vm.nan, to_z(vm.v) != 0))
        r = p.it.call(p.it.getattr(obj, "is_converged"), [Opaque("net")], {})
        p.fn(f"{CT}:ContinuousTapControl.is_converged")
        d, low, high = direction(f, vm, f("vm_set_pu"), f("vm_set_pu"))
        diff = 1 - to_z(f("vm_set_pu")) / to_z(vm.v)
        within = z3.And(z3.Not(vm.nan), z3.If(diff >= 0, diff, -diff) < real("tol").z)
        atlimit = z3.Or(z3.And(d == -1, to_z(tap0, R) == z3.ToReal(tmin)), z3.And(d == 1, to_z(tap0, R) == z3.ToReal(tmax)))
        p.prove("continuous:converged-means-tolerance-or-limit", z3.Implies(truth_z(r), z3.Or(vm.nan, within, atlimit)))
    vc.explore("ContinuousTapControl.is_converged", h_cconv, max_paths=20)
    run_initialize(vc)

    # ---- bounded: loops over the list of levels -----------------------------------------------------------------------
    vc.bounded.append({"function": f"{RC}:check_for_initial_run / control_implementation",
                       "bound": "controller_order with 1..3 levels of 1..2 controllers each (all controller flags symbolic), max_iter = 2"})
    for shape in ((1,), (2,), (1, 1), (2, 1), (1, 2), (1, 1, 1), (2, 2, 1)):
        def h_init(p, shape=shape):
            flags = []
            order = []
            ctab = pm.table("controller", {"initial_run": B})
            net = netmodel.Net({"controller": ctab}, strict=True)
            k = 0
            for lv, n in enumerate(shape):
                level = []
                for j in range(n):
                    fl = SV(z3.Bool(f"initial_run[{lv},{j}]"))
                    flags.append(fl)
                    level.append((ObjVal(None, {"index": SV(z3.IntVal(k))}), _FlagNet(fl)))
                    k += 1
                order.append(level)
            out = p.call(f"{RC}:check_for_initial_run", order)
            if out.raised:
                raise EngineError(f"check_for_initial_run raised {out.exc!r}")
            p.prove(f"initial-run{list(shape)}", truth_z(out.value) == z3.Or(*[x.z for x in flags]), kind="bounded",
                    note="an initial power flow is requested iff some controller of some level asks for it", meta=dict(part="initial-run"))
        vc.explore(f"check_for_initial_run{list(shape)}", h_init, max_paths=300)
    _loop_harnesses(vc)


def _loop_harnesses(vc):
    for shape in ((1,), (2,), (1, 1), (2, 1)):
        for check_each_level in (True, False):
            def h_loop(p, shape=shape, check_each_level=check_each_level):
                events = []          # ("conv", level, k, z3 bool) / ("step", level, k) / ("pf",)
                cnt = [0]
                netd = PDict({"converged": True})

                def mk(level, k):
                    def is_converged(it, net):
                        cnt[0] += 1
                        b = z3.Bool(f"conv[{level},{k}]#{cnt[0]}")
                        r = it.ctx.decide(b, tag=f"controller {level}.{k} reports convergence")
                        events.append(("conv", level, k, r))
                        return r

                    def control_step(it, net):
                        events.append(("step", level, k))
                    return ObjVal(None, {"is_converged": Native(is_converged, name="is_converged", pure=False),
                                         "control_step": Native(control_step, name="control_step", pure=False),
                                         "level_reset": Native(lambda it, net: None, name="level_reset", pure=False),
                                         "repair_control": Native(lambda it, net: None, name="repair_control", pure=False)})
                order = [[(mk(lv, k), netd) for k in range(n)] for lv, n in enumerate(shape)]

                def run_funct(it, net, **kw):
                    cnt[0] += 1
                    ok = it.ctx.decide(z3.Bool(f"pf_converges#{cnt[0]}"), tag="power flow converges")
                    events.append(("pf", ok))
                    net.set("converged", ok)
                    if not ok:
                        exc = it.call(it.modenv("pandapower.powerflow").get("LoadflowNotConverged"), ["not converged"], {})
                        raise PyRaise(exc)
                errors = (p.it.modenv("pandapower.powerflow").get("LoadflowNotConverged"),)
                cv = PDict({"run": Native(run_funct, name="run", pure=False), "errors": errors, "converged": True,
                            "continue_on_divergence": False, "check_each_level": check_each_level})
                out = p.call(f"{RC}:control_implementation", netd, order, cv, 2)
                tag = f"loop{list(shape)},each={check_each_level}"
                if out.raised:
                    nm = getattr(getattr(out.exc, "cls", None), "name", type(out.exc).__name__)
                    p.prove(f"{tag}:raises-only-not-converged", nm in ("ControllerNotConverged", "NetCalculationNotConverged", "LoadflowNotConverged"),
                            kind="bounded", note=f"raised {nm}", meta=dict(part="loop"))
                    return
                # normal return
                dirty = False
                for e in events:
                    if e[0] == "step":
                        dirty = True
                    elif e[0] == "pf":
                        dirty = False
                p.prove(f"{tag}:no-control-step-after-last-power-flow", not dirty, kind="bounded", meta=dict(part="loop"))
                levels = [e[1] for e in events if e[0] in ("conv", "step")]
                p.prove(f"{tag}:levels-in-order", levels == sorted(levels), kind="bounded", meta=dict(part="loop"))
                ok_all = True
                for lv, n in enumerate(shape):
                    if not check_each_level and lv != len(shape) - 1:
                        continue
                    for k in range(n):
                        last = [e for e in events if e[0] in ("conv", "step") and e[1] == lv and e[2] == k]
                        ok_all = ok_all and bool(last) and last[-1][0] == "conv" and last[-1][3] is True
                p.prove(f"{tag}:every-controller-converged-at-exit", ok_all, kind="bounded", meta=dict(part="loop"),
                        note="on normal return the last event of every controller is a positive convergence report")
            vc.explore(f"control_implementation{list(shape)},{check_each_level}", h_loop, max_paths=6000)


class _FlagNet:
    """net seen by check_for_initial_run: net.controller.at[idx, 'initial_run'] is the flag of the controller it is paired with"""

    def __init__(self, flag):
        self.flag = flag
        self.controller = self
        self.at = self

    def sym_getitem(self, it, key):
        return self.flag

    def sym_setitem(self, it, key, val):
        raise EngineError("store into net.controller")


def classify(ob, model):
    return ob.meta.get("part", ob.id.split("/")[1].split(".")[0])


def replay(ob, model, finding=None):
    if ob.meta.get("part") == "initialize":
        return {"script": f"# replay of {ob.id}\nfrom replaylib.controlloop import main_edited\nmain_edited()\n",
                "description": "tap controllers on a network whose tap side / step sign is edited after the controller was created: voltage in band "
                               "or tap at the limit in the physically needed direction"}
    return {"script": f"# replay of {ob.id}\nfrom replaylib.controlloop import main\nmain()\n",
            "description": "run_control on networks with tap controllers on several levels / repeated calls: results equal a fresh power flow, "
                           "taps within limits, voltage in band or tap at limit"}
