"""C11 -- three-phase power flow: the symmetrical-component transformation used for all three-phase results.

Functions / constants under contract (real text of pandapower.auxiliary): a, asq, Tabc, T012, sequence_to_phase, phase_to_sequence,
S_from_VI_elementwise.

With the exact values cos(120 deg) = -1/2, sin(120 deg) = sqrt(3)/2 (assumed for the module constants a = exp(j 120 deg),
asq = exp(-j 120 deg)), for 3 x n arrays with arbitrary complex columns (generic column):
  * phase_to_sequence and sequence_to_phase are inverse to each other (nothing is lost or mixed between the sequence solution and the
    phase results);
  * a purely positive-sequence solution (V0 = V2 = 0, I0 = I2 = 0 -- what a network with only symmetric loads and generation has, the
    sequence networks being decoupled) gives phase quantities of equal magnitude, phase b = a^2 * phase a, phase c = a * phase a
    (-120 / +120 degrees), and per-phase complex powers V conj(I) that are equal in the three phases (one third of the total each);
  * for any solution the phase powers add up to 3 (V0 conj(I0) + V1 conj(I1) + V2 conj(I2)) (power invariance up to the factor 3).
"""
from __future__ import annotations

import z3

from pyvc.values import SV, CV, XV, PV, B, I, R, EngineError, to_z, real, Opaque
from pyvc.arrays import Space, Arr
from pyvc.lib_np import Rows
from contracts import ppcmodel as pm

PROP = "C11"
MIN_OBLIGATIONS = 12
AUX = "pandapower.auxiliary"
NOT_DECIDED = ["not decided: the sequence iteration of runpp_3ph (three coupled Newton solutions), the zero-sequence network build (pd2ppc_zero), "
               "the *_3ph result functions beyond the transformation they all use, nodal balance of the solution (the injections it is "
               "solved for are under contract: C11_loads), equality with the symmetric "
               "power flow (that V1 of the 3ph calculation is the solution of runpp)"]


def configure(it):
    pm.configure(it)


def _cx(name, sp):
    return Arr(sp, CV(SV(z3.Function(f"{name}.re", I, R)(sp.i)), SV(z3.Function(f"{name}.im", I, R)(sp.i))))


def _trig(p):
    """exact values of the module constants a = exp(j 120 deg), asq = exp(-j 120 deg)"""
    me = p.it.modenv(AUX)
    a, asq = me.get("a"), me.get("asq")
    s3 = z3.Real("sqrt3")
    p.assume(z3.And(s3 > 0, s3 * s3 == 3))
    for c, im_sign in ((a, 1), (asq, -1)):
        c = c if isinstance(c, CV) else CV(c, 0)
        p.assume(z3.And(to_z(c.re, R) == z3.RealVal(-1) / 2, to_z(c.im, R) == im_sign * s3 / 2))
    return a, asq


def _eq(p, label, got, want, **kw):
    g = got if isinstance(got, CV) else CV(got, 0)
    w = want if isinstance(want, CV) else CV(want, 0)
    p.prove(label, z3.And(to_z(g.re, R) == to_z(w.re, R), to_z(g.im, R) == to_z(w.im, R)), kind="lemma", **kw)


def run(vc):
    vc.configure = configure
    vc.trust("cos(120 deg) = -1/2, sin(120 deg) = sqrt(3)/2 (values of the module constants a, asq); np.matmul of a 3x3 matrix with a 3xn array")
    vc.assume_std("A-REAL", "A-GENERIC", "A-NUMPY")
    sp = Space.get("col")

    def h_inv(p):
        _trig(p)
        X = Rows([_cx(n, sp) for n in ("xa", "xb", "xc")])
        s = p.call(f"{AUX}:phase_to_sequence", X)
        back = p.call(f"{AUX}:sequence_to_phase", s.value)
        for k, nm in enumerate("abc"):
            _eq(p, f"inverse:abc->012->abc[{nm}]", back.value.rows[k].e, X.rows[k].e, meta=dict(part="inverse"))
        s2 = p.call(f"{AUX}:sequence_to_phase", X)
        back2 = p.call(f"{AUX}:phase_to_sequence", s2.value)
        for k in range(3):
            _eq(p, f"inverse:012->abc->012[{k}]", back2.value.rows[k].e, X.rows[k].e, meta=dict(part="inverse"))
    vc.explore("sequence transformation[inverse]", h_inv, max_paths=4)

    def h_bal(p):
        a, asq = _trig(p)
        zero = Arr(sp, CV(0.0, 0.0))
        V1, I1 = _cx("v1", sp), _cx("i1", sp)
        V = p.call(f"{AUX}:sequence_to_phase", Rows([zero, V1, zero])).value
        Ic = p.call(f"{AUX}:sequence_to_phase", Rows([zero, I1, zero])).value
        va, vb, vc_ = (V.rows[k].e for k in range(3))
        _eq(p, "balanced:phase-a-is-positive-sequence", va, V1.e, meta=dict(part="balanced"))
        _eq(p, "balanced:phase-b-lags-120-degrees", vb, p.it.binop("*", asq, V1.e), meta=dict(part="balanced"))
        _eq(p, "balanced:phase-c-leads-120-degrees", vc_, p.it.binop("*", a, V1.e), meta=dict(part="balanced"))
        n2 = lambda c: to_z(c.re, R) * to_z(c.re, R) + to_z(c.im, R) * to_z(c.im, R)
        p.prove("balanced:equal-magnitudes", z3.And(n2(va) == n2(vb), n2(vb) == n2(vc_)), kind="lemma", meta=dict(part="balanced"))
        S = p.call(f"{AUX}:S_from_VI_elementwise", V, Ic).value
        s1 = p.it.binop("*", V1.e, I1.e.conj())
        for k, nm in enumerate("abc"):
            _eq(p, f"balanced:power-of-phase-{nm}-is-one-third-of-the-total", S.rows[k].e, s1, meta=dict(part="balanced"),
                note="V conj(I) of every phase equals V1 conj(I1); the three-phase total is 3 V1 conj(I1)")
    vc.explore("sequence transformation[balanced]", h_bal, max_paths=4)

    def h_pow(p):
        _trig(p)
        V012 = [_cx(f"v{k}", sp) for k in range(3)]
        I012 = [_cx(f"i{k}", sp) for k in range(3)]
        V = p.call(f"{AUX}:sequence_to_phase", Rows(V012)).value
        Ic = p.call(f"{AUX}:sequence_to_phase", Rows(I012)).value
        S = p.call(f"{AUX}:S_from_VI_elementwise", V, Ic).value
        tot = None
        for k in range(3):
            tot = S.rows[k].e if tot is None else p.it.binop("+", tot, S.rows[k].e)
        seq = None
        for k in range(3):
            t = p.it.binop("*", V012[k].e, I012[k].e.conj())
            seq = t if seq is None else p.it.binop("+", seq, t)
        _eq(p, "power-invariance:sum-of-phase-powers", tot, p.it.binop("*", 3, seq), meta=dict(part="power"),
            note="Sa + Sb + Sc == 3 (V0 I0* + V1 I1* + V2 I2*): per-phase powers of an element sum to its total")
    vc.explore("sequence transformation[power]", h_pow, max_paths=4)


    from contracts import C11_loads
    C11_loads.run(vc)

    if not hasattr(vc, "native_standins"):
        vc.native_standins = []
    vc.native_standins.append(dict(
        name="runpp_3ph against runpp on a fixed symmetric network",
        bound="one 110/20 kV network (YNyn transformer, two lines with zero-sequence data, symmetric loads and sgen): phase magnitudes equal the "
              "symmetric power flow, phase angles -120 / +120 degrees, per-phase line powers one third of the symmetric result; the same network "
              "with load / sgen / asymmetric load at the ext_grid bus (per-phase balance at the slack bus), an out-of-service ext_grid listed "
              "first, two ext_grids at one bus, sgens of type 'PV' / None",
        script="import sys\nfrom replaylib.threephase import main, main_more\n"
               "from replaylib import run_all\nrun_all(main, main_more)\n"))


def classify(ob, model):
    return ob.meta.get("part", "")


def replay(ob, model, finding=None):
    return {"script": f"# replay of {ob.id}\nfrom replaylib.threephase import main\nmain()\n",
            "description": "runpp_3ph on a symmetric network against runpp: equal phase magnitudes, -120/+120 degrees, one third of the power per phase"}
