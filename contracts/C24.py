"""C24 -- creating elements in batch equals creating them one by one.

Relational contracts on the real create functions: the single-call function is run for the generic element of the batch (its
arguments are the generic row of the batch arguments), the batch function for the whole batch; the dicts handed to
_set_entries / _set_multiple_entries (resp. the one-row frame of create_transformer3w) are compared column by column:

    present in both and equal  |  absent / NaN / None in both

Pairs under contract: create_transformer3w_from_parameters / create_transformers3w_from_parameters (all parameters incl. the tap
position default), create_transformer3w / create_transformers3w and create_transformer / create_transformers and create_line /
create_lines (all values taken from the standard type, type given as a dict with symbolic values and presence).
Rejection: _costs_existance_check (batch) counts a cost iff the sequence of single _cost_existance_check calls rejects it.
Bounded stand-in (labelled bounded): the other create pairs are compared natively on fixed argument vectors
(replaylib.createpairs).
"""
from __future__ import annotations

import z3

from pyvc.values import SV, CV, XV, PV, B, I, R, EngineError, to_z, to_pv, real, arith, compare, ite, Opaque
from pyvc.containers import PDict
from pyvc.arrays import Table, Space, Arr, Series, subst, truth_z, is_scalar
from pyvc import netmodel
from contracts import ppcmodel as pm
from contracts import C25

PROP = "C24"
MIN_OBLIGATIONS = 400
TC = "pandapower.create.trafo_create"
LC = "pandapower.create.line_create"
NOT_DECIDED = ["bounded stand-in only (fixed vectors, replaylib.createpairs): switches, poly/pwl cost rows, sgens, create_line(s)_from_parameters, "
               "create_transformer(s)_from_parameters; non-existent buses and duplicate indices (the checks are shared helper functions)",
               "buses (NaN voltage limits and the documented defaults 0.0 / 2.0 count as the same value), loads, gens, storages, shunts, wards, impedances (sgens: bounded only, generator_type dispatch on a pandas string Series): string-valued parameters (name, type, generator_type, curve_style) keep their "
               "defaults in both calls; argument values the single call refuses (UserWarning) are outside the compared domain"]

KNOWN = "C24/create_transformers-drops-std-type-tap-and-shift"
TRAFO_DROPPED = ("shift_degree", "tap_side", "tap_neutral", "tap_min", "tap_max", "tap_step_percent", "tap_step_degree", "tap_changer_type",
                 "tap_pos")


def _excl_trafo_std(ob):
    """create_transformers does not pass shift_degree / tap changer data of the standard type on (pinned by test_create.py)"""
    if ob.meta.get("pair") == "trafo-std" and ob.meta.get("col") in TRAFO_DROPPED:
        return True
    return None


KNOWN_EXCLUSIONS = {KNOWN: _excl_trafo_std}


def configure(it):
    pm.configure(it)


def _summaries(it, sp):
    cap = {"single": [], "batch": []}

    def set_entries(it, net, table, index, preserve_dtypes=True, entries=None):
        cap["single"].append(entries)

    def set_multiple(it, net, table, index, preserve_dtypes=True, defaults_to_fill=None, entries=None):
        cap["batch"].append(entries)
    U = "pandapower.create._utils"
    it.summaries[f"{U}:_set_entries"] = set_entries
    it.summaries[f"{U}:_set_multiple_entries"] = set_multiple
    for nm in ("_check_branch_element", "_check_element", "_check_multiple_branch_elements", "_check_multiple_elements", "_add_branch_geodata",
               "_add_multiple_branch_geodata"):
        it.summaries[f"{U}:{nm}"] = lambda it, *a, **k: None
    it.summaries[f"{U}:_get_index_with_check"] = lambda it, net, table, index, name=None: SV(z3.Function("new_index", I, I)(sp.i))
    it.summaries[f"{U}:_get_multiple_index_with_check"] = lambda it, net, table, index, number, name=None: Arr(sp, SV(z3.Function("new_index", I, I)(sp.i)))

    # contract of the optional-column helpers: a value is written iff it is not NaN / None (else the column default)
    def set_value_if_not_nan(it, net, index, value, column, element_type, dtype=None, default_val=float("nan")):
        cap["single"][-1].set(column, _opt(value, default_val)) if cap["single"] else None

    def add_to_entries_if_not_nan(it, net, element_type, entries, index, column, values, dtype=None, default_val=float("nan")):
        v = values.arr() if isinstance(values, Series) else values
        entries.set(column, _opt(v.e if isinstance(v, Arr) else v, default_val))
    it.summaries[f"{U}:_set_value_if_not_nan"] = set_value_if_not_nan
    it.summaries[f"{U}:_add_to_entries_if_not_nan"] = add_to_entries_if_not_nan
    return cap


def _opt(value, default):
    """value if it is given (not NaN / None) else the default of the column"""
    if value is None:
        return default
    if isinstance(value, float) and value != value:
        return default
    if isinstance(value, XV):
        d = XV.of(default) if not (default is None) else XV(0, True)
        if isinstance(value.nan, bool):
            return d if value.nan else value
        return XV(ite(SV(value.nan), d.v, value.v), z3.And(value.nan, d.nan if not isinstance(d.nan, bool) else z3.BoolVal(d.nan)))
    return value


def _elem(v):
    if isinstance(v, Series):
        v = v.arr()
    return v.e if isinstance(v, Arr) else v


def _absent(v):
    """z3: the value means 'nothing' (None / NaN)"""
    if v is None:
        return z3.BoolVal(True)
    if isinstance(v, float) and v != v:
        return z3.BoolVal(True)
    if isinstance(v, XV):
        return v.nan if not isinstance(v.nan, bool) else z3.BoolVal(v.nan)
    if isinstance(v, SV) and v.is_pv():
        return PV.is_none(v.z)
    return z3.BoolVal(False)


def _pres(d, k):
    pr = d.presence(k)
    return z3.BoolVal(pr) if isinstance(pr, bool) else pr


def compare_entries(p, tag, single, batch, cols, pair, skip=()):
    for c in cols:
        if c in skip:
            continue
        ps, pb = _pres(single, c), _pres(batch, c)
        sv = _elem(single.raw(c)) if single.presence(c) is not False else None
        bv = _elem(batch.raw(c)) if batch.presence(c) is not False else None
        s_abs = z3.Or(z3.Not(ps), _absent(sv))
        b_abs = z3.Or(z3.Not(pb), _absent(bv))
        isnanf = lambda v: isinstance(v, float) and v != v
        if isnanf(sv) or isnanf(bv):
            same = z3.BoolVal(False)
        elif sv is None or bv is None or isinstance(sv, Opaque) or isinstance(bv, Opaque):
            same = z3.BoolVal(False) if not (isinstance(sv, Opaque) or isinstance(bv, Opaque)) else None
            if same is None:
                raise EngineError(f"{tag}: value of {c} is unknown to the engine ({sv!r} / {bv!r})")
        else:
            same = C25._eqv(sv, bv)
        p.prove(f"{tag}:{c}", z3.Or(z3.And(s_abs, b_abs), z3.And(z3.Not(s_abs), z3.Not(b_abs), same)),
                meta=dict(pair=pair, col=c), note=f"{c}: the batch call hands the same value to the element table as the single call")


def run(vc):
    vc.configure = configure
    vc.trust("_set_entries / _set_multiple_entries / pd.DataFrame(entries) write the dict they receive; _set_value_if_not_nan / "
             "_add_to_entries_if_not_nan write a value iff it is not NaN / None (contract of the helpers, pandas code)",
             "a NaN argument of a single create call is numpy's nan object (`x is nan`)")
    vc.assume_std("A-REAL", "A-GENERIC")
    sp = Space.get("batch")

    def col(name, sort=R, nan=False):
        f = z3.Function(f"arg.{name}", I, sort)(sp.i)
        if nan:
            return XV(SV(f), z3.Function(f"arg.{name}.isnan", I, B)(sp.i))
        return SV(f)

    # ---- trafo3w from parameters -----------------------------------------------------------------------------------
    T3_REAL = ["vn_hv_kv", "vn_mv_kv", "vn_lv_kv", "sn_hv_mva", "sn_mv_mva", "sn_lv_mva", "vk_hv_percent", "vk_mv_percent", "vk_lv_percent",
               "vkr_hv_percent", "vkr_mv_percent", "vkr_lv_percent", "pfe_kw", "i0_percent", "shift_mv_degree", "shift_lv_degree"]
    T3_NAN = ["tap_step_percent", "tap_step_degree", "tap_pos", "tap_neutral", "tap_max", "tap_min"]

    def h_t3par(p):
        cap = _summaries(p.it, sp)
        net = netmodel.Net({"bus": pm.table("bus", {"vn_kv": R}), "trafo3w": Opaque("net.trafo3w")}, strict=True)
        args = {c: col(c) for c in T3_REAL}
        args.update({c: col(c, nan=True) for c in T3_NAN})
        args["tap_side"] = col("tap_side", PV)
        buses = {b: col(b, I) for b in ("hv_bus", "mv_bus", "lv_bus")}
        s = p.call(f"{TC}:create_transformer3w_from_parameters", net, buses["hv_bus"], buses["mv_bus"], buses["lv_bus"], **args)
        if s.raised:
            if C25_input_error(s.exc):
                return
            p.prove("t3par:single-no-exception", False, note=f"raised {s.exc!r}")
            return
        bargs = {k: Arr(sp, v) for k, v in args.items()}
        b = p.call(f"{TC}:create_transformers3w_from_parameters", net, Arr(sp, buses["hv_bus"]), Arr(sp, buses["mv_bus"]), Arr(sp, buses["lv_bus"]),
                   **bargs)
        if b.raised:
            if C25_input_error(b.exc):
                return
            p.prove("t3par:batch-no-exception", False, note=f"raised {b.exc!r}", meta=dict(pair="t3-par"))
            return
        if len(cap["single"]) != 1 or len(cap["batch"]) != 1:
            raise EngineError(f"entries captured: {len(cap['single'])} / {len(cap['batch'])}")
        compare_entries(p, "t3par", cap["single"][0], cap["batch"][0], T3_REAL + T3_NAN + ["tap_side", "hv_bus", "mv_bus", "lv_bus"], "t3-par")
    vc.explore("create_transformer(s)3w_from_parameters", h_t3par, max_paths=200)

    # ---- from standard types ---------------------------------------------------------------------------------------
    def std_pair(element, single_fn, batch_fn, nbus, pair, extra_single=None, extra_batch=None):
        def h(p):
            cap = _summaries(p.it, sp)
            data, pres = C25.sym_type(element, "T")
            C25.wellformed(p, element, pres)
            tab = C25.sym_table(element)
            net = netmodel.Net({"std_types": PDict({element: PDict({"new": data})}), element: tab, "bus": pm.table("bus", {"vn_kv": R})},
                               strict=True)
            buses = [col(f"bus{k}", I) for k in range(nbus)]
            tap_pos = col("tap_pos", nan=True)
            sa = list(buses) + ([real("length_km")] if element == "line" else []) + ["new"]
            ba = [Arr(sp, b) for b in buses] + ([Arr(sp, col("length_km"))] if element == "line" else []) + ["new"]
            kw_s = {} if element == "line" else {"tap_pos": tap_pos}
            kw_b = {} if element == "line" else {"tap_pos": Arr(sp, tap_pos)}
            s = p.call(single_fn, net, *sa, **kw_s)
            if s.raised:
                if C25_input_error(s.exc):
                    return
                p.prove(f"{pair}:single-no-exception", False, note=f"raised {s.exc!r}", meta=dict(pair=pair))
                return
            frames = p.it.ctx.ghost.get("dataframe_ctor", [])
            single = cap["single"][0] if cap["single"] else (frames[0]["data"] if frames else None)
            if not isinstance(single, PDict):
                raise EngineError("single create call: entries not captured")
            b = p.call(batch_fn, net, *ba, **kw_b)
            if b.raised:
                if C25_input_error(b.exc):
                    return
                p.prove(f"{pair}:batch-no-exception", False, note=f"raised {b.exc!r}", meta=dict(pair=pair))
                return
            if len(cap["batch"]) != 1:
                raise EngineError(f"batch create call: {len(cap['batch'])} entry dicts")
            spec = C25.TYPES[element]
            cols = [c for c in spec["required"] + spec["optional"] if c in tab.cols and c not in ("q_mm2", "alpha")]
            if element != "line":
                cols.append("tap_pos")
            compare_entries(p, pair, single, cap["batch"][0], cols, pair)
        return h
    vc.explore("create_transformer(s)3w [std type]", std_pair("trafo3w", f"{TC}:create_transformer3w", f"{TC}:create_transformers3w", 3, "t3-std"),
               max_paths=400)
    vc.explore("create_line(s) [std type]", std_pair("line", f"{LC}:create_line", f"{LC}:create_lines", 2, "line-std"), max_paths=200)
    vc.explore("create_transformer(s) [std type]", std_pair("trafo", f"{TC}:create_transformer", f"{TC}:create_transformers", 2, "trafo-std"),
               max_paths=400)


    # ---- the pairs that take their parameters as arguments (signatures read from the source) ----------------------------------
    from contracts import C24_pairs
    import sys
    C24_pairs.add(vc, sys.modules[__name__], sp)

    # ---- bounded stand-in for the remaining pairs and the rejection behaviour -------------------------------------------------
    if not hasattr(vc, "native_standins"):
        vc.native_standins = []
    vc.native_standins.append(dict(
        name="create pairs on fixed argument vectors",
        bound="one fixed two-element argument vector per create pair (bus, load, sgen, gen, storage, shunt, ward, switch, impedance, line, trafo, "
              "trafo3w, poly_cost, pwl_cost) and 8 rejection scenarios (duplicate costs, non-existent bus, duplicate index); the listed known "
              "finding (create_transformers from a standard type) is excluded",
        script="from replaylib.createpairs import main_pairs\nmain_pairs(None, skip=('create_transformer(s) from',))\n"))
    vc.native_standins.append(dict(
        name="create pairs on argument vectors generated from the real signatures",
        bound="load, sgen, gen, storage, shunt, ward, impedance: 3-element vectors for every numeric / flag parameter of the signature, 3 patterns "
              "(all given, optional ones NaN in odd rows, required only) x 2 (empty table, table with a row that has every optional column)",
        script="from replaylib.createpairs import main_parpairs_all\nmain_parpairs_all(skip=('line', 'trafo'))\n"))
    vc.native_standins.append(dict(
        name="create_bus / create_buses on generated vectors",
        bound="3 vectors of 3 buses (all given, limits partly NaN, required only)",
        script="from replaylib.createpairs import main_buspair\nmain_buspair()\n"))


def C25_input_error(exc):
    msg = str(exc.args[0]) if getattr(exc, "args", None) else ""
    return type(exc).__name__ == "UserWarning" and any(t in msg for t in ("not exist", "non-existing", "non existing", "tries to attach"))


def classify(ob, model):
    return ob.meta.get("pair", "pair")


def replay(ob, model, finding=None):
    pair = ob.meta.get("pair", "")
    if pair == "bus-par":
        return {"script": f"# replay of {ob.id}\nfrom replaylib.createpairs import main_buspair\nmain_buspair()\n",
                "description": "create_buses against the sequence of create_bus calls on generated vectors"}
    if pair.endswith("-par") and pair != "t3-par":
        return {"script": f"# replay of {ob.id}\nfrom replaylib.createpairs import main_parpair\nmain_parpair({pair[:-4]!r})\n",
                "description": "the batch create call against the sequence of single calls on argument vectors generated from the real signature"}
    only = {"t3-par": "3w_from_parameters", "t3-std": "3w from std", "line-std": "create_line(s) from std", "trafo-std": "create_transformer(s) from"}.get(pair)
    return {"script": f"# replay of {ob.id}\nfrom replaylib.createpairs import main_pairs\nmain_pairs({only!r})\n",
            "description": "the batch create call against the sequence of single calls on fixed argument vectors"}
