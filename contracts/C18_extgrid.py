"""C18 (part 2) -- short circuit: the feeder (ext_grid) impedances of the network matrix.

Function under contract (real text): pandapower.build_bus:_add_ext_grid_sc_impedance (mode "sc", cases max and min).

IEC 60909: a network feeder with initial short-circuit power S''k and ratio R/X is the impedance |Z| = c Un^2 / S''k to ground, in per unit
of the node |z| = c / (S''k / S_base), with r / x = rx. Several feeders at one node (several ext_grid rows at a bus, or buses fused by a
bus-bus switch) are in parallel: their admittances add. Decided for an ext_grid table of any length (generic row), given the assumed
contracts of _sum_by_group and of a store through distinct keys:
  * the admittances are *added* to the node's GS / BS (they already hold shunts, wards, ...) once per node, through the distinct keys of
    the grouping of the looked-up buses, with the sums of that grouping (a store or += through keys that are not distinct keeps one feeder only);
  * grouped by the node of the feeder's own bus, over exactly the in-service ext_grids;
  * per feeder: y * S_base with y = 1 / (r + j x),  r = rx * x,  x = z / sqrt(rx^2 + 1),  z = c_node / (s_sc / S_base): so that
    |r + j x| = z and r / x = rx (lemma), with the voltage factor c of the feeder's own node and the s_sc / rx columns of the chosen case.
"""
from __future__ import annotations

import z3

from pyvc import netmodel
from pyvc.values import SV, CV, XV, PV, B, I, R, EngineError, to_z, to_pv, Opaque
from pyvc.arrays import Space, Arr, Mat
from pyvc.containers import PDict
from pyvc.interp import Native
from pyvc.lib_np import Cat
from pyvc.vc import consts
from contracts import ppcmodel as pm
from contracts.C11_loads import GK, GroupSum, _sum_by_group

BB = "pandapower.build_bus"


class _Old:
    no_identity_merge = True

    def __init__(self, keys, col):
        self.keys, self.col = keys, col

    def sym_binop(self, it, op, a, b):
        if op == "+" and isinstance(a, _Old) and isinstance(b, GroupSum):
            return _Acc(a, b)
        return NotImplemented


class _Acc:
    no_identity_merge = True

    def __init__(self, old, add):
        self.old, self.add = old, add


class BusMat(Mat):
    """ppc['bus'] that records in-place accumulation through group keys:  bus[keys, col] += group sums"""

    def sym_getitem(self, it, key):
        if isinstance(key, tuple) and len(key) == 2 and (getattr(key[0], "is_group_keys", False)):
            return _Old(key[0], key[1])
        return Mat.sym_getitem(self, it, key)

    def sym_setitem(self, it, key, val):
        if isinstance(key, tuple) and len(key) == 2 and isinstance(val, _Acc):
            self.adds = getattr(self, "adds", [])
            self.adds.append((key[0], key[1], val.add if (val.old.keys is key[0] and val.old.col == key[1]) else None))
            return
        return Mat.sym_setitem(self, it, key, val)


def run(vc):
    iu = consts("pandapower.pypower.idx_bus")
    isc = consts("pandapower.pypower.idx_bus_sc")

    for case in ("max", "min"):
        def h(p, case=case):
            eg = pm.table("ext_grid", {"bus": I, f"s_sc_{case}_mva": R, f"rx_{case}": R})
            act = Arr(eg.space, SV(z3.Function("in_service_and_supplied[ext_grid]", I, B)(eg.space.i)))
            lsp = Space.get("label:bus")
            bl = Arr(lsp, SV(z3.Function("bus_lookup", I, I)(lsp.i)))
            bus = BusMat("ppcbus", {"all": Space.get("ppcbus")})
            ccol = isc.C_MAX if case == "max" else isc.C_MIN
            pm.colfun(bus, "all", ccol)
            kk = z3.Int("k!node")
            fc = z3.Function(f"{bus.name}[all,{ccol}]", I, R)
            p.assume(z3.ForAll([kk], fc(kk) > 0, patterns=[fc(kk)]))          # voltage factors are positive
            base = SV(z3.Real("baseMVA"))
            p.assume(base.z > 0)
            c = eg.cols
            p.assume(z3.And(to_z(c[f"s_sc_{case}_mva"], R) > 0, to_z(c[f"rx_{case}"], R) >= 0))
            net = netmodel.Net({"_options": PDict({"mode": "sc", "case": case}), "_is_elements": PDict({"ext_grid": act}),
                                "_pd2ppc_lookups": PDict({"bus": bl}), "ext_grid": eg}, strict=True)
            p.it.summaries["pandapower.auxiliary:_sum_by_group"] = _sum_by_group
            me = p.it.modenv(BB)
            if me.has("_sum_by_group"):
                me.vals["_sum_by_group"] = Native(_sum_by_group, name="_sum_by_group")
            out = p.call(f"{BB}:_add_ext_grid_sc_impedance", net, PDict({"bus": bus, "baseMVA": base}))
            if out.raised:
                raise EngineError(f"_add_ext_grid_sc_impedance raised {out.exc!r}")
            adds = getattr(bus, "adds", [])
            meta = dict(part="ext_grid-sc", case=case)
            if not adds:
                p.prove(f"feeders[{case}]: nothing added only if no ext_grid is in service", z3.Not(z3.And(eg.space.n > 0, to_z(act.e))), meta=meta)
                return
            cols = sorted(col for _, col, _ in adds)
            p.prove(f"feeders[{case}]: GS and BS are each accumulated exactly once", cols == sorted([iu.GS, iu.BS]), meta=dict(meta, part="ext_grid-sc-structure"))
            node = z3.substitute(to_z(bl.e, I), (lsp.i, to_z(c["bus"], I)))
            cn = to_z(bus.row_of(eg.space, SV(node), ccol, p.it), R)
            z = cn / (to_z(c[f"s_sc_{case}_mva"], R) / base.z)
            rx = to_z(c[f"rx_{case}"], R)
            for keys, col, add in adds:
                nm = "GS" if col == iu.GS else "BS"
                ok = isinstance(keys, GK) and isinstance(add, GroupSum) and add.b is keys.b and isinstance(keys.b, Arr) and isinstance(add.val, Arr)
                p.prove(f"feeders[{case}]:{nm}: added once per node -- through the distinct keys of the grouping, with the sums of that grouping", ok,
                        meta=dict(meta, part="ext_grid-sc-structure"),
                        note="feeders at the same node are in parallel: an in-place += through repeated node indices keeps one feeder only")
                if not ok:
                    continue
                k, v = keys.b, add.val
                km = z3.BoolVal(True) if k.mask is True else k.mask
                vm = z3.BoolVal(True) if v.mask is True else v.mask
                p.prove(f"feeders[{case}]:{nm}: grouped by the node of the feeder's own bus, exactly the in-service ext_grids",
                        z3.And(to_z(k.e, I) == node, km == to_z(act.e), vm == to_z(act.e), k.space is eg.space, v.space is eg.space), meta=meta)
                # y * S_base with y = 1 / (r + j x): compare through  y (r + j x) = 1  (no division in the obligation)
                ve = v.e.v if isinstance(v.e, XV) else v.e
                p.it.ctx.ghost.setdefault("feeder", {})[nm] = to_z(ve, R)
            gh = p.it.ctx.ghost.get("feeder", {})
            if "GS" in gh and "BS" in gh:
                from pyvc.values import ssqrt
                g, b = gh["GS"] / base.z, gh["BS"] / base.z            # y = g + j b  (GS, BS carry y * S_base)
                sq = to_z(ssqrt(SV(rx * rx + 1)), R)                   # the engine's sqrt: sqrt(t)^2 = t, sqrt(t) >= 0
                x = z / sq
                r = rx * x
                lem = dict(meta=meta, kind="lemma")
                p.prove(f"feeders[{case}]: y (r + j x) = 1, real part", g * r - b * x == 1, note="y = 1 / (r + j x) with x = z / sqrt(rx^2 + 1), r = rx x", **lem)
                p.prove(f"feeders[{case}]: y (r + j x) = 1, imaginary part", g * x + b * r == 0, **lem)
                p.prove(f"feeders[{case}]: |r + j x| = c / (s_sc / S_base)", r * r + x * x == z * z,
                        note="IEC 60909 network feeder: Z = c Un^2 / S''k with the voltage factor of the feeder's own node, R / X = rx", **lem)
        vc.explore(f"_add_ext_grid_sc_impedance[{case}]", h, max_paths=20)


def run_sgen(vc):
    """_add_sgen_sc_z: asynchronous and doubly-fed generators are further sources at their nodes: their admittances are *added* to what the
    node already holds (network feeders, synchronous generators, motors, wards), once per node through the distinct keys of the grouping."""
    SC = "pandapower.shortcircuit.ppc_conversion"
    iu = consts("pandapower.pypower.idx_bus")

    def h(p):
        sg = pm.table("sgen", {"bus": I, "in_service": B, "generator_type": PV, "kappa": R, "max_ik_ka": R, "rx": R, "sn_mva": R, "lrc_pu": R})
        bus_t = pm.table("bus", {"vn_kv": R})
        lsp = Space.get("label:bus")
        bl = Arr(lsp, SV(z3.Function("bus_lookup", I, I)(lsp.i)))
        bus = BusMat("ppcbus", {"all": Space.get("ppcbus")})
        net = netmodel.Net({"sgen": sg, "bus": bus_t, "_pd2ppc_lookups": PDict({"bus": bl})}, strict=True)
        p.assume(sg.space.n > 0)
        p.it.summaries["pandapower.auxiliary:_sum_by_group"] = _sum_by_group
        me = p.it.modenv(SC)
        if me.has("_sum_by_group"):
            me.vals["_sum_by_group"] = Native(_sum_by_group, name="_sum_by_group")
        out = p.call(f"{SC}:_add_sgen_sc_z", net, PDict({"bus": bus}))
        if out.raised:
            raise EngineError(f"_add_sgen_sc_z raised {out.exc!r}")
        adds = getattr(bus, "adds", [])
        stores = getattr(bus, "group_stores", {})
        meta = dict(part="sgen-sc")
        p.prove("sgen sources: GS / BS of a node are never overwritten", iu.GS not in stores and iu.BS not in stores, meta=meta,
                note="an assignment through the group keys replaces the admittances of the feeders, generators and motors at the node")
        c = sg.cols
        for gtype in ("async_doubly_fed", "async"):
            sel = z3.And(to_z(c["in_service"]), c["generator_type"].z == to_pv(gtype))
            mine = [(k, col, a) for k, col, a in adds if isinstance(k, GK) and isinstance(k.b, Arr) and a is not None and isinstance(a, GroupSum) and a.b is k.b
                    and k.b.mask is not True and z3.is_true(z3.simplify(k.b.mask == sel))]
            present = _exists(p, sg, sel)
            p.prove(f"sgen sources[{gtype}]: the admittances of the in-service generators of this type are added to GS and BS once each",
                    z3.Or(z3.Not(present), z3.BoolVal(sorted(col for _, col, _ in mine) == sorted([iu.GS, iu.BS]))), meta=meta)
    vc.explore("_add_sgen_sc_z", h, max_paths=60)


def _exists(p, table, mask):
    """some row of the table satisfies the mask on this path (decided by the code through len(selection) > 0)"""
    from pyvc.arrays import _count
    return _count(p.it, table.space, z3.simplify(mask)) > 0

