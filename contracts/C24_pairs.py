"""C24 -- relational single-vs-batch contracts for the create pairs that take their parameters as arguments
(loads, sgens, gens, storages, shunts, wards, impedances, buses, lines / transformers from parameters).

The argument lists are read from the *real signatures* on every run (ast of the repository source): every parameter that is a
number, a flag or an optional number becomes a symbolic argument (generic row of the batch for the batch call); descriptive
parameters (name, type strings, geodata, index) keep their defaults in both calls.  Three explorations per pair: `given` (every
numeric / flag parameter is passed; NaN-able ones with a symbolic NaN flag), `partial` (the same, but parameters whose default is None
are left out, so the values derived for them from other arguments are compared) and `defaults` (only the required parameters are
passed, so the defaults of the two signatures are compared as well).  The dicts handed to _set_entries / _set_multiple_entries
(plus the optional-column helpers) are compared for every key that either call writes, except descriptive ones.
"""
from __future__ import annotations

import ast
import z3

from pyvc.values import SV, XV, PV, B, I, R, EngineError
from pyvc.arrays import Space, Arr
from pyvc import netmodel, source
from contracts import ppcmodel as pm

DESCRIPTIVE = {"name", "type", "geodata", "geo", "coords", "zone", "index", "std_type", "generator_type", "et", "curve_style",
               "reactive_capability_curve", "id_q_capability_characteristic"}


def signature(fn):
    """[(name, kind, has_default)] of module:function, kind in int / real / nan / bool / optreal / other"""
    mod, name = fn.split(":")
    _, node = source.find_def(mod, name)
    a = node.args
    pos = list(a.args)
    defaults = [None] * (len(pos) - len(a.defaults)) + list(a.defaults)
    out = []
    for arg, d in list(zip(pos, defaults)) + list(zip(a.kwonlyargs, a.kw_defaults)):
        ann = ast.unparse(arg.annotation) if arg.annotation is not None else ""
        dflt = ast.unparse(d) if d is not None else None
        if arg.arg == "net":
            continue
        if arg.arg in DESCRIPTIVE or "str" in ann or "Literal" in ann or "Type" in ann and "float" not in ann:
            kind = "other"
        elif dflt == "nan":
            kind = "nan"
        elif dflt == "None":
            kind = "optreal" if ("float" in ann or "int" in ann.lower()) else "other"
        elif "bool" in ann and "float" not in ann:
            kind = "bool"
        elif ann.startswith("Int") or ann.startswith("Sequence") and d is None:
            kind = "int"
        elif "float" in ann or "int" in ann or "Iterable" in ann:
            kind = "real"
        else:
            kind = "other"
        out.append((arg.arg, kind, d is not None))
    return out


def pair_harness(C24, sp, single_fn, batch_fn, table, pair, variant, rename=None, extra_tables=None, skip_cols=(), batch_prefix=None,
                 default_equiv=None):
    rename = rename or {}

    def col(name, sort=R, nan=False):
        f = z3.Function(f"arg.{name}", I, sort)(sp.i)
        if nan:
            return XV(SV(f), z3.Function(f"arg.{name}.isnan", I, B)(sp.i))
        return SV(f)

    def h(p):
        cap = C24._summaries(p.it, sp)
        tabs = {"bus": pm.table("bus", {"vn_kv": R}), table: pm.table(table, {}) if table != "bus" else pm.table("bus", {"vn_kv": R})}
        tabs.update(extra_tables or {})
        net = netmodel.Net(tabs, strict=True)
        ssig, bsig = signature(single_fn), signature(batch_fn)
        bnames = [n for n, _, _ in bsig]
        s_pos, b_pos, s_kw, b_kw = [], list(batch_prefix() if batch_prefix else []), {}, {}
        k = len(b_pos)
        for name, kind, has_default in ssig:
            if not has_default:
                bname = bnames[k] if k < len(bnames) else None
                k += 1
                if kind == "other":
                    raise EngineError(f"{single_fn}: required parameter {name} of unknown kind")
                v = col(name, I if kind == "int" else R)
                s_pos.append(v)
                b_pos.append(Arr(sp, v))
                continue
            k += 1
            if kind == "other" or variant == "defaults" or (variant == "partial" and kind == "optreal"):
                continue
            bname = rename.get(name, name)
            if bname not in bnames:
                raise EngineError(f"{batch_fn} has no parameter {bname} (single: {name})")
            v = col(name, B) if kind == "bool" else col(name, nan=(kind == "nan"))
            s_kw[name] = v
            b_kw[bname] = Arr(sp, v)
        s = p.call(single_fn, net, *s_pos, **s_kw)
        if s.raised:
            if C24.C25_input_error(s.exc) or type(s.exc).__name__ == "UserWarning":
                # an argument value the single call refuses (validation of the value itself) is outside the compared domain
                p.it.ctx.ghost.setdefault("refused_inputs", []).append(str(s.exc))
                return
            p.prove(f"{pair}:single-no-exception", False, note=f"raised {s.exc!r}", meta=dict(pair=pair))
            return
        b = p.call(batch_fn, net, *b_pos, **b_kw)
        if b.raised:
            if C24.C25_input_error(b.exc):
                return
            p.prove(f"{pair}:batch-no-exception", False, note=f"raised {b.exc!r}", meta=dict(pair=pair))
            return
        if len(cap["single"]) != 1 or len(cap["batch"]) != 1:
            raise EngineError(f"{pair}: entries captured: {len(cap['single'])} / {len(cap['batch'])}")
        single, batch = cap["single"][0], cap["batch"][0]
        cols = [c for c in dict.fromkeys(list(single.keys_list()) + list(batch.keys_list())) if c not in DESCRIPTIVE and c not in skip_cols]
        if len(cols) < 2:
            raise EngineError(f"{pair}: only {cols} captured")
        for c, dflt in (default_equiv or {}).items():
            # a missing value and the documented default are the same constraint (stated per pair): both sides are completed with the default
            for d in (single, batch):
                pr = d.presence(c)
                if pr is False:
                    d.set(c, XV.of(dflt))
                elif pr is True:
                    v = C24._elem(d.raw(c))
                    d.set(c, C24._opt(v if isinstance(v, XV) else XV.of(v) if isinstance(v, float) else v, dflt))
                else:
                    raise EngineError(f"{pair}: symbolic presence of {c}")
        C24.compare_entries(p, f"{pair}[{variant}]", single, batch, cols, pair)
    return h


C = "pandapower.create."
PAIRS = [
    ("load", C + "load_create:create_load", C + "load_create:create_loads"),
    ("gen", C + "gen_create:create_gen", C + "gen_create:create_gens"),
    ("storage", C + "storage_create:create_storage", C + "storage_create:create_storages"),
    ("shunt", C + "shunt_create:create_shunt", C + "shunt_create:create_shunts"),
    ("ward", C + "ward_create:create_ward", C + "ward_create:create_wards"),
    ("impedance", C + "impedance_create:create_impedance", C + "impedance_create:create_impedances"),
]
# not under contract: create_sgen(s) (the batch call selects the k / lrc_pu / max_ik_ka columns through comparisons of a pandas string Series
# (`pd.concat([entries["generator_type"] == match ...])`), outside the engine's theories: bounded native stand-in only), create_line(s)_from_parameters (the single call writes the zero-sequence values all-or-nothing with g0 = 0, the batch call
# column by column with g0 = NaN; endtemp_degree is no parameter of the batch call) and create_transformer(s)_from_parameters (string-valued tap
# parameters, validation of df / tap2 arguments in the single call only) -- see DESIGN.md A.4 / A.6


def add_bus(vc, C24, sp):
    """create_bus / create_buses: the batch call takes the number of buses first; NaN voltage limits and the documented defaults 0.0 / 2.0 are
    the same OPF constraint (build_bus copies the column, NaN limits are replaced by these defaults)"""
    sf, bf = C + "bus_create:create_bus", C + "bus_create:create_buses"
    for variant in ("given", "defaults"):
        vc.explore(f"create_bus / create_buses [{variant}]",
                   pair_harness(C24, sp, sf, bf, "bus", "bus-par", variant, batch_prefix=lambda: [SV(z3.Int("nr_buses"))],
                                default_equiv={"min_vm_pu": 0.0, "max_vm_pu": 2.0}), max_paths=100)


def add(vc, C24, sp, only=None):
    import os
    only = only or os.environ.get("C24_ONLY")
    if not only or "bus" in only.split(","):
        add_bus(vc, C24, sp)
    for table, sf, bf in PAIRS:
        if only and table not in only.split(","):
            continue
        for variant in ("given", "partial", "defaults"):
            pair = f"{table}-par"
            vc.explore(f"{sf.split(':')[1]} / {bf.split(':')[1]} [{variant}]", pair_harness(C24, sp, sf, bf, table, pair, variant), max_paths=400)
