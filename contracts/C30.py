"""C30 -- network diagnostics are side-effect free and stateless.

Functions under contract: pandapower.diagnostic.diagnostic:Diagnostic.__init__, register_function, diagnose_network;
every default DiagnosticFunction.diagnostic of pandapower.diagnostic.diagnostic_functions (frame on the network).

(a) Statelessness (heap / alias obligations on the real text of the class):
  * a new Diagnostic owns fresh `kwargs` and `_functions` objects: not the module-level defaults, not another instance's;
  * the arguments handed to a diagnostic function depend only on the defaults and the keyword arguments of *this*
    diagnose_network call: an option passed to one instance / one call is not seen by another instance nor by a
    later call; register_function on one instance does not change another instance's function list nor the
    module-level default list; the module-level defaults keep their content.
(b) Network unchanged (frame obligations, frame-tracking execution of the real diagnostic methods, see pyvc.frame):
  on every normal exit, on exit through one of the expected (non-convergence) exceptions raised by the power flow and on exit through any
  other error of the power flow (diagnose_network swallows those into diag_errors and returns normally), every element table of the user's network is the object it was on entry with no store into it, or has been
  restored from a deep copy taken before the first store.
"""
from __future__ import annotations

import z3

from pyvc import netmodel, lib_np
from pyvc.values import SV, PV, B, I, R, EngineError, to_z, to_pv
from pyvc.containers import PDict
from pyvc.interp import Native, PyRaise, ObjVal

PROP = "C30"
DG = "pandapower.diagnostic.diagnostic"
MIN_OBLIGATIONS = 12
NOT_DECIDED = ["not decided: exit of a diagnostic function by an exception that is neither raised by run(net) nor one of expected_exceptions",
               "not decided: report() output (logging only)"]


def configure(it):
    netmodel.install(it)
    lib_np.install(it)


def _world(p):
    """module-level defaults of the diagnostic module replaced by small tracked stand-ins of the same shape"""
    calls = []

    def mk(name):
        def diagnostic(it, net, **kwargs):
            sk = kwargs.pop("__symkw__", None)
            d = PDict(kwargs)
            if sk is not None:
                d.update_from(sk)
            calls.append((name, d))
            return None
        diagnostic._symkw = True
        n = Native(diagnostic, pure=False, name=f"{name}.diagnostic")
        return ObjVal(None, {"diagnostic": n, "report": Native(lambda it, *a, **k: None, name="report")})
    defaults = PDict({"overload_scaling_factor": 0.001, "min_r_ohm": 0.001})
    functions = [("f_all_kwargs", mk("f_all_kwargs"), None), ("f_named", mk("f_named"), ["min_r_ohm"])]
    me = p.it.modenv(DG)
    me.vals["default_argument_values"] = defaults
    me.vals["default_diagnostic_functions"] = functions
    return defaults, functions, calls, mk


def _call_native_symkw(it):
    pass


def run(vc):
    vc.configure = configure
    vc.trust("CPython object identity / aliasing semantics of assignment (modelled by the executor: assignment never copies)",
             "diagnostic functions are called as diag.diagnostic(net, **args) (a fresh dict per call)")
    vc.assume_std("A-PURE")

    def h_identity(p):
        cls = p.fn(f"{DG}:Diagnostic")
        p.fn(f"{DG}:Diagnostic.__init__")
        defaults, functions, calls, mk = _world(p)
        d1 = p.call(cls).value
        d2 = p.call(cls).value
        p.prove("init:kwargs-not-module-default", d1.attrs["kwargs"] is not defaults,
                note="Diagnostic().kwargs is a fresh object, not diagnostic_functions.default_argument_values", meta=dict(clause="alias"))
        p.prove("init:functions-not-module-default", d1.attrs["_functions"] is not functions, meta=dict(clause="alias"))
        p.prove("init:instances-share-no-kwargs", d1.attrs["kwargs"] is not d2.attrs["kwargs"], meta=dict(clause="alias"))
        p.prove("init:instances-share-no-function-list", d1.attrs["_functions"] is not d2.attrs["_functions"], meta=dict(clause="alias"))
        k = d1.attrs["kwargs"]
        p.prove("init:kwargs-equal-defaults", isinstance(k, PDict) and k.to_dict() == defaults.to_dict(), meta=dict(clause="alias"))
        f1, f2 = list(d1.attrs["_functions"]), list(d2.attrs["_functions"])
        p.prove("init:functions-equal-defaults", [(n, a) for n, _, a in f1] == [(n, a) for n, _, a in functions], meta=dict(clause="alias"),
                note="one entry per default function, same names and argument names")
        p.prove("init:function-objects-per-instance", all(x[1] is not y[1] for x, y in zip(f1, functions)) and all(x[1] is not y[1] for x, y in zip(f1, f2)),
                meta=dict(clause="alias"),
                note="the function objects keep the state of their last run (for report()): an instance shares them neither with the module "
                     "defaults nor with another instance")
        d0 = p.call(cls, add_default_functions=False).value
        p.prove("init:empty-without-defaults", len(d0.attrs["_functions"]) == 0 and len(d0.attrs["kwargs"].e) == 0, meta=dict(clause="alias"))
    vc.explore("Diagnostic.__init__", h_identity)

    def h_register(p):
        cls = p.fn(f"{DG}:Diagnostic")
        p.fn(f"{DG}:Diagnostic.register_function")
        defaults, functions, calls, mk = _world(p)
        n0 = len(functions)
        d1 = p.call(cls).value
        d2 = p.call(cls).value
        extra = mk("extra")
        out = p.call(f"{DG}:Diagnostic.register_function", d1, extra, None, "extra")
        p.prove("register:own-list-extended", len(d1.attrs["_functions"]) == n0 + 1 and d1.attrs["_functions"][-1][1] is extra, meta=dict(clause="register"))
        p.prove("register:other-instance-unaffected", len(d2.attrs["_functions"]) == n0, meta=dict(clause="register"),
                note="functions registered on one instance never show up in another instance")
        p.prove("register:module-defaults-unaffected", len(functions) == n0, meta=dict(clause="register"))
        d3 = p.call(cls).value
        p.prove("register:later-instance-unaffected", len(d3.attrs["_functions"]) == n0, meta=dict(clause="register"))
    vc.explore("Diagnostic.register_function", h_register)

    def h_options(p):
        cls = p.fn(f"{DG}:Diagnostic")
        p.fn(f"{DG}:Diagnostic.diagnose_network")
        defaults, functions, calls, mk = _world(p)
        before = defaults.to_dict()
        net = netmodel.Net({}, strict=False)
        d1 = p.call(cls).value
        v = SV(z3.Const("option_value", PV))
        o1 = p.call(f"{DG}:Diagnostic.diagnose_network", d1, net, report_style=None, overload_scaling_factor=v, zz_other_option=7)
        if o1.raised:
            raise EngineError(f"diagnose_network raised {o1.exc!r}")
        first = [d for n, d in calls if n == "f_all_kwargs"][0]
        p.prove("options:this-call-sees-its-option", first.presence("overload_scaling_factor") is True and first.raw("overload_scaling_factor") is v,
                meta=dict(clause="options"))
        del calls[:]
        # another instance, no options
        d2 = p.call(cls).value
        o2 = p.call(f"{DG}:Diagnostic.diagnose_network", d2, net, report_style=None)
        got = [d for n, d in calls if n == "f_all_kwargs"][0]
        p.prove("options:other-instance-gets-defaults", got.presence("zz_other_option") is False and
                got.raw("overload_scaling_factor") == before["overload_scaling_factor"], meta=dict(clause="options"),
                note="an option passed to one Diagnostic instance is not seen by another instance")
        del calls[:]
        # later call on the same instance, no options
        o3 = p.call(f"{DG}:Diagnostic.diagnose_network", d1, net, report_style=None)
        got = [d for n, d in calls if n == "f_all_kwargs"][0]
        p.prove("options:later-call-gets-defaults", got.presence("zz_other_option") is False and
                got.raw("overload_scaling_factor") == before["overload_scaling_factor"], meta=dict(clause="options"),
                note="options of one diagnose_network call do not leak into a later call")
        named = [d for n, d in calls if n == "f_named"][0]
        p.prove("options:named-args-only", list(named.e) == ["min_r_ohm"], meta=dict(clause="options"))
        p.prove("options:module-defaults-unchanged", defaults.to_dict() == before, meta=dict(clause="options"))
    vc.explore("Diagnostic.diagnose_network[options]", h_options, max_paths=50)

    def h_missing(p):
        cls = p.fn(f"{DG}:Diagnostic")
        defaults, functions, calls, mk = _world(p)
        functions.append(("f_missing", mk("f_missing"), ["not_provided"]))
        net = netmodel.Net({}, strict=False)
        d1 = p.call(cls).value
        o = p.call(f"{DG}:Diagnostic.diagnose_network", d1, net, report_style=None)
        p.prove("options:missing-required-argument-raises", o.raised and o.exc_name() == "ValueError", meta=dict(clause="options"))
    vc.explore("Diagnostic.diagnose_network[missing]", h_missing, max_paths=50)

    from contracts import C30_frame
    C30_frame.run(vc)
    if not hasattr(vc, "native_standins"):
        vc.native_standins = []
    vc.native_standins.append(dict(
        name="diagnose_network on fixed networks: net unchanged, instances independent",
        bound="5 + 3 + 3 fixed networks (example_multivoltage / example_simple variants that do not converge, have implausible impedances, open "
              "switches, a group member that gets replaced); the power flow handed over by run= fails with a UserWarning at its k-th call, k = "
              "1..24; option / registration sequences on several instances",
        script="import sys\nfrom replaylib.diagnostic import main_state, main_frame, main_frame_errors\n"
               "from replaylib import run_all\nrun_all(main_state, main_frame, main_frame_errors)\n",
        timeout=2400))


def classify(ob, model):
    return ob.meta.get("clause", ob.meta.get("label", ob.id).split(":")[0])


def replay(ob, model, finding=None):
    clause = ob.meta.get("clause")
    if clause == "frame":
        fn = ob.meta.get("function", "")
        return {"script": f"# replay of {ob.id}\nimport sys\nfrom replaylib.diagnostic import main_frame, main_frame_errors\n"
                          f"from replaylib import run_all\nrun_all(lambda: main_frame({fn!r}), lambda: main_frame_errors({fn!r}))\n",
                "description": "diagnose_network on networks that drive the diagnostic function into its modifying branch, also with a power flow "
                               "that fails with another error than a convergence error at its k-th call: tables unchanged"}
    return {"script": f"# replay of {ob.id}\nfrom replaylib.diagnostic import main_state\nmain_state()\n",
            "description": "two Diagnostic instances / two calls: options and registered functions must not leak"}
