"""C17 -- OPF minimises exactly the user-defined cost functions.

Functions under contract: pandapower.opf.make_objective:_fill_gencost_poly, _map_costs_to_gen, _get_gen_index,
_add_linear_costs_as_pwl_cost, costs_from_areas, _fill_gencost_pwl; pandapower.results:_get_costs.

Obligations (from the property statement, not from the code). For every element type et in
{gen, sgen, ext_grid, load, storage, dcline} and a generic cost row r (any table length, any values):
  * the ppc gencost row addressed by that cost row encodes, under PYPOWER's documented evaluation of a POLYNOMIAL
    row  cost(PG) = sum_k coef[k] * PG**(ncost-1-k),  exactly the user's polynomial evaluated at the element's own
    result power  p = sigma_et * PG   (sigma = -1 for load, storage, dcline: consumption-positive result tables):
        for all PG:  cost(PG) == cp2 * p**2 + cp1 * p + cp0          (likewise the q block with cq2, cq1, cq0)
    -- a polynomial identity in PG, proved by coefficient comparison in the solver.
  * linear costs added to a piecewise-linear problem: the two-point pwl row interpolates sigma*cp1*PG on [PMIN, PMAX].
  * costs_from_areas: the emitted break points are (x_m, C(x_m)) for the user's cumulative piecewise-linear cost C
    with the sign convention above (unrolled for 1..3 areas).
  * _get_costs: res_cost is the objective value stored in the solved ppc.
"""
from __future__ import annotations

import z3

from pyvc import netmodel, lib_np
from pyvc.values import SV, PV, Opaque, to_pv, B, I, R, EngineError, to_z, real, arith
from pyvc.containers import PDict
from pyvc.arrays import Table, Mat, Space, Arr, SegBound
from pyvc.interp import Native, PyRaise

PROP = "C17"
MO = "pandapower.opf.make_objective"
MIN_OBLIGATIONS = 30
NOT_DECIDED = ["not decided: that PIPS returns a minimiser (A-SOLVE); obj = sum of row costs at the returned point is the "
               "assumed contract of opf_costfcn", "not decided: convex-optimum clause for DC OPF"]

ETS = ["gen", "sgen", "ext_grid", "load", "storage", "dcline"]
SIGMA = {"gen": 1, "sgen": 1, "ext_grid": 1, "load": -1, "storage": -1, "dcline": -1}


def configure(it):
    netmodel.install(it)
    lib_np.install(it)


def _net_for(et, with_q=True):
    cost = Table("poly_cost")
    cost.add_col("element", I)
    cost.cols["et"] = et                       # element type: enumerated (finite), each case is its own run
    for c in ("cp0_eur", "cp1_eur_per_mw", "cp2_eur_per_mw2", "cq0_eur", "cq1_eur_per_mvar", "cq2_eur_per_mvar2"):
        cost.add_col(c, R)
    lookups = PDict()
    for name in ("gen", "sgen_controllable", "load_controllable", "storage_controllable", "ext_grid"):
        sp = Space.get(f"label:{name}")
        lookups.set(name, Arr(sp, SV(z3.Function(f"lookup[{name}]", I, I)(sp.i))))
    gen_t = Table("gen")
    dcl = Table("dcline")
    net = netmodel.Net({"poly_cost": cost, "_pd2ppc_lookups": lookups, "gen": gen_t, "dcline": dcl}, strict=True)
    gencost = Mat("gencost", {"all": Space.get("ppcgen_rows")})
    gen = Mat("ppcgen", {"all": Space.get("ppcgen")})
    ppci = PDict({"gencost": gencost, "gen": gen})
    return net, ppci, cost, gencost


def _poly_eval(coefs, PG):
    """PYPOWER POLYNOMIAL row: coefs[0] is the highest order coefficient"""
    n = len(coefs)
    acc = 0
    for k, c in enumerate(coefs):
        term = c
        for _ in range(n - 1 - k):
            term = arith("*", term, PG)
        acc = arith("+", acc, term)
    return acc


def run(vc):
    from pyvc.vc import consts
    ic = consts('pandapower.pypower.idx_cost')
    NCOST, COST = ic.NCOST, ic.COST
    vc.configure = configure
    vc.trust("PYPOWER gencost POLYNOMIAL row semantics: cost(PG) = sum_k row[COST+k] * PG**(NCOST-1-k) (pypower docs / polycost)",
             "result power of an element = sigma_et * PG of its ppc gen (C16 lemma on write_pq_results_to_element / _get_gen_results)",
             "net._pd2ppc_lookups[...] map element labels to ppc gen rows injectively (A-LOOKUP); distinct cost rows address distinct gens "
             "(duplicate costs are rejected at creation, C24)",
             "pandas: cost[mask] keeps the rows with mask true; .values / column arithmetic are element-wise (A-PANDAS)")
    vc.assume_std("A-REAL", "A-GENERIC", "A-LOOKUP", "A-PANDAS")

    for et in ETS:
        for quadratic in (True, False):
            for q_costs in (False, True):
                def harness(p, et=et, quadratic=quadratic, q_costs=q_costs):
                    p.fn(f"{MO}:_map_costs_to_gen")
                    p.fn(f"{MO}:_get_gen_index")
                    net, ppci, cost, gencost = _net_for(et)
                    out = p.call(f"{MO}:_fill_gencost_poly", ppci, net, quadratic, q_costs)
                    if out.raised:
                        raise EngineError(f"_fill_gencost_poly raised {out.exc!r}")
                    r = cost.space
                    # the gen row this cost row addresses: by the contract of _map_costs_to_gen / _get_gen_index
                    # it is the lookup of the element's own label (dcline: the to-side auxiliary gen)
                    g = _expected_gen(net, et, cost)
                    p.assume(to_z(g, I) >= 0)      # generic row: a cost entry of an element that has a row in ppci["gen"]
                    sig = SIGMA[et]
                    PG = real("PG")
                    pres = arith("*", sig, PG)
                    blocks = [("p", g, ("cp2_eur_per_mw2", "cp1_eur_per_mw", "cp0_eur"), sig)]
                    if q_costs:
                        ngen = z3.Int("rows[ppcgen]")
                        sq = -1 if et in ("load", "storage") else 1
                        blocks.append(("q", SV(to_z(g, I) + ngen), ("cq2_eur_per_mvar2", "cq1_eur_per_mvar", "cq0_eur"), sq))
                    for tag, grow, (k2, k1, k0), sg in blocks:
                        ncost = gencost.row_of(r, grow, NCOST, p.it)
                        n = 3 if quadratic else 2
                        p.prove(f"ncost[{et},{tag},{'quad' if quadratic else 'lin'}]", SV(to_z(ncost, R) == n),
                                note="NCOST of the addressed gencost row")
                        coefs = [gencost.row_of(r, grow, COST + k, p.it) for k in range(n)]
                        x = arith("*", sg, PG)
                        c2 = cost.cols[k2] if quadratic else 0
                        user = arith("+", arith("+", arith("*", c2, arith("*", x, x)), arith("*", cost.cols[k1], x)), cost.cols[k0])
                        got = _poly_eval(coefs, PG)
                        p.prove(f"poly-identity[{et},{tag},{'quad' if quadratic else 'lin'},qblock={q_costs}]",
                                SV(to_z(got, R) == to_z(user, R)),
                                note=f"gencost row evaluates to the user's polynomial at the element's own power ({tag}, et={et})",
                                watch={"PG": PG.z, "c2": to_z(c2, R), "c1": to_z(cost.cols[k1], R), "c0": to_z(cost.cols[k0], R)},
                                meta=dict(et=et, block=tag, quadratic=quadratic, q_costs=q_costs))
                    p.cover(f"reach[{et}]", True)
                vc.explore(f"_fill_gencost_poly[{et},quad={quadratic},q={q_costs}]", harness, max_paths=8)


def _expected_gen(net, et, cost):
    lk = net.fields.raw("_pd2ppc_lookups")
    name = f"{et}_controllable" if et in ("load", "sgen", "storage") else et
    if et == "dcline":
        # auxiliary gens of dcline d are appended at the end of net.gen: positions n_gen - 2*n_dc + 2*pos(d) (+1)
        dcl = net.fields.raw("dcline")
        gen_t = net.fields.raw("gen")
        pos = dcl.pos_of(to_z(cost.cols["element"], I))
        position = gen_t.space.n - 2 * dcl.space.n + pos * 2 + 1
        a = lk.raw("gen")
        from pyvc.arrays import subst
        # the gen lookup is addressed by index labels: the label of the gen at that position (labels need not be 0..n-1)
        elem = to_z(subst(gen_t.index_e, gen_t.space.i, position), I)
        return subst(a.e, a.space.i, elem)
    a = lk.raw(name)
    from pyvc.arrays import subst
    return subst(a.e, a.space.i, to_z(cost.cols["element"], I))


# ------------------------------------------------------------------------------------------------
# _map_costs_to_gen / _get_gen_index, piecewise-linear costs
# ------------------------------------------------------------------------------------------------
def _optional_lookup_summary(it):
    """assumed contract of _get_gen_index (verified separately below by direct interpretation):
    result = lookup_et[element] if the element is an OPF variable, else None"""
    F_found = z3.Function("is_opf_variable", I, B)
    F_gen = z3.Function("gen_of_element", I, I)

    def get_gen_index(it, net, et, element):
        e = to_z(element, I)
        return SV(z3.If(F_found(e), PV.i(F_gen(e)), PV.none))
    get_gen_index._pure = True
    it.summaries[f"{MO}:_get_gen_index"] = get_gen_index
    return F_found, F_gen


def _pwl_eval(xs, fs, PG):
    """PYPOWER evaluation of a piecewise linear cost with break points (xs[k], fs[k]) (totcost): the first segment
    whose right end exceeds PG, else the last segment; linear extrapolation beyond the ends"""
    n = len(xs)
    def seg(k):
        m = arith("/", arith("-", fs[k + 1], fs[k]), arith("-", xs[k + 1], xs[k]))
        return arith("+", arith("*", m, arith("-", PG, xs[k])), fs[k])
    out = seg(n - 2)
    for k in reversed(range(n - 2)):
        from pyvc.values import ite, compare
        out = ite(compare("<", PG, xs[k + 1]), seg(k), out)
    return out


def run_pwl(vc):
    from pyvc.vc import consts
    from pyvc.values import ite, compare, logic
    ic = consts('pandapower.pypower.idx_cost')
    NCOST, COST = ic.NCOST, ic.COST

    # (1) _map_costs_to_gen: gens / filtered cost table / signs are aligned and as specified
    for et in ETS:
        def h_map(p, et=et):
            F_found, F_gen = _optional_lookup_summary(p.it)
            net, ppci, cost, gencost = _net_for(et)
            out = p.call(f"{MO}:_map_costs_to_gen", net, cost)
            if out.raised:
                raise EngineError(f"_map_costs_to_gen raised {out.exc!r}")
            gens, cost2, signs = out.value
            found = F_found(to_z(cost.cols["element"], I))
            # for an arbitrary row: it is kept in each of the three results iff its element is an OPF variable
            for nm, a in (("gens", gens), ("signs", signs)):
                m = z3.BoolVal(True) if a.mask is True else a.mask
                p.prove(f"map:{nm}-rows[{et}]", m == found,
                        note=f"{nm} has exactly the rows of cost entries whose element is an OPF variable")
            m2 = z3.BoolVal(True) if cost2.mask is True else cost2.mask
            p.prove(f"map:cost-rows[{et}]", m2 == found, note="returned cost table has exactly those rows")
            p.assume(found)      # from here on: the generic row is a row that survives the filter
            p.prove(f"map:gen-index[{et}]", to_z(gens.e, I) == F_gen(to_z(cost.cols["element"], I)),
                    note="gens[r] is the ppc gen of the row's own element")
            p.prove(f"map:sign[{et}]", to_z(signs.e, R) == SIGMA[et], note="sign convention per element type")
            p.cover(f"map-reach[{et}]", True)
        vc.explore(f"_map_costs_to_gen[{et}]", h_map, max_paths=8)

    # (2) _get_gen_index against the contract assumed in (1)
    for et in ETS:
        def h_idx(p, et=et):
            net, ppci, cost, gencost = _net_for(et)
            element = z3.Int("element")
            out = p.call(f"{MO}:_get_gen_index", net, et, SV(element))
            if out.raised:
                raise EngineError(f"_get_gen_index raised {out.exc!r}")
            cost.cols["element"] = SV(element)
            want = to_z(_expected_gen(net, et, cost), I)
            got = out.value
            # elements that are out of service / not controllable have no row in ppci["gen"]: the lookup holds -1 for them and the
            # cost entry must not be mapped to any gen row (it would replace the cost of another element)
            if got is None:
                p.prove(f"gen-index[{et}]:none-only-without-gen-row", want < 0,
                        note="None is returned only for elements without a row in ppci['gen']")
            else:
                gz = got.z if isinstance(got, SV) else to_z(got, I)
                if gz.sort() == PV:
                    ok = gz == z3.If(want >= 0, PV.i(want), PV.none)
                else:
                    ok = z3.And(want >= 0, gz == want)
                p.prove(f"gen-index[{et}]", ok,
                        note="lookup of the element's own label in the lookup table of its own element type; None (never a negative row) for "
                             "elements without a row in ppci['gen']")
        vc.explore(f"_get_gen_index[{et}]", h_idx, max_paths=8)

    # (3) piecewise linear costs (bounded: 1..3 areas per cost function; all values symbolic)
    for et in ETS:
        for n_areas in (1, 2, 3):
            for mode in ("p", "q"):
                if mode == "q" and et == "dcline":
                    continue   # a dcline has two reactive powers: a q cost has no documented meaning (not decided)
                def h_pwl(p, et=et, n_areas=n_areas, mode=mode):
                    p.it.generic_loops = True
                    F_found, F_gen = _optional_lookup_summary(p.it)
                    p.fn(f"{MO}:costs_from_areas"); p.fn(f"{MO}:_map_costs_to_gen")
                    net, ppci, _, gencost = _net_for(et)
                    pwl = Table("pwl_cost")
                    pwl.add_col("element", I)
                    pwl.cols["et"] = et
                    pwl.cols["power_type"] = mode
                    bounds = [real(f"x{k}") for k in range(n_areas + 1)]
                    slopes = [real(f"slope{k}") for k in range(n_areas)]
                    pwl.cols["points"] = [(bounds[k], bounds[k + 1], slopes[k]) for k in range(n_areas)]
                    net.fields.set("pwl_cost", pwl)
                    for k in range(n_areas):
                        p.assume(compare("<", bounds[k], bounds[k + 1]))
                    out = p.call(f"{MO}:_fill_gencost_pwl", ppci, net)
                    if out.raised:
                        raise EngineError(f"_fill_gencost_pwl raised {out.exc!r}")
                    p.assume(F_found(to_z(pwl.cols["element"], I)))   # generic row: a cost entry of an OPF variable
                    g = F_gen(to_z(pwl.cols["element"], I))
                    if mode == "q":
                        g = g + z3.Int("rows[ppcgen]")
                    n_pts = n_areas + 1
                    xs = [gencost.row_of(None, SV(g), COST + 2 * k, p.it) for k in range(n_pts)]
                    fs = [gencost.row_of(None, SV(g), COST + 2 * k + 1, p.it) for k in range(n_pts)]
                    p.prove(f"pwl:ncost[{et},{mode},{n_areas}]", to_z(gencost.row_of(None, SV(g), NCOST, p.it), R) == n_pts,
                            kind="bounded", note="NCOST = number of break points")
                    sig = SIGMA[et] if mode == "p" else (-1 if et in ("load", "storage") else 1)
                    PG = real("PG")
                    own = arith("*", sig, PG)
                    # user's cumulative cost on area m: C(lower_0) = lower_0*slope_0
                    cum = arith("*", bounds[0], slopes[0])
                    for m in range(n_areas):
                        user = arith("+", cum, arith("*", slopes[m], arith("-", own, bounds[m])))
                        inside = logic("&", compare("<=", bounds[m], own), compare("<=", own, bounds[m + 1]))
                        p.prove(f"pwl:cost[{et},{mode},areas={n_areas},area={m}]",
                                z3.Implies(to_z(inside), to_z(_pwl_eval(xs, fs, PG), R) == to_z(user, R)), kind="bounded",
                                note="pwl gencost row evaluates to the user's cumulative cost at the element's own power inside each area",
                                watch={"PG": PG.z, **{f"x{k}": bounds[k].z for k in range(n_pts)}, **{f"slope{k}": slopes[k].z for k in range(n_areas)}},
                                meta=dict(et=et, n_areas=n_areas, area=m, mode=mode, pwl=True))
                        cum = arith("+", cum, arith("*", slopes[m], arith("-", bounds[m + 1], bounds[m])))
                vc.explore(f"_fill_gencost_pwl[{et},{mode},areas={n_areas}]", h_pwl, max_paths=8)
    vc.bounded.append({"function": f"{MO}:costs_from_areas / _fill_gencost_pwl", "bound": "number of areas of one cost function in {1,2,3}; "
                       "break points and slopes symbolic", "why": "loop over the areas of one cost entry: an inductive invariant over a Python list "
                       "is outside the list theory of the engine", "counted_as_proved": False})

    # (4) linear polynomial costs added to a pwl problem
    for et in ETS:
        def h_lin(p, et=et):
            F_found, F_gen = _optional_lookup_summary(p.it)
            net, ppci, cost, gencost = _net_for(et)
            out = p.call(f"{MO}:_add_linear_costs_as_pwl_cost", ppci, net)
            if out.raised:
                raise EngineError(f"_add_linear_costs_as_pwl_cost raised {out.exc!r}")
            p.assume(F_found(to_z(cost.cols["element"], I)))
            ig = consts('pandapower.pypower.idx_gen')
            g = SV(F_gen(to_z(cost.cols["element"], I)))
            gen = ppci.raw("gen")
            pmin, pmax = gen.row_of(None, g, ig.PMIN, p.it), gen.row_of(None, g, ig.PMAX, p.it)
            xs = [gencost.row_of(None, g, COST, p.it), gencost.row_of(None, g, COST + 2, p.it)]
            fs = [gencost.row_of(None, g, COST + 1, p.it), gencost.row_of(None, g, COST + 3, p.it)]
            PG = real("PG")
            p.assume(compare("<", pmin, pmax))
            # the user's cost function of a linear polynomial entry: cp1 * p + cp0 (property statement), p = the element's own power
            user = arith("+", arith("*", cost.cols["cp1_eur_per_mw"], arith("*", SIGMA[et], PG)), cost.cols["cp0_eur"])
            lin = arith("*", cost.cols["cp1_eur_per_mw"], arith("*", SIGMA[et], PG))
            p.prove(f"linear-as-pwl[{et}]:cp1", z3.Implies(to_z(cost.cols["cp0_eur"], R) == 0, to_z(_pwl_eval(xs, fs, PG), R) == to_z(lin, R)),
                    note="two-point pwl row equals cp1 * (element's own power) for entries without a constant term")
            p.prove(f"linear-as-pwl[{et}]", to_z(_pwl_eval(xs, fs, PG), R) == to_z(user, R),
                    note="two-point pwl row equals cp1 * (element's own power) + cp0", meta=dict(finding=F_LIN))
            p.prove(f"linear-as-pwl:ncost[{et}]", to_z(gencost.row_of(None, g, NCOST, p.it), R) == 2)
        vc.explore(f"_add_linear_costs_as_pwl_cost[{et}]", h_lin, max_paths=8)

    # (5) res_cost is the objective value of the solved ppc
    def h_cost(p):
        obj = real("ppc_obj")
        net = netmodel.Net({}, strict=True)
        out = p.call("pandapower.results:_get_costs", net, PDict({"obj": obj}))
        p.prove("res_cost", to_z(net.fields.raw("res_cost"), R) == obj.z, note="net.res_cost == ppc['obj']")
    vc.explore("_get_costs", h_cost)


_run_poly = run


def run(vc):
    _run_poly(vc)
    run_pwl(vc)
    _standins(vc)


def classify(ob, model):
    m = ob.meta
    if m.get("pwl"):
        return f"pwl-cost[{m.get('et')}]"
    if "et" in m:
        return f"poly-cost[{m.get('et')}]"
    return ob.meta.get("label", ob.id).split("[")[0]


F_LIN = "C17/linear-costs-next-to-pwl-costs-lose-cp0-and-q-terms"
KNOWN_EXCLUSIONS = {F_LIN: lambda ob: True if ob.meta.get("finding") == F_LIN else None}


def _standins(vc):
    if not hasattr(vc, "native_standins"):
        vc.native_standins = []
    vc.native_standins.append(dict(
        name="res_cost against the user's cost functions on fixed OPF problems",
        bound="3-bus ring with two gens, AC and DC OPF: a cost entry of a dropped / out-of-service element next to others, linear costs with "
              "constant and reactive terms next to a pwl cost, a lone cq0, a dcline cost with gen labels (0, 1) and (3, 1)",
        script="import sys\nfrom replaylib.opf_cost import main_dropped_row, main_more\n"
               "from replaylib import run_all\nrun_all(main_dropped_row, main_more)\n",
        timeout=900,
        known={F_LIN: r"REPRODUCED: linear costs with cp0 / cq1 / cq0 next to a pwl cost, run(dc)?opp: "}))


def replay(ob, model, finding=None):
    m = ob.meta
    if finding == F_LIN or m.get("finding") == F_LIN:
        return {"script": f"# replay of {ob.id}\nfrom replaylib.opf_cost import main_more\nmain_more(only='next to a pwl cost')\n",
                "description": "linear polynomial costs with cp0 / cq1 / cq0 on a gen next to a pwl cost on the ext_grid: res_cost vs the user's "
                               "cost functions"}
    if m.get("label", "").startswith(("gen-index", "linear-as-pwl")) or (m.get("et") == "dcline" and not m.get("pwl")):
        return {"script": f"# replay of {ob.id}\nfrom replaylib.opf_cost import main_more\nmain_more()\n",
                "description": "OPF problems with cost entries of out-of-service elements, constant / reactive cost terms, dcline costs with "
                               "unsorted gen labels: res_cost vs the user's cost functions"}
    et = m.get("et")
    lab = m.get("label", "")
    if lab.startswith("map:") or lab.startswith("side:aligned"):
        return {"script": f"# replay of {ob.id}\n# a cost entry of an element that is not an OPF variable precedes other entries:\n"
                          "# every remaining entry must keep its own element and sign\n"
                          "from replaylib.opf_cost import main_dropped_row\nmain_dropped_row()\n",
                "description": "cost table with a dropped entry: res_cost vs the user's costs at the result"}
    if et is None:
        return None
    if m.get("pwl"):
        cands = [[[0., 10., -3.], [10., 40., -1.]], [[0., 10., 1.], [10., 40., 3.]], [[0., 40., 2.]]]
        kind = "pwl"
    else:
        cands = [[0.05, -3., 7.], [0.02, 2., 5.], [0., 1.5, 4.], [0., 0., 6.]] if m.get("quadratic", True) else [[0., -3., 7.], [0., 2., 5.], [0., 0., 6.]]
        kind = "poly"
    script = f"""# replay of {ob.id}
# oracle (property C17): after a converged OPF, net.res_cost equals the user's cost function of element type {et!r}
# evaluated at the element's own result power.
from replaylib.opf_cost import main
main({et!r}, {kind!r}, {cands!r})
"""
    return {"script": script, "description": f"OPF with a {kind} cost on a controllable {et}: res_cost vs. user's cost at the result"}
