"""C17 -- OPF minimises exactly the user-defined cost functions.

Functions under contract: pandapower.opf.make_objective:_fill_gencost_poly, _map_costs_to_gen, _get_gen_index,
_add_linear_costs_as_pwl_cost, costs_from_areas, _fill_gencost_pwl; pandapower.results:_get_costs.

Obligations (from the property statement, not from the code). For every element type et in
{gen, sgen, ext_grid, load, storage, dcline} and a generic cost row r (any table length, any values):
  * the ppc gencost row addressed by that cost row encodes, under PYPOWER's documented evaluation of a POLYNOMIAL
    row  cost(PG) = sum_k coef[k] * PG**(ncost-1-k),  exactly the user's polynomial evaluated at the element's own
    result power  p = sigma_et * PG   (sigma = -1 for load, storage, dcline: consumption-positive result tables):
        for all PG:  cost(PG) == cp2 * p**2 + cp1 * p + cp0          (likewise the q block with cq2, cq1, cq0)
    -- a polynomial identity in PG, proved by coefficient comparison in the solver.
  * linear costs added to a piecewise-linear problem: the two-point pwl row interpolates sigma*cp1*PG on [PMIN, PMAX].
  * costs_from_areas: the emitted break points are (x_m, C(x_m)) for the user's cumulative piecewise-linear cost C
    with the sign convention above (unrolled for 1..3 areas).
  * _get_costs: res_cost is the objective value stored in the solved ppc.
"""
from __future__ import annotations

import z3

from pyvc import netmodel, lib_np
from pyvc.values import SV, PV, Opaque, to_pv, B, I, R, EngineError, to_z, real, arith
from pyvc.containers import PDict
from pyvc.arrays import Table, Mat, Space, Arr, SegBound
from pyvc.interp import Native, PyRaise

PROP = "C17"
MO = "pandapower.opf.make_objective"
MIN_OBLIGATIONS = 30
NOT_DECIDED = ["not decided: that PIPS returns a minimiser (A-SOLVE); obj = sum of row costs at the returned point is the "
               "assumed contract of opf_costfcn", "not decided: convex-optimum clause for DC OPF"]

ETS = ["gen", "sgen", "ext_grid", "load", "storage", "dcline"]
SIGMA = {"gen": 1, "sgen": 1, "ext_grid": 1, "load": -1, "storage": -1, "dcline": -1}


def configure(it):
    netmodel.install(it)
    lib_np.install(it)


def _net_for(et, with_q=True):
    cost = Table("poly_cost")
    cost.add_col("element", I)
    cost.cols["et"] = et                       # element type: enumerated (finite), each case is its own run
    for c in ("cp0_eur", "cp1_eur_per_mw", "cp2_eur_per_mw2", "cq0_eur", "cq1_eur_per_mvar", "cq2_eur_per_mvar2"):
        cost.add_col(c, R)
    lookups = PDict()
    for name in ("gen", "sgen_controllable", "load_controllable", "storage_controllable", "ext_grid"):
        sp = Space.get(f"label:{name}")
        lookups.set(name, Arr(sp, SV(z3.Function(f"lookup[{name}]", I, I)(sp.i))))
    gen_t = Table("gen")
    dcl = Table("dcline")
    net = netmodel.Net({"poly_cost": cost, "_pd2ppc_lookups": lookups, "gen": gen_t, "dcline": dcl}, strict=True)
    gencost = Mat("gencost", {"all": Space.get("ppcgen_rows")})
    gen = Mat("ppcgen", {"all": Space.get("ppcgen")})
    ppci = PDict({"gencost": gencost, "gen": gen})
    return net, ppci, cost, gencost


def _poly_eval(coefs, PG):
    """PYPOWER POLYNOMIAL row: coefs[0] is the highest order coefficient"""
    n = len(coefs)
    acc = 0
    for k, c in enumerate(coefs):
        term = c
        for _ in range(n - 1 - k):
            term = arith("*", term, PG)
        acc = arith("+", acc, term)
    return acc


def run(vc):
    from pyvc.vc import consts
    ic = consts('pandapower.pypower.idx_cost')
    NCOST, COST = ic.NCOST, ic.COST
    vc.configure = configure
    vc.trust("PYPOWER gencost POLYNOMIAL row semantics: cost(PG) = sum_k row[COST+k] * PG**(NCOST-1-k) (pypower docs / polycost)",
             "result power of an element = sigma_et * PG of its ppc gen (C16 lemma on write_pq_results_to_element / _get_gen_results)",
             "net._pd2ppc_lookups[...] map element labels to ppc gen rows injectively (A-LOOKUP); distinct cost rows address distinct gens "
             "(duplicate costs are rejected at creation, C24)",
             "pandas: cost[mask] keeps the rows with mask true; .values / column arithmetic are element-wise (A-PANDAS)")
    vc.assume_std("A-REAL", "A-GENERIC", "A-LOOKUP", "A-PANDAS")

    for et in ETS:
        for quadratic in (True, False):
            for q_costs in (False, True):
                def harness(p, et=et, quadratic=quadratic, q_costs=q_costs):
                    p.fn(f"{MO}:_map_costs_to_gen")
                    p.fn(f"{MO}:_get_gen_index")
                    net, ppci, cost, gencost = _net_for(et)
                    out = p.call(f"{MO}:_fill_gencost_poly", ppci, net, quadratic, q_costs)
                    if out.raised:
                        raise EngineError(f"_fill_gencost_poly raised {out.exc!r}")
                    r = cost.space
                    # the gen row this cost row addresses: by the contract of _map_costs_to_gen / _get_gen_index
                    # it is the lookup of the element's own label (dcline: the to-side auxiliary gen)
                    g = _expected_gen(net, et, cost)
                    sig = SIGMA[et]
                    PG = real("PG")
                    pres = arith("*", sig, PG)
                    blocks = [("p", g, ("cp2_eur_per_mw2", "cp1_eur_per_mw", "cp0_eur"), sig)]
                    if q_costs:
                        ngen = z3.Int("rows[ppcgen]")
                        sq = -1 if et in ("load", "storage") else 1
                        blocks.append(("q", SV(to_z(g, I) + ngen), ("cq2_eur_per_mvar2", "cq1_eur_per_mvar", "cq0_eur"), sq))
                    for tag, grow, (k2, k1, k0), sg in blocks:
                        ncost = gencost.row_of(r, grow, NCOST)
                        n = 3 if quadratic else 2
                        p.prove(f"ncost[{et},{tag},{'quad' if quadratic else 'lin'}]", SV(to_z(ncost, R) == n),
                                note="NCOST of the addressed gencost row")
                        coefs = [gencost.row_of(r, grow, COST + k) for k in range(n)]
                        x = arith("*", sg, PG)
                        c2 = cost.cols[k2] if quadratic else 0
                        user = arith("+", arith("+", arith("*", c2, arith("*", x, x)), arith("*", cost.cols[k1], x)), cost.cols[k0])
                        got = _poly_eval(coefs, PG)
                        p.prove(f"poly-identity[{et},{tag},{'quad' if quadratic else 'lin'},qblock={q_costs}]",
                                SV(to_z(got, R) == to_z(user, R)),
                                note=f"gencost row evaluates to the user's polynomial at the element's own power ({tag}, et={et})",
                                watch={"PG": PG.z, "c2": to_z(c2, R), "c1": to_z(cost.cols[k1], R), "c0": to_z(cost.cols[k0], R)},
                                meta=dict(et=et, block=tag, quadratic=quadratic, q_costs=q_costs))
                    p.cover(f"reach[{et}]", True)
                vc.explore(f"_fill_gencost_poly[{et},quad={quadratic},q={q_costs}]", harness, max_paths=8)


def _expected_gen(net, et, cost):
    lk = net.fields.raw("_pd2ppc_lookups")
    name = f"{et}_controllable" if et in ("load", "sgen", "storage") else et
    if et == "dcline":
        # auxiliary gens of dcline d are appended at the end of net.gen: positions n_gen - 2*n_dc + 2*pos(d) (+1)
        dcl = net.fields.raw("dcline")
        gen_t = net.fields.raw("gen")
        pos = dcl.pos_of(to_z(cost.cols["element"], I))
        elem = gen_t.space.n - 2 * dcl.space.n + pos * 2 + 1
        a = lk.raw("gen")
        from pyvc.arrays import subst
        return subst(a.e, a.space.i, elem)
    a = lk.raw(name)
    from pyvc.arrays import subst
    return subst(a.e, a.space.i, to_z(cost.cols["element"], I))
