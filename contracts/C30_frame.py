"""C30 (b): every default diagnostic function leaves the element tables of the network as it found them."""
from __future__ import annotations

import ast

import z3

from pyvc import frame, lib_np, source
from pyvc.values import SV, Opaque, EngineError, B
from pyvc.containers import PDict
from pyvc.interp import Native, PyRaise, ObjVal, ClassVal

DF = "pandapower.diagnostic.diagnostic_functions"


class UnexpectedRunError(Exception):
    """an error of run(net) that is not one of expected_exceptions"""


def default_function_classes():
    """class names listed in diagnostic_functions.default_diagnostic_functions (read from the source)"""
    m = source.load_module(DF)
    node = m.defs.get("default_diagnostic_functions")
    names = []
    for sub in ast.walk(node):
        if isinstance(sub, ast.Call) and isinstance(sub.func, ast.Name) and sub.func.id[0].isupper():
            names.append(sub.func.id)
    if not names:
        raise source.SourceError("default_diagnostic_functions not found or empty")
    return names


def configure(it):
    lib_np.install(it)
    frame.install(it)

    def create_summary(table):
        def f(it, net, *a, **k):
            t = net.sym_getitem(it, table)
            t.write_rows(it, via=f"create_{table}")
            return Opaque(f"index of new {table}")
        return f
    # assumed frames of the creation functions (each appends rows to its own element table only)
    for mod, fn, table in (("pandapower.create.impedance_create", "create_impedance", "impedance"),
                           ("pandapower.create.switch_create", "create_switch", "switch"),
                           ("pandapower.create.ward_create", "create_ward", "ward")):
        it.summaries[f"{mod}:{fn}"] = create_summary(table)

    # read-only library code (assumed frame: no store into the net): graph construction and searches
    for key in ("pandapower.topology.create_graph:create_nxgraph", "pandapower.topology.graph_searches:connected_components",
                "pandapower.topology.graph_searches:connected_component", "pandapower.topology.graph_searches:unsupplied_buses"):
        it.summaries[key] = (lambda key: (lambda it, *a, **k: Opaque(key.split(":")[1] + "()")))(key)

    def replace_xward_by_ward(it, net, index=None, drop=True):
        for tname in ("ward", "xward"):
            net.sym_getitem(it, tname).write_rows(it, via="replace_xward_by_ward")
        return Opaque("new ward index")
    it.summaries["pandapower.toolbox.grid_modification:replace_xward_by_ward"] = replace_xward_by_ward


def run(vc):
    names = default_function_classes()
    vc.extra["diagnostic_functions_covered"] = names
    vc.trust("frame-tracking execution (pyvc.frame): reads of table cells are unknown values; all store forms on tables, columns, "
             ".values views and net attributes are tracked; DataFrame methods without inplace=True are read-only (A-PANDAS)",
             "run(net) (the power flow) leaves the element tables unchanged (C08) and may raise any of expected_exceptions",
             "assumed frames: create_impedance/create_switch/create_ward append rows to their own table; replace_xward_by_ward "
             "changes rows of ward and xward")

    from pyvc.frame_syntactic import Checker
    from pyvc.vc import Obligation
    from pyvc import solve
    ck = Checker()
    vc.extra["frame_by_syntactic_check"] = []
    for name in names:
        if ck.readonly(DF, f"{name}.diagnostic", ["net"]):
            # no store form can reach the net at all: discharged by the syntactic frame analysis
            vc.note_function(f"{DF}:{name}.diagnostic")
            ob = Obligation(f"C30/{name}.diagnostic/frame[{name}]@syntactic", "C30", "frame", [], z3.BoolVal(True), [f"{DF}:{name}.diagnostic"], 0,
                            note=f"{name}.diagnostic contains no store into anything reachable from `net` and passes it only to "
                                 "read-only callees (syntactic frame analysis, pyvc.frame_syntactic)",
                            meta=dict(clause="frame", function=name, label=f"frame[{name}]"))
            ob.result = solve.Result(solve.PROVED, "syntactic-frame", 0.0)
            vc.obligations.append(ob)
            vc.extra["frame_by_syntactic_check"].append(name)
            continue

        def h(p, name=name):
            frame_cfg = configure(p.it)
            cls = p.fn(f"{DF}:{name}")
            p.fn(f"{DF}:{name}.diagnostic")
            obj = p.call(cls)
            if obj.raised:
                raise EngineError(f"{name}() raised {obj.exc!r}")
            obj = obj.value
            net = frame.FrameNet()
            me = p.it.modenv(DF)
            expected = me.get("expected_exceptions")
            n_runs = [0]

            def run_pf(it, n, **kw):
                n_runs[0] += 1
                k = n_runs[0]
                if k > 6:
                    return None
                if it.truth(SV(z3.Bool(f"run#{k}_does_not_converge")), tag=f"run#{k} raises"):
                    exc_cls = expected[0]
                    raise PyRaise(it.instantiate(exc_cls, ["power flow did not converge"], {}))
                if it.truth(SV(z3.Bool(f"run#{k}_fails_otherwise")), tag=f"run#{k} raises another error"):
                    # any other error of the power flow (e.g. UserWarning "no reference bus"): diagnose_network swallows it
                    # (diag_errors), so the caller gets the net back after a normal return
                    raise PyRaise(UnexpectedRunError("the power flow failed with an error that is not a convergence error"))
                return None
            defaults = me.get("default_argument_values")
            kw = dict(defaults.to_dict()) if isinstance(defaults, PDict) else {}
            kw["run"] = Native(run_pf, pure=False, name="run")
            out = p.call(f"{DF}:{name}.diagnostic", obj, net, **kw)
            viol = frame.frame_violations(net)
            if out.raised:
                ok_exc = p.it.exc_matches(out.exc, expected) or isinstance(out.exc, UnexpectedRunError)
                if not ok_exc:
                    # exit by an unexpected exception: outside the statement's quantifier (reported as information only)
                    p.vc.extra.setdefault("unexpected_exception_exits", []).append(f"{name}: {out.exc!r}")
                    return
            p.prove(f"frame[{name}]", len(viol) == 0,
                    note=f"{name}.diagnostic leaves every element table of the net unchanged; violations on this path: {viol}",
                    meta=dict(clause="frame", function=name, violations=[f"{a}: {b}" for a, b in viol]))
            p.cover(f"frame-path[{name}]", True)
        vc.explore(f"{name}.diagnostic", h, max_paths=3000)
