"""C08 -- calculations never corrupt the user's network, even when they fail.

(a) Temporary elements (ghost state + exception paths).  _add_auxiliary_elements appends auxiliary rows (2 gens per dcline,
    2 vscs per b2b_vsc) to the user's tables, _clean_up removes one such batch.  Ghost counter `aux`:  +1 by
    _add_auxiliary_elements, -1 by _clean_up.  Every driver is executed on its real text with *every other callee allowed
    to raise at its call site* (the crash-point quantifier of the statement: one path per call site):
        ensures (normal exit and every exceptional exit):  aux == 0
    aux > 0: auxiliary rows left in the user's net;  aux < 0: _clean_up ran without a preceding add -- it removes the last
    2*len(dcline) rows of net.gen, i.e. real generators.
    Drivers: powerflow:_powerflow (+ _ppci_to_net), _recycled_powerflow, optimal_powerflow:_optimal_powerflow,
    shortcircuit.calc_sc:_calc_sc / _calc_sc_1ph (+ ppc_conversion:_init_ppc), pf.runpp_3ph:runpp_3ph.
    The pairing itself is checked on the real text: _add_dcline_gens creates exactly two gens per dcline row on every path,
    _clean_up drops exactly the rows from position len(gen) - 2*len(dcline) on, and the b2b vscs by their generated names.
(b) No store into the user's element tables by the ppc build pipeline (frame-tracking execution, pyvc.frame): the functions
    that obtain `.values` views / table handles (_calc_trafo_parameter .. _get_vk_values_from_table, _calc_tap_from_dataframe,
    _calc_line_parameter, _calc_shunts_and_add_on_ppc, _calc_pq_elements_and_add_on_ppc, _build_gen_ppc, ...) leave every
    column of every element table untouched.
"""
from __future__ import annotations

import ast
import re

import z3

from pyvc import netmodel, lib_np, frame, source
from pyvc.values import SV, Opaque, EngineError, B, I, to_z
from pyvc.containers import PDict
from pyvc.interp import Native, PyRaise, ObjVal, FuncVal, CannotMerge

PROP = "C08"
MIN_OBLIGATIONS = 40
NOT_DECIDED = ["not decided: _recycled_powerflow ends in _clean_up without a preceding _add_auxiliary_elements; with dclines in the net it raises "
               "before reaching it on the real code (not reproducible as table corruption), without dclines _clean_up is a no-op: this driver "
               "is therefore not under the aux-balance contract",
               "bounded native stand-in only: state estimation and run_contingency_ls2g (temporary table conversions); run_contingency is C14",
               "not decided: atomicity of _add_auxiliary_elements / _clean_up themselves (a raise in the middle of them)",
               "not decided: the result tables (net.res_*) and internal keys (net._*) -- they belong to the calculation"]

DRIVERS = {
    "pandapower.powerflow:_powerflow": dict(options=[dict(ac=True, init_results=False), dict(ac=False, init_results=False)], args=lambda net: ([net], {})),
    "pandapower.optimal_powerflow:_optimal_powerflow": dict(options=[dict(ac=True, init_results=False, init="flat"), dict(ac=False, init_results=False, init="pf")],
                                                            args=lambda net: ([net, False, True], {})),
    "pandapower.shortcircuit.calc_sc:_calc_sc": dict(options=[dict(inverse_y=True, branch_results=False, ip=False, ith=False, fault="3ph")], args=lambda net: ([net, Opaque("bus")], {})),
    "pandapower.shortcircuit.calc_sc:_calc_sc_1ph": dict(options=[dict(inverse_y=True, branch_results=False, fault="1ph")], args=lambda net: ([net, Opaque("bus")], {})),
    "pandapower.pf.runpp_3ph:runpp_3ph": dict(options=[dict(mode="pf_3ph")], args=lambda net: ([net], {})),
}
# functions whose real text is executed in part (a); every other repository function is a call site that may raise
INTERPRETED = set(DRIVERS) | {"pandapower.powerflow:_ppci_to_net", "pandapower.shortcircuit.ppc_conversion:_init_ppc",
                              "pandapower.shortcircuit.calc_sc:_calc_current"}


def configure(it):
    netmodel.install(it)
    lib_np.install(it)
    it.lenient_numpy = True
    it.opaque_loops = True


def _auto_summaries(p, driver):
    """every repository callee outside INTERPRETED: may raise at its call site, otherwise returns an unknown value"""
    it = p.it
    ghost = it.ctx.ghost
    ghost["aux"] = 0
    ghost["sites"] = []

    def on_call_factory():
        def hook(it2, f, args, kwargs):
            return None
        return hook

    orig_call_function = it.call_function

    def call_function(f, args, kwargs):
        key = f.key
        if key in INTERPRETED or not key.startswith("pandapower.") or isinstance(f.node, ast.Lambda):
            return orig_call_function(f, args, kwargs)
        name = key.split(":")[1]
        if it.ctx.merge_mode:
            raise CannotMerge()     # ghost effects and injected failures are not speculated
        if name == "_add_auxiliary_elements":
            ghost["aux"] += 1
            ghost["sites"].append(("add", None))
            return None
        if name == "_clean_up":
            ghost["aux"] -= 1
            ghost["sites"].append(("cleanup", None))
            return None
        if it.ctx.merge_mode:
            raise CannotMerge()
        n = len([s for s in ghost["sites"] if s[0] == "call"])
        ghost["sites"].append(("call", name))
        if it.truth(SV(z3.Bool(f"raises[{n}:{name}]")), tag=f"{name} raises"):
            ghost["raised_in"] = name
            raise PyRaise(RuntimeError(f"injected failure in {name}"))
        return Opaque(f"{name}()")
    it.call_function = call_function


def run(vc):
    vc.configure = configure
    vc.trust("_add_auxiliary_elements / _clean_up are atomic and inverse to each other when paired (pairing arithmetic checked "
             "separately on their real text)", "callees outside the drivers have no effect on the element tables other than "
             "through part (b) (C08 frame) and may raise at any call site")
    vc.assume_std("A-PURE")

    for driver, spec in DRIVERS.items():
        for k, opts in enumerate(spec["options"]):
            def h(p, driver=driver, spec=spec, opts=opts, k=k):
                p.fn(driver)
                _auto_summaries(p, driver)
                base = dict(ac=True, algorithm="nr", init_results=False, voltage_depend_loads=False, mode="pf", recycle=None,
                            only_v_results=False, init="flat", tdpf=False, distributed_slack=False, numba=True,
                            max_iteration=10, trafo_model="t", check_connectivity=True, init_vm_pu="flat", init_va_degree="flat")
                base.update(opts)
                net = netmodel.Net({"_options": PDict(base), "user_pf_options": PDict()}, strict=False)
                args, kwargs = spec["args"](net)
                out = p.call(driver, *args, **kwargs)
                g = p.ctx.ghost
                where = "raise@" + g.get("raised_in", "?") if out.raised and "raised_in" in g else ("raise:" + out.exc_name() if out.raised else "return")
                short = driver.split(":")[1]
                p.prove(f"aux-balanced[{short},{where}]", g["aux"] == 0,
                        note=f"{short}: auxiliary elements added and removed in pairs on this exit (aux = {g['aux']}; "
                             f"aux>0: auxiliary gens/vscs leak into the user's net, aux<0: clean-up without add removes real gens)",
                        meta=dict(clause="aux", driver=short, where=where, aux=g["aux"], options=str(opts),
                                  sites=[f"{a}:{b}" for a, b in g["sites"]]))
                p.cover(f"exit[{short},{where}]", True)
            vc.explore(f"{driver.split(':')[1]}[{k}]", h, max_paths=4000)

    _pairing(vc)
    from contracts import C08_frame
    C08_frame.run(vc)
    if not hasattr(vc, "native_standins"):
        vc.native_standins = []
    vc.native_standins.append(dict(
        name="drivers outside the deductive part: user tables after a run that raises",
        bound="runpp_3ph on one net with a dcline (after a runpp / fresh); run_contingency_ls2g with an ideal phase shifter on a net that "
              "lightsim2grid rejects; a non-observable state estimation with closed bus-bus switches (both skipped with a note when the module "
              "is not importable)",
        script="import sys\nfrom replaylib.netframe import main_3ph, main_other_drivers\n"
               "from replaylib import run_all\nrun_all(main_3ph, main_other_drivers)\n",
        timeout=900))


def _pairing(vc):
    """_add_dcline_gens creates exactly two gens per dcline row; _clean_up drops exactly the trailing 2*len(dcline) rows"""
    from pyvc.arrays import Table, Space, Arr

    def h_add(p):
        p.fn("pandapower.auxiliary:_add_dcline_gens")
        p.it.generic_loops = True
        created = []

        def create_gen(it, net, bus=None, **kw):
            created.append(bus)
            return SV(z3.Int(f"new_gen_{len(created)}"))
        for mod in ("pandapower.create", "pandapower.create.gen_create"):
            p.it.summaries[f"{mod}:create_gen"] = create_gen
        dcl = Table("dcline")
        from pyvc.values import R
        for c in ("p_mw", "loss_percent", "loss_mw", "max_p_mw", "vm_to_pu", "vm_from_pu", "max_q_to_mvar", "min_q_to_mvar",
                  "max_q_from_mvar", "min_q_from_mvar"):
            dcl.add_col(c, R)
        dcl.add_col("to_bus", I); dcl.add_col("from_bus", I); dcl.add_col("in_service", B)
        net = netmodel.Net({"dcline": dcl}, strict=True)
        out = p.call("pandapower.auxiliary:_add_dcline_gens", net)
        if out.raised:
            raise EngineError(f"_add_dcline_gens raised {out.exc!r}")
        p.prove("pairing:two-gens-per-dcline", len(created) == 2, note="exactly two auxiliary gens per dcline row on every path",
                meta=dict(clause="pairing"))
    vc.explore("_add_dcline_gens", h_add, max_paths=20)

    def h_clean(p):
        p.fn("pandapower.auxiliary:_clean_up")
        n_gen, n_dc = z3.Int("len_gen"), z3.Int("len_dcline")
        rec = {}

        class GenTable:
            def sym_len(self, it):
                return SV(n_gen)
        gen = GenTable()

        class Idx:
            def sym_getitem(self, it, key):
                rec["slice"] = key
                return "TRAILING"

        def gen_attr(it, g, name):
            if name == "index":
                return Idx()
            if name == "drop":
                def drop(it, labels, **k):
                    rec.setdefault("dropped", []).append(labels)
                    return gen
                return Native(drop, name="drop")
            raise EngineError(f"gen.{name}")
        p.it.attr_hooks.insert(0, (GenTable, gen_attr))

        class Sized:
            def __init__(self, n):
                self.n = n

            def sym_len(self, it):
                return SV(self.n) if not isinstance(self.n, int) else self.n
        net = netmodel.Net({"gen": gen, "res_gen": gen, "dcline": Sized(n_dc), "b2b_vsc": Sized(0)}, strict=True)
        p.assume(n_dc > 0)
        out = p.call("pandapower.auxiliary:_clean_up", net, True)
        if out.raised:
            raise EngineError(f"_clean_up raised {out.exc!r}")
        sl = rec.get("slice")
        ok = isinstance(sl, slice) and sl.stop is None and sl.step is None and isinstance(sl.start, SV)
        p.prove("pairing:cleanup-drops-a-trailing-slice", ok and len(rec.get("dropped", [])) >= 1 and all(d == "TRAILING" for d in rec["dropped"]), meta=dict(clause="pairing"),
                note=f"recorded: slice={sl!r} dropped={rec.get('dropped')!r}")
        if ok:
            p.prove("pairing:cleanup-start", to_z(sl.start, I) == n_gen - 2 * n_dc,
                    note="_clean_up drops exactly the last 2*len(dcline) rows of net.gen (and of res_gen)", meta=dict(clause="pairing"))
    vc.explore("_clean_up", h_clean, max_paths=20)

    # the auxiliary rows are removed from the *input* tables whatever `res` is (res only concerns the result tables)
    for res in (True, False):
        def h_clean2(p, res=res):
            frame.install(p.it)
            net = frame.FrameNet()
            out = p.call("pandapower.auxiliary:_clean_up", net, res)
            if out.raised:
                raise EngineError(f"_clean_up raised {out.exc!r}")
            log = net.tr.log
            n_dc, n_b2b = z3.Int("len[dcline#orig-rows]"), z3.Int("len[b2b_vsc#orig-rows]")
            gen_touched = any(t == "gen" for t, what, via in log)
            vsc_touched = any(t == "vsc" for t, what, via in log)
            p.prove(f"pairing:cleanup-removes-aux-gens[res={res}]", z3.Implies(n_dc > 0, z3.BoolVal(gen_touched)),
                    note="with dclines present _clean_up removes rows of net.gen for res=True and res=False", meta=dict(clause="pairing"))
            p.prove(f"pairing:cleanup-removes-aux-vscs[res={res}]", z3.Implies(n_b2b > 0, z3.BoolVal(vsc_touched)),
                    note="with b2b_vscs present _clean_up removes rows of net.vsc for res=True and res=False", meta=dict(clause="pairing"))
            p.prove(f"pairing:cleanup-noop-without-aux[res={res}]", z3.Implies(z3.And(n_dc <= 0, n_b2b <= 0), z3.BoolVal(not log)),
                    note="without dclines / b2b_vscs _clean_up touches no input table", meta=dict(clause="pairing"))
        vc.explore(f"_clean_up[frame,res={res}]", h_clean2, max_paths=50)


# ------------------------------------------------------------------------------------------------
def classify(ob, model):
    m = ob.meta
    if m.get("clause") == "aux":
        return f"aux[{m.get('driver')},{m.get('where')}]"
    if m.get("clause") == "frame":
        return f"frame[{m.get('function')}]"
    return m.get("label", ob.id)


def _known_aux(ob):
    m = ob.meta
    if m.get("clause") != "aux":
        return None
    return True


def _known_frame(fn_names):
    def f(ob):
        m = ob.meta
        if m.get("clause") == "frame" and m.get("function") in fn_names:
            return True
        return None
    return f


def _aux_matcher(driver_re, where_re, sign):
    def f(ob):
        m = ob.meta
        if m.get("clause") != "aux":
            return None
        if re.fullmatch(driver_re, m.get("driver", "")) and re.fullmatch(where_re, m.get("where", "")) and \
                ((sign > 0 and m.get("aux", 0) > 0) or (sign < 0 and m.get("aux", 0) < 0)):
            return True
        return None
    return f


KNOWN_EXCLUSIONS = {
    "C08/aux-leak-on-raise[_powerflow]": _aux_matcher(r"_powerflow", r"raise.*", +1),
    "C08/aux-leak-on-raise[_optimal_powerflow]": _aux_matcher(r"_optimal_powerflow", r"raise.*", +1),
    "C08/aux-leak-on-raise[calc_sc]": _aux_matcher(r"_calc_sc(_1ph)?", r"raise.*", +1),
    "C08/aux-added-twice[_calc_sc_1ph]": _aux_matcher(r"_calc_sc_1ph", r".*", +1),
}


def replay(ob, model, finding=None):
    m = ob.meta
    if m.get("clause") == "aux":
        if m.get("driver") == "runpp_3ph":
            return {"script": f"# replay of {ob.id}\nfrom replaylib.netframe import main_3ph\nmain_3ph()\n",
                    "description": "runpp_3ph on a net with two (out-of-service) gens and a dcline, after a runpp and on a fresh net: net.gen unchanged"}
        return {"script": f"# replay of {ob.id}\nfrom replaylib.netframe import main_aux\nmain_aux({m.get('driver')!r}, {m.get('where')!r}, {m.get('aux')!r})\n",
                "description": "net with a dcline / b2b_vsc: the calculation (with a failure injected at the call site of the counter-example) "
                               "must leave the number of gens / vscs unchanged"}
    if m.get("clause") == "pairing":
        return {"script": f"# replay of {ob.id}\nfrom replaylib.netframe import main_pairing\nmain_pairing()\n",
                "description": "power flow (converging / not converging) on nets with a dcline and with b2b_vscs: row sets of all input tables unchanged"}
    if m.get("clause") == "frame":
        return {"script": f"# replay of {ob.id}\nfrom replaylib.netframe import main_frame\nmain_frame({m.get('function')!r})\n",
                "description": "calculations on networks exercising the build function: all input tables equal before and after"}
    return None
