"""C02 part B (build functions against the documented per-unit models) and the two-port of branch_vectors."""
from __future__ import annotations

import z3

from pyvc.values import SV, CV, XV, PV, B, I, R, EngineError, to_z, real, arith, carith, compare, logic, ite, ssqrt, pi, scos, ssin
from pyvc.containers import PDict
from pyvc.arrays import Table, Mat, Space, Arr, subst
from pyvc.interp import Native, PyRaise
from pyvc.vc import consts
from pyvc import netmodel
from contracts import ppcmodel as pm

BB = "pandapower.build_branch"


def _line_net(mode="pf", with_loading=True):
    ib = consts("pandapower.pypower.idx_brch")
    iu = consts("pandapower.pypower.idx_bus")
    branch = pm.branch_mat()
    bus = pm.bus_mat()
    pm.colfun(bus, "all", iu.BASE_KV, R)
    lk, bs, idx = pm.branch_lookup()
    cols = {"from_bus": I, "to_bus": I, "length_km": R, "parallel": R, "r_ohm_per_km": R, "x_ohm_per_km": R, "c_nf_per_km": R,
            "g_us_per_km": R, "in_service": B, "max_i_ka": R, "df": R}
    if with_loading:
        cols["max_loading_percent"] = R
    line = pm.table("line", cols)
    bust = pm.table("bus", {"vn_kv": R})
    lsp = Space.get("label:bus")
    bus_lookup = Arr(lsp, SV(z3.Function("bus_lookup", I, I)(lsp.i)))
    net = netmodel.Net({"_pd2ppc_lookups": PDict({"branch": lk, "bus": bus_lookup}),
                        "_options": PDict({"mode": mode, "tdpf": False, "consider_line_temperature": False}),
                        "line": line, "bus": bust, "sn_mva": real("sn_mva"), "f_hz": real("f_hz")}, strict=True)
    ppc = PDict({"branch": branch, "bus": bus})
    return net, ppc, branch, bus, line, bust, bus_lookup, ib, iu


def _eq(p, label, got, want, note="", meta=None):
    p.prove(label, to_z(got, R) == to_z(want, R), note=note, meta=meta)


def run(vc):
    run_lines(vc)
    run_two_port(vc)


def run_lines(vc):
    # ---- lines -----------------------------------------------------------------------------------
    for mode in ("pf", "opf"):
        for with_loading in (True, False):
            def h(p, mode=mode, with_loading=with_loading):
                net, ppc, branch, bus, line, bust, bus_lookup, ib, iu = _line_net(mode, with_loading)
                lc = line.cols
                p.assume(compare(">", net.fields.raw("sn_mva"), 0)); p.assume(compare(">", lc["parallel"], 0))
                out = p.call(f"{BB}:_calc_line_parameter", net, ppc)
                if out.raised:
                    raise EngineError(f"_calc_line_parameter raised {out.exc!r}")
                fb = subst(bus_lookup.e, bus_lookup.space.i, to_z(lc["from_bus"], I))
                tb = subst(bus_lookup.e, bus_lookup.space.i, to_z(lc["to_bus"], I))
                vn = subst(bus.get("all", iu.BASE_KV), bus.segments["all"].i, to_z(fb, I))
                p.assume(compare(">", vn, 0))
                zn = arith("/", arith("*", vn, vn), net.fields.raw("sn_mva"))        # Z_N = V_N^2 / S_N (doc/elements/line.rst)
                L, par = lc["length_km"], lc["parallel"]
                tag = f"{mode},{'limit' if with_loading else 'nolimit'}"
                _eq(p, f"line-build:F_BUS[{tag}]", branch.get("line", ib.F_BUS), fb); _eq(p, f"line-build:T_BUS[{tag}]", branch.get("line", ib.T_BUS), tb)
                _eq(p, f"line-build:r[{tag}]", branch.get("line", ib.BR_R), arith("/", arith("/", arith("*", lc["r_ohm_per_km"], L), par), zn),
                    note="r = r' * l / parallel / Z_N")
                _eq(p, f"line-build:x[{tag}]", branch.get("line", ib.BR_X), arith("/", arith("/", arith("*", lc["x_ohm_per_km"], L), par), zn))
                w = arith("*", arith("*", 2, pi()), net.fields.raw("f_hz"))
                _eq(p, f"line-build:b[{tag}]", branch.get("line", ib.BR_B),
                    arith("*", arith("*", arith("*", arith("*", w, lc["c_nf_per_km"]), 1e-9), arith("*", L, par)), zn),
                    note="b = 2 pi f c' 1e-9 * l * parallel * Z_N")
                _eq(p, f"line-build:g[{tag}]", branch.get("line", ib.BR_G), arith("*", arith("*", arith("*", lc["g_us_per_km"], 1e-6), arith("*", L, par)), zn))
                p.prove(f"line-build:status[{tag}]", to_z(branch.get("line", ib.BR_STATUS), R) == to_z(ite(lc["in_service"], 1, 0), R))
                if with_loading:
                    vr = arith("*", bust.by_label(p.it, "vn_kv", to_z(lc["from_bus"], I)), ssqrt(3))
                    _eq(p, f"line-build:rate_a[{tag}]", branch.get("line", ib.RATE_A),
                        arith("*", arith("*", arith("*", arith("*", arith("/", lc["max_loading_percent"], 100), lc["max_i_ka"]), lc["df"]), par), vr),
                        note="RATE_A = max_loading/100 * max_i_ka * df * parallel * sqrt(3) vn (MVA limit of the OPF)")
                # frame: only the line block of ppc['branch'] is written
                p.prove(f"line-build:frame[{tag}]", all(seg == "line" for seg, col in branch.written) and not bus.written,
                        note="only rows of the line block of ppc['branch'] are written")
            vc.explore(f"_calc_line_parameter[{mode},{with_loading}]", h, max_paths=20)



def run_two_port(vc):
    # ---- two-port of branch_vectors -----------------------------------------------------------------
    def h_bv(p):
        ib = consts("pandapower.pypower.idx_brch")
        sp = Space.get("br")
        branch = Mat("branch", {"br": sp})
        c = {}
        for nm in ("BR_STATUS", "BR_R", "BR_X", "BR_B", "BR_G", "BR_R_ASYM", "BR_X_ASYM", "BR_G_ASYM", "BR_B_ASYM", "TAP", "SHIFT"):
            c[nm] = pm.colfun(branch, "br", getattr(ib, nm), R)
        out = p.call("pandapower.pypower.makeYbus:branch_vectors", branch, SV(sp.n))
        if out.raised:
            raise EngineError(f"branch_vectors raised {out.exc!r}")
        Ytt, Yff, Yft, Ytf = [x.e if isinstance(x, Arr) else x for x in out.value]
        # documented two-port (MATPOWER branch model): ideal transformer tau = t e^{j theta} at the from side, then the pi circuit
        st = c["BR_STATUS"]
        zf = CV(c["BR_R"], c["BR_X"]); zt = CV(arith("+", c["BR_R"], c["BR_R_ASYM"]), arith("+", c["BR_X"], c["BR_X_ASYM"]))
        yf = CV(c["BR_G"], c["BR_B"]); yt = CV(arith("+", c["BR_G"], c["BR_G_ASYM"]), arith("+", c["BR_B"], c["BR_B_ASYM"]))
        t = ite(compare("!=", c["TAP"], 0), c["TAP"], 1)
        th = arith("*", arith("/", pi(), 180), c["SHIFT"])
        tau = CV(arith("*", t, scos(th)), arith("*", t, ssin(th)))
        p.assume(z3.Or(to_z(c["BR_R"]) != 0, to_z(c["BR_X"]) != 0))
        p.assume(z3.Or(to_z(zt.re) != 0, to_z(zt.im) != 0))
        ysf = carith("/", CV(st, 0), zf); yst = carith("/", CV(st, 0), zt)
        spec = {"Ytt": carith("+", yst, carith("/", carith("*", CV(st, 0), yt), 2)),
                "Yff": carith("/", carith("+", ysf, carith("/", carith("*", CV(st, 0), yf), 2)), carith("*", tau, tau.conj())),
                "Yft": carith("/", carith("-", 0, ysf), tau.conj()),
                "Ytf": carith("/", carith("-", 0, yst), tau)}
        for nm, got in (("Ytt", Ytt), ("Yff", Yff), ("Yft", Yft), ("Ytf", Ytf)):
            want = spec[nm]
            got = got if isinstance(got, CV) else CV(got, 0)
            p.prove(f"two-port:{nm}.re", to_z(got.re, R) == to_z(want.re, R), note=f"{nm} of the branch two-port (real part)", meta=dict(part="two-port"))
            p.prove(f"two-port:{nm}.im", to_z(got.im, R) == to_z(want.im, R), meta=dict(part="two-port"))
    vc.explore("branch_vectors", h_bv, max_paths=20)
