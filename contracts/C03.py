"""C03 -- energy conservation and non-negative losses of passive branches.

Functions under contract: pandapower.results_branch:_get_line_results / _get_trafo_results / _get_trafo3w_results /
_get_impedance_results (pl = sum of terminal powers; shared with C02), pandapower.pypower.makeYbus:branch_vectors
(passivity lemma), pandapower.pf.run_dc_pf:_run_dc_pf (DC: p_to = -p_from, reactive flows zero, slack dispatch).

  * pl_mw = p_from_mw + p_to_mw (AC), = 0 (DC) for every branch element -- obligations of the C02 result contracts.
  * Passivity lemma on the admittances actually returned by branch_vectors: for every complex Vf, Vt, tap ratio t != 0,
    shift theta, r >= 0, g >= 0 (no asymmetric series part), (r, x) != 0:
        Re( Vf conj(Yff Vf + Yft Vt) + Vt conj(Ytf Vf + Ytt Vt) ) >= 0
    i.e. every branch whose series resistance and shunt conductance are non-negative has non-negative active losses for
    every voltage pair (not only for the solved ones).
  * DC power flow (_run_dc_pf): branch[:, PT] = -branch[:, PF], QF = QT = 0; the slack power is distributed over the
    reference generators of a bus so that their sum is the bus mismatch: the divisor bincount(...) must count exactly
    the population the result is assigned to (the reference generators, by their bus).
"""
from __future__ import annotations

import z3

from pyvc.values import SV, CV, XV, PV, B, I, R, EngineError, to_z, real, arith, carith, compare, logic, ite, ssqrt, pi, scos, ssin, Opaque
from pyvc.containers import PDict
from pyvc.arrays import Table, Mat, Space, Arr, subst
from pyvc.interp import Native, PyRaise
from pyvc.vc import consts
from pyvc import netmodel
from contracts import ppcmodel as pm
from contracts import C02

PROP = "C03"
MIN_OBLIGATIONS = 30
NOT_DECIDED = ["not decided: global balance 'generation - consumption = sum of losses' for AC (sum over buses of the nodal balance: C01, A-SOLVE)",
               "not decided: branches with an asymmetric series impedance (non-reciprocal two-port: the statement's hypothesis is not sufficient)"]


def configure(it):
    C02.configure(it)


def run(vc):
    vc.configure = configure
    vc.trust("documented result formulas (C02)", "sparse matrix products Bf*Va, B[rows,:]*Va are functions of their operands (A-SCIPY, A-PURE)",
             "np.bincount(a)[k] is the number of entries of a equal to k (A-NUMPY)")
    vc.assume_std("A-REAL", "A-GENERIC", "A-LOOKUP", "A-NUMPY", "A-SUM")
    # (1) pl = p_from + p_to: the result-transcription obligations of C02 (same functions, same obligations)
    C02.run_results(vc)
    for ob in vc.obligations:
        ob.id = ob.id.replace("C02/", "C03/", 1)
        ob.prop = "C03"

    # (2) passivity lemma
    def h_pass(p):
        ib = consts("pandapower.pypower.idx_brch")
        sp = Space.get("br")
        branch = Mat("branch", {"br": sp})
        c = {}
        for nm in ("BR_STATUS", "BR_R", "BR_X", "BR_B", "BR_G", "TAP", "SHIFT"):
            c[nm] = pm.colfun(branch, "br", getattr(ib, nm), R)
        for nm in ("BR_R_ASYM", "BR_X_ASYM", "BR_G_ASYM", "BR_B_ASYM"):
            branch.cols[("br", getattr(ib, nm))] = 0.0
        out = p.call("pandapower.pypower.makeYbus:branch_vectors", branch, SV(sp.n))
        if out.raised:
            raise EngineError(f"branch_vectors raised {out.exc!r}")
        Ytt, Yff, Yft, Ytf = [CV(x.e, 0) if not isinstance(x.e, CV) else x.e for x in out.value]
        Vf, Vt = CV(real("vf_re"), real("vf_im")), CV(real("vt_re"), real("vt_im"))
        st = to_z(c["BR_STATUS"])
        p.assume(z3.Or(st == 0, st == 1))
        p.assume(to_z(c["BR_R"]) >= 0); p.assume(to_z(c["BR_G"]) >= 0)
        p.assume(z3.Or(to_z(c["BR_R"]) != 0, to_z(c["BR_X"]) != 0))
        If = carith("+", carith("*", Yff, Vf), carith("*", Yft, Vt))
        It = carith("+", carith("*", Ytf, Vf), carith("*", Ytt, Vt))
        loss = arith("+", carith("*", Vf, If.conj()).re, carith("*", Vt, It.conj()).re)
        # certificate: with u = Vf / tau,  loss = st * ( gs |u - Vt|^2 + g/2 (|u|^2 + |Vt|^2) ),  gs = r / (r^2 + x^2)
        t = ite(compare("!=", c["TAP"], 0), c["TAP"], 1)
        th = arith("*", arith("/", pi(), 180), c["SHIFT"])
        tau = CV(arith("*", t, scos(th)), arith("*", t, ssin(th)))
        u = carith("/", Vf, tau)
        d = carith("-", u, Vt)
        n2 = lambda zc: arith("+", arith("*", zc.re, zc.re), arith("*", zc.im, zc.im))
        gs = arith("/", c["BR_R"], arith("+", arith("*", c["BR_R"], c["BR_R"]), arith("*", c["BR_X"], c["BR_X"])))

        def cert(dd, uu, vv):
            return arith("*", c["BR_STATUS"], arith("+", arith("*", gs, dd), arith("*", arith("/", c["BR_G"], 2), arith("+", uu, vv))))
        p.prove("passivity:certificate-identity", to_z(loss, R) == to_z(cert(n2(d), n2(u), n2(Vt)), R), kind="lemma",
                note="loss of the two-port returned by branch_vectors = st (gs |Vf/tau - Vt|^2 + g/2 (|Vf/tau|^2 + |Vt|^2)), gs = r/(r^2+x^2)",
                meta=dict(part="passivity"))
        # non-negativity, generalised over the squared moduli (any non-negative reals)
        sq = [real(n) for n in ("sq_d_re", "sq_d_im", "sq_u_re", "sq_u_im", "sq_v_re", "sq_v_im")]
        m2 = lambda a, b: arith("+", arith("*", a, a), arith("*", b, b))
        dd, uu, vv = real("m_d"), real("m_u"), real("m_v")
        for k, (a, b, mm) in enumerate(((sq[0], sq[1], dd), (sq[2], sq[3], uu), (sq[4], sq[5], vv))):
            p.prove(f"passivity:modulus-nonnegative[{k}]", to_z(m2(a, b), R) >= 0, kind="lemma", meta=dict(part="passivity"))
        den = arith("+", arith("*", c["BR_R"], c["BR_R"]), arith("*", c["BR_X"], c["BR_X"]))
        p.prove("passivity:series-conductance-nonnegative", z3.And(to_z(den, R) > 0, to_z(gs, R) >= 0), kind="lemma",
                note="r >= 0 and (r, x) != 0  =>  r / (r^2 + x^2) >= 0", meta=dict(part="passivity"))
        gsv = real("gs_abstract")
        certz = to_z(arith("*", c["BR_STATUS"], arith("+", arith("*", gsv, dd), arith("*", arith("/", c["BR_G"], 2), arith("+", uu, vv)))), R)
        p.prove("passivity:certificate-nonnegative",
                z3.Implies(z3.And(to_z(dd) >= 0, to_z(uu) >= 0, to_z(vv) >= 0, to_z(gsv) >= 0), certz >= 0), kind="lemma",
                note="st in {0,1}, gs >= 0, g >= 0, moduli >= 0  =>  certificate >= 0 (generalised over gs and the squared moduli)",
                meta=dict(part="passivity"))
    vc.explore("branch_vectors[passivity]", h_pass, max_paths=10)

    # (3) DC power flow
    def h_dc(p):
        ib = consts("pandapower.pypower.idx_brch"); iu = consts("pandapower.pypower.idx_bus"); ig = consts("pandapower.pypower.idx_gen")
        bsp, gsp, rsp = Space.get("br"), Space.get("ppcgen"), Space.get("refgens")
        branch = Mat("branch", {"br": bsp}); bus = Mat("bus", {"all": Space.get("ppcbus")}); gen = Mat("gen", {"all": gsp})
        pm.colfun(gen, "all", ig.GEN_BUS, I); pm.colfun(gen, "all", ig.PG, R)
        pm.colfun(bus, "all", iu.VA, R); pm.colfun(bus, "all", iu.GS, R)
        ref_gens = Arr(rsp, SV(z3.Function("ref_gens", I, I)(rsp.i)))
        baseMVA = real("baseMVA")
        F_Bf = z3.Function("Bf*Va", I, R); F_Pfinj = z3.Function("Pfinj", I, R); F_BVa = z3.Function("B[b,:]*Va", I, R); F_Pbus = z3.Function("Pbus", I, R)
        rec = {}

        class SparseLike:
            def __init__(self, fn, space):
                self.fn, self.space = fn, space

            def sym_binop(self, it, op, a, b):
                if op == "*" and a is self:
                    return Arr(self.space, SV(self.fn(self.space.i)))
                return NotImplemented

            def sym_getitem(self, it, key):
                rows = key[0] if isinstance(key, tuple) else key
                return SparseRows(self, rows)

        class SparseRows:
            def __init__(self, m, rows):
                self.m, self.rows = m, rows

            def sym_binop(self, it, op, a, b):
                if op == "*" and a is self:
                    return Arr(self.rows.space, SV(F_BVa(to_z(self.rows.e, I))), self.rows.mask)
                return NotImplemented
        Bm, Bfm = SparseLike(F_BVa, Space.get("ppcbus")), SparseLike(F_Bf, bsp)
        Pfinj = Arr(bsp, SV(F_Pfinj(bsp.i)))

        def get_vars(it, ppci):
            return (baseMVA, bus, gen, branch, Opaque("svc"), Opaque("tcsc"), Opaque("ssc"), Opaque("vsc"), Opaque("ref"), Opaque("pv"),
                    Opaque("pq"), Opaque("x"), ref_gens)
        p.it.summaries["pandapower.pf.ppci_variables:_get_pf_variables_from_ppci"] = get_vars
        p.it.summaries["pandapower.pypower.makeBdc:makeBdc"] = lambda it, b, br: (Bm, Bfm, Arr(Space.get("ppcbus"), SV(z3.Function("Pbusinj", I, R)(Space.get("ppcbus").i))), Pfinj, Opaque("Cft"))
        sb = Space.get("ppcbus")
        p.it.summaries["pandapower.pypower.makeSbus:makeSbus"] = lambda it, *a, **k: Arr(sb, SV(z3.Function("Sbus", I, R)(sb.i)))
        p.it.summaries["pandapower.pypower.dcpf:dcpf"] = lambda it, *a, **k: Arr(sb, SV(z3.Function("Va", I, R)(sb.i)))

        def store(it, ppci, bus_, gen_, branch_, success, iterations, et):
            rec["stored"] = (bus_, gen_, branch_)
            return ppci
        p.it.summaries["pandapower.pf.ppci_variables:_store_results_from_pf_in_ppci"] = store

        def bincount(it, a, **k):
            a = a.arr() if hasattr(a, "arr") else a
            rec["bincount_population"] = (a.space, a.mask, a.e)
            cnt = z3.Function(f"count[{a.space.name}]", I, I)
            return Arr(Space.get("ppcbus"), SV(cnt(Space.get("ppcbus").i)))
        me = p.it.modenv("pandapower.pf.run_dc_pf")
        for nm in ("bincount",):
            if me.has(nm):
                me.vals[nm] = Native(bincount, name="bincount")
        ppci = PDict({"internal": PDict(), "baseMVA": baseMVA, "bus": bus, "gen": gen, "branch": branch})
        out = p.call("pandapower.pf.run_dc_pf:_run_dc_pf", ppci, None)
        if out.raised:
            raise EngineError(f"_run_dc_pf raised {out.exc!r}")
        PF, PT = branch.get("br", ib.PF), branch.get("br", ib.PT)
        p.prove("dc:pt-is-minus-pf", to_z(PT, R) == -to_z(PF, R), note="DC branch flows: p_to = -p_from (zero losses)", meta=dict(part="dc"))
        p.prove("dc:pf-is-Bf-Va-plus-shift", to_z(PF, R) == (F_Bf(bsp.i) + F_Pfinj(bsp.i)) * baseMVA.z,
                note="p_from = (Bf Va + Pfinj) * baseMVA", meta=dict(part="dc"))
        p.prove("dc:q-zero", z3.And(to_z(branch.get("br", ib.QF), R) == 0, to_z(branch.get("br", ib.QT), R) == 0), meta=dict(part="dc"))
        # slack dispatch: for the generic reference generator g at bus b: PG' - PG = mismatch(b) * baseMVA / count(b), where count
        # must be the number of *reference generators* at b, so that the increments of the generators at b sum up to the mismatch
        pop = rec.get("bincount_population")
        if pop is None:
            raise EngineError("_run_dc_pf no longer uses bincount for the slack dispatch: contract needs revision")
        g_bus = subst(gen.get("all", ig.GEN_BUS), gsp.i, to_z(ref_gens.e, I))
        p.prove("dc:slack-count-population", pop[0] is rsp and pop[1] is True and z3.eq(z3.simplify(to_z(pop[2], I)), z3.simplify(to_z(g_bus, I))),
                note="the divisor counts exactly the reference generators by their bus (so that their increments add up to the bus mismatch)",
                meta=dict(part="dc-slack"))
        newpg = gen.row_of(rsp, ref_gens.e, ig.PG, p.it)
        oldpg = z3.Function("gen[all,%d]" % ig.PG, I, R)(to_z(ref_gens.e, I))
        zb = to_z(g_bus, I)
        Pbus = z3.Function("Sbus", I, R)(zb) - z3.Function("Pbusinj", I, R)(zb) - z3.Function("bus[all,%d]" % iu.GS, I, R)(zb) / baseMVA.z
        cnt = z3.Function(f"count[{pop[0].name}]", I, I)(zb)
        p.assume(cnt >= 1)
        p.prove("dc:slack-dispatch", to_z(newpg, R) == oldpg + (F_BVa(zb) - Pbus) * baseMVA.z / z3.ToReal(cnt),
                note="PG' = PG + (B Va - Pbus)[bus] * baseMVA / #(reference generators at the bus)", meta=dict(part="dc-slack"))
    vc.explore("_run_dc_pf", h_dc, max_paths=20)
    run_single_slack(vc)
    _standins(vc)


def _standins(vc):
    if not hasattr(vc, "native_standins"):
        vc.native_standins = []
    vc.native_standins.append(dict(
        name="energy balance of converged power flows on fixed networks",
        bound="example_multivoltage, case9 and small networks: DC balance, branch losses, single-slack result routine; algorithms nr / "
              "iwamoto_nr / gs / fdbx / fdxb with a constant-current / constant-impedance load; bfsw with an ideal phase shifter inside a mesh",
        script="from replaylib import run_all\nfrom replaylib.balance import main_dc, main_losses, main_single_slack, main_algorithms\n"
               "run_all(main_dc, main_losses, main_single_slack, main_algorithms)\n", timeout=900))


def classify(ob, model):
    return ob.meta.get("part", ob.meta.get("label", ob.id).split("[")[0])


def run_single_slack(vc):
    """the fast result routine for networks with one machine: slack power = total demand + total branch losses (+ FACTS), which is the
    energy balance of the whole network exactly when no bus has a shunt admittance (the routine's documented precondition, established by
    its caller: C01.run_pfsoln_choice)"""
    from contracts import C01
    from pyvc.sigma import sigma
    from pyvc.interp import Native
    from pyvc.lib_np import Cols
    C01.run_pfsoln_choice(vc)
    PN = "pandapower.pf.pfsoln_numba"
    iu, ig, ib = consts("pandapower.pypower.idx_bus"), consts("pandapower.pypower.idx_gen"), consts("pandapower.pypower.idx_brch")

    def h(p):
        bus = pm.bus_mat()
        pd_, qd_ = pm.colfun(bus, "all", iu.PD), pm.colfun(bus, "all", iu.QD)
        gs, bs = pm.colfun(bus, "all", iu.GS), pm.colfun(bus, "all", iu.BS)
        gen = Mat("gen", {"all": Space.get("ppcgen")})
        br = Mat("branch", {"all": Space.get("ppcbranch")})
        flows = {c: pm.colfun(br, "all", c) for c in (ib.PF, ib.PT, ib.QF, ib.QT)}
        me = p.it.modenv(PN)
        me.vals["_update_v"] = Native(lambda it, b, V: None, name="_update_v", pure=False)
        me.vals["_update_branch_flows"] = Native(lambda it, Yf, Yt, V, baseMVA, branch: branch, name="_update_branch_flows")
        empty = {}
        for nm in ("svc", "tcsc", "ssc", "vsc"):
            empty[nm] = Mat(nm, {"all": Space.get(f"ppc{nm}")})
            p.assume(empty[nm].segments["all"].n == 0)
        # precondition of the routine (documented; established by _get_numba_functions): no shunt admittance at any bus
        bsp = bus.segments["all"]
        p.assume(z3.And(to_z(gs, R) == 0, to_z(bs, R) == 0))
        p.assume(z3.And(to_z(sigma(p.it, Arr(bsp, gs)), R) == 0, to_z(sigma(p.it, Arr(bsp, bs)), R) == 0))
        p.assume(gen.segments["all"].n == 1)
        o = Opaque
        out = p.call(f"{PN}:pf_solution_single_slack", SV(z3.Real("baseMVA")), bus, gen, br, empty["svc"], empty["tcsc"], empty["ssc"], empty["vsc"],
                     o("Ybus"), o("Yf"), o("Yt"), o("V"), o("ref"), o("ref_gens"))
        if out.raised:
            raise EngineError(f"pf_solution_single_slack raised {out.exc!r}")
        brsp = br.segments["all"]
        loss_p = to_z(sigma(p.it, Arr(brsp, flows[ib.PF])), R) + to_z(sigma(p.it, Arr(brsp, flows[ib.PT])), R)
        loss_q = to_z(sigma(p.it, Arr(brsp, flows[ib.QF])), R) + to_z(sigma(p.it, Arr(brsp, flows[ib.QT])), R)
        dem_p, dem_q = to_z(sigma(p.it, Arr(bsp, pd_)), R), to_z(sigma(p.it, Arr(bsp, qd_)), R)
        p.prove("single-slack: generation = total demand + total branch losses (P)", to_z(gen.get("all", ig.PG), R) == dem_p + loss_p,
                meta=dict(part="single-slack"), note="the only machine supplies the sum of all bus demands and of p_from + p_to of all branches")
        p.prove("single-slack: generation = total demand + total branch losses (Q)", to_z(gen.get("all", ig.QG), R) == dem_q + loss_q,
                meta=dict(part="single-slack"))
    vc.explore("pf_solution_single_slack", h, max_paths=20)


def replay(ob, model, finding=None):
    part = ob.meta.get("part", "")
    if part in ("single-slack", "pfsoln-choice"):
        return {"script": f"# replay of {ob.id}\nfrom replaylib.balance import main_single_slack\nmain_single_slack()\n",
                "description": "AC power flows of single ext_grid networks with resistive / cancelling shunt elements: generation - consumption = losses"}
    if part.startswith("dc"):
        return {"script": f"# replay of {ob.id}\nfrom replaylib.balance import main_dc\nmain_dc()\n",
                "description": "DC power flows: p_to = -p_from, total generation = total consumption (also with generators sharing the slack bus)"}
    if part == "passivity":
        return {"script": f"# replay of {ob.id}\nfrom replaylib.balance import main_losses\nmain_losses()\n",
                "description": "AC power flows on passive networks: pl_mw >= 0 for every branch"}
    return C02.replay(ob, model, finding)
