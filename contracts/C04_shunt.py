"""C04 (part 2) -- shunts, wards and extended wards: the voltage law of the result tables is the law of the network model.

Functions under contract (real text): pandapower.build_bus:_calc_shunts_and_add_on_ppc, _get_shunt_vn_kv;
pandapower.results_bus:_get_shunt_results.

For tables of any length (generic row), without step characteristic tables and without FACTS devices (stated below as not decided):

  model      the admittance to ground that the bus matrix gets at node n (GS, -BS of ppc['bus']) is the sum, over the rows of shunt, ward
             and xward whose own bus maps to n, of the element's in-service rated power at 1 p.u.:
                 shunt:  (p_mw, q_mvar) * step * (vn_bus / vn_shunt)^2      vn_shunt := the shunt's vn_kv, or the bus voltage if NaN
                 ward / xward:  (pz_mw, qz_mvar)
             (stored once per node through the distinct keys of the grouping of the looked-up buses)
  results    res_shunt.p_mw = vm^2 * (its model power), q likewise, vm_pu = vm of its own node (0 for an unsupplied node);
             res_ward / res_xward: the constant-impedance part vm^2 * pz is *added* to what the table holds (the constant-power part);
             the bus sums (bus_pq += ...) are grouped by the element's own bus with the same per-row powers.
So every element reports exactly the power that the solved network model takes at its bus (nodal balance includes the shunts), and the
quadratic voltage law / step / voltage-rating scaling of the property statement hold for each element.
"""
from __future__ import annotations

import z3

from pyvc import netmodel
from pyvc.values import SV, CV, XV, PV, B, I, R, EngineError, to_z, Opaque
from pyvc.arrays import Space, Arr, Table, MappedKeys
from pyvc.containers import PDict
from pyvc.interp import Native
from pyvc.lib_np import Cat
from pyvc.vc import consts
from contracts import ppcmodel as pm
from contracts.C11_loads import GK, GroupSum, _sum_by_group

BB = "pandapower.build_bus"
RB = "pandapower.results_bus"
NOT_DECIDED = ["not decided: shunts with step characteristic tables (step_dependency_table), svc / ssc / vsc results, the star-point "
               "losses of trafo3w in _calc_shunts_and_add_on_ppc (trafo3w_losses='star')"]


class _Old:
    """bus_pq[keys, col] read for an in-place `+=`"""
    no_identity_merge = True

    def __init__(self, keys, col):
        self.keys, self.col = keys, col

    def sym_binop(self, it, op, a, b):
        if op == "+" and isinstance(a, _Old) and isinstance(b, GroupSum):
            return _Acc(a, b)
        return NotImplemented


class _Acc:
    no_identity_merge = True

    def __init__(self, old, add):
        self.old, self.add = old, add


class BusPQ:
    """the bus_pq accumulator of the result functions: records  bus_pq[keys, col] += group sums"""

    def __init__(self):
        self.adds = []

    def sym_getitem(self, it, key):
        keys, col = key
        return _Old(keys, col)

    def sym_setitem(self, it, key, val):
        keys, col = key
        ok = isinstance(val, _Acc) and val.old.keys is keys and val.old.col == col
        self.adds.append((keys, col, val.add if ok else None))


def _tables():
    sh = pm.table("shunt", {"bus": I, "p_mw": R, "q_mvar": R, "step": R, "vn_kv": "nan"})
    wd = pm.table("ward", {"bus": I, "pz_mw": R, "qz_mvar": R})
    xw = pm.table("xward", {"bus": I, "pz_mw": R, "qz_mvar": R})
    bus_t = pm.table("bus", {"vn_kv": R})
    return sh, wd, xw, bus_t


def _num(e):
    """(value, is-not-NaN) of an element that may carry a NaN flag"""
    if isinstance(e, XV):
        return to_z(e.v, R), z3.Not(e.nan) if not isinstance(e.nan, bool) else z3.BoolVal(not e.nan)
    return to_z(e, R), z3.BoolVal(True)


def _patch_sum(p, mod):
    p.it.summaries["pandapower.auxiliary:_sum_by_group"] = _sum_by_group
    me = p.it.modenv(mod)
    if me.has("_sum_by_group"):
        me.vals["_sum_by_group"] = Native(_sum_by_group, name="_sum_by_group")


def _model_power(p, tabs, act, bus_mat, bl, iu, et):
    """(p, q) at 1 p.u. of the generic row of table et as the property states it"""
    t = tabs[et]
    c = t.cols
    a = z3.If(to_z(act[et].e), z3.RealVal(1), z3.RealVal(0))
    if et == "shunt":
        node = z3.substitute(to_z(bl.e, I), (bl.space.i, to_z(c["bus"], I)))
        vn_bus = to_z(bus_mat.row_of(t.space, SV(node), iu.BASE_KV, p.it), R)
        own_bus_vn = z3.substitute(to_z(tabs["bus"].cols["vn_kv"], R), (tabs["bus"].space.i, tabs["bus"].pos_of(to_z(c["bus"], I))))
        vn = z3.If(c["vn_kv"].nan, own_bus_vn, to_z(c["vn_kv"].v, R))
        ratio = (vn_bus / vn) * (vn_bus / vn)
        return to_z(c["p_mw"], R) * to_z(c["step"], R) * ratio * a, to_z(c["q_mvar"], R) * to_z(c["step"], R) * ratio * a, node
    node = z3.substitute(to_z(bl.e, I), (bl.space.i, to_z(c["bus"], I)))
    return to_z(c["pz_mw"], R) * a, to_z(c["qz_mvar"], R) * a, node


def run(vc):
    iu = consts("pandapower.pypower.idx_bus")
    vc.not_decided_extra = getattr(vc, "not_decided_extra", []) + NOT_DECIDED

    def setup(p):
        sh, wd, xw, bus_t = _tables()
        tabs = {"shunt": sh, "ward": wd, "xward": xw, "bus": bus_t}
        act = {et: Arr(tabs[et].space, SV(z3.Function(f"in_service_and_supplied[{et}]", I, B)(tabs[et].space.i))) for et in ("shunt", "ward", "xward")}
        lsp = Space.get("label:bus")
        bl = Arr(lsp, SV(z3.Function("bus_lookup", I, I)(lsp.i)))
        bus = pm.bus_mat()
        for c in (iu.BASE_KV, iu.VM):
            pm.colfun(bus, "all", c)
            k = z3.Int("k!node")
            f = z3.Function(f"{bus.name}[all,{c}]", I, R)
            p.assume(z3.ForAll([k], f(k) > 0, patterns=[f(k)]))        # rated voltages and voltage magnitudes of supplied nodes are positive
        for et in ("shunt",):
            c = tabs[et].cols
            p.assume(z3.Implies(z3.Not(c["vn_kv"].nan), to_z(c["vn_kv"].v, R) != 0))
        return tabs, act, bl, bus

    # ---- the network model ------------------------------------------------------------------------------------------------------------
    def h_build(p):
        tabs, act, bl, bus = setup(p)
        t3 = pm.table("trafo3w", {"hv_bus": I})
        p.assume(t3.space.n == 0)
        net = netmodel.Net({"_options": PDict({"mode": "pf", "trafo3w_losses": "hv"}), "_is_elements": PDict(dict(act)),
                            "_pd2ppc_lookups": PDict({"bus": bl}), "shunt": tabs["shunt"], "ward": tabs["ward"], "xward": tabs["xward"],
                            "bus": tabs["bus"], "trafo3w": t3}, strict=True)
        _patch_sum(p, BB)
        p.fn(f"{BB}:_get_shunt_vn_kv")
        out = p.call(f"{BB}:_calc_shunts_and_add_on_ppc", net, PDict({"bus": bus}))
        if out.raised:
            raise EngineError(f"_calc_shunts_and_add_on_ppc raised {out.exc!r}")
        gs = getattr(bus, "group_stores", {})
        some = z3.Or(*[tabs[et].space.n > 0 for et in ("shunt", "ward", "xward")])
        if iu.GS not in gs or iu.BS not in gs:
            p.prove("model: nothing stored only if there is no shunt, ward or xward", z3.Not(some), meta=dict(part="shunt-model"))
            return
        by_space = {tabs[et].space: et for et in ("shunt", "ward", "xward")}
        for col, which, sign in ((iu.GS, 0, 1), (iu.BS, 1, -1)):
            keys, val = gs[col]
            nm = "GS" if col == iu.GS else "BS"
            ok = isinstance(keys, GK) and isinstance(val, GroupSum) and val.b is keys.b
            p.prove(f"model:{nm}: one entry per node, the group sums of the grouping", ok, meta=dict(part="shunt-structure"))
            if not ok:
                continue
            kparts = keys.b.parts if isinstance(keys.b, Cat) else [keys.b]
            vparts = val.val.parts if isinstance(val.val, Cat) else [val.val]
            shape = len(kparts) == len(vparts) and all(isinstance(k, Arr) and isinstance(v, Arr) and k.space is v.space and k.space in by_space
                                                       for k, v in zip(kparts, vparts))
            p.prove(f"model:{nm}: keys and values come from the same element rows", shape, meta=dict(part="shunt-structure"))
            if not shape:
                continue
            seen = [by_space[k.space] for k in kparts]
            p.prove(f"model:{nm}: no table contributes twice", len(seen) == len(set(seen)), meta=dict(part="shunt-structure"))
            for et in ("shunt", "ward", "xward"):
                p.prove(f"model:{nm}: every table with rows contributes [{et}]", z3.Or(tabs[et].space.n <= 0, z3.BoolVal(et in seen)), meta=dict(part="shunt-model"))
            for k, v in zip(kparts, vparts):
                et = by_space[k.space]
                pw, qw, node = _model_power(p, tabs, act, bus, bl, iu, et)
                p.prove(f"model:{nm}[{et}]: grouped by the node of the element's own bus, every row", z3.And(to_z(k.e, I) == node, k.mask is True, v.mask is True),
                        meta=dict(part="shunt-model", et=et))
                p.prove(f"model:{nm}[{et}]: rated power at 1 p.u. with step and voltage rating, zero when out of service",
                        z3.And(_num(v.e)[0] == sign * (pw, qw)[which], _num(v.e)[1]), meta=dict(part="shunt-model", et=et),
                        note="GS = +p, BS = -q (a shunt consuming reactive power is a negative susceptance)")
    vc.explore("_calc_shunts_and_add_on_ppc", h_build, max_paths=60)

    # ---- the results -------------------------------------------------------------------------------------------------------------------
    def h_res(p, ac=True):
        tabs, act, bl, bus = setup(p)
        res = {}
        for et in ("shunt", "ward", "xward"):
            res[et] = pm.result_table(f"res_{et}", tabs[et].space, ["p_mw", "q_mvar", "vm_pu"])
        prev = {et: dict(res[et].cols) for et in res}
        net = netmodel.Net({"_options": PDict({"ac": ac}), "_is_elements": PDict(dict(act)), "_pd2ppc_lookups": PDict({"bus": bl}),
                            "shunt": tabs["shunt"], "ward": tabs["ward"], "xward": tabs["xward"], "bus": tabs["bus"],
                            "res_shunt": res["shunt"], "res_ward": res["ward"], "res_xward": res["xward"]}, strict=True)
        _patch_sum(p, RB)
        p.fn(f"{BB}:_get_shunt_vn_kv")
        bla = Arr(bl.space, SV(z3.Function("bus_lookup_aranged", I, I)(bl.space.i)))
        acc = BusPQ()
        out = p.call(f"{RB}:_get_shunt_results", net, PDict({"bus": bus, "baseMVA": SV(z3.Real("baseMVA"))}), bla, acc)
        if out.raised:
            raise EngineError(f"_get_shunt_results raised {out.exc!r}")
        for et in ("shunt", "ward", "xward"):
            t = tabs[et]
            pw, qw, node = _model_power(p, tabs, act, bus, bl, iu, et)
            vm = bus.row_of(t.space, SV(node), iu.VM, p.it)
            vmz = to_z(vm.v, R) if isinstance(vm, XV) else to_z(vm, R)
            if isinstance(vm, XV):
                vmz = z3.If(vm.nan, z3.RealVal(0), vmz)
            if not ac:
                vmz = z3.RealVal(1)          # DC model: all voltage magnitudes are 1 p.u.
            rows = z3.BoolVal(True)
            c = res[et].cols
            old_p = to_z(prev[et]["p_mw"], R) if et != "shunt" else z3.RealVal(0)
            old_q = to_z(prev[et]["q_mvar"], R) if et != "shunt" else z3.RealVal(0)
            nonempty = t.space.n > 0
            p.prove(f"result[{et}]:p_mw = vm^2 * model power" + (" added to the constant-power part" if et != "shunt" else ""),
                    z3.Implies(nonempty, z3.And(_num(c["p_mw"])[0] == old_p + vmz * vmz * pw, _num(c["p_mw"])[1])), meta=dict(part="shunt-result", et=et))
            if not ac:
                continue
            p.prove(f"result[{et}]:q_mvar = vm^2 * model power" + (" added to the constant-power part" if et != "shunt" else ""),
                    z3.Implies(nonempty, z3.And(_num(c["q_mvar"])[0] == old_q + vmz * vmz * qw, _num(c["q_mvar"])[1])), meta=dict(part="shunt-result", et=et))
            p.prove(f"result[{et}]:vm_pu is the voltage of the element's own node", z3.Implies(nonempty, z3.And(_num(c["vm_pu"])[0] == vmz, _num(c["vm_pu"])[1])),
                    meta=dict(part="shunt-result", et=et))
        # the bus sums
        some = z3.Or(*[tabs[et].space.n > 0 for et in ("shunt", "ward", "xward")])
        by_space = {tabs[et].space: et for et in ("shunt", "ward", "xward")}
        cols = sorted(col for _, col, _ in acc.adds)
        p.prove("bus sums: p and q are each accumulated exactly once" if ac else "bus sums: p is accumulated exactly once (DC)",
                cols == ([0, 1] if ac else [0]), meta=dict(part="shunt-structure"))
        for keys, col, add in acc.adds:
            nm = "p" if col == 0 else "q"
            ok = isinstance(keys, MappedKeys) and isinstance(keys.keys, GK) and keys.lookup is bla and isinstance(add, GroupSum) and add.b is keys.keys.b
            p.prove(f"bus sums[{nm}]: added at the result row of each distinct bus, the group sums of that grouping", ok, meta=dict(part="shunt-structure"),
                    note="the lookup from bus labels to result rows is injective (one row per bus), so the distinct keys stay distinct")
            if not ok:
                continue
            kb = keys.keys.b
            empty = lambda x: type(x).__name__ == "ndarray" and x.size == 0       # no table has rows: concrete empty arrays
            kparts = kb.parts if isinstance(kb, Cat) else [] if empty(kb) else [kb]
            vparts = add.val.parts if isinstance(add.val, Cat) else [] if empty(add.val) else [add.val]
            shape = len(kparts) == len(vparts) and all(isinstance(k, Arr) and isinstance(v, Arr) and k.space is v.space and k.space in by_space
                                                       for k, v in zip(kparts, vparts))
            p.prove(f"bus sums[{nm}]: keys and values come from the same element rows", shape, meta=dict(part="shunt-structure"))
            if not shape:
                continue
            seen = [by_space[k.space] for k in kparts]
            p.prove(f"bus sums[{nm}]: no table contributes twice", len(seen) == len(set(seen)), meta=dict(part="shunt-structure"))
            for et in ("shunt", "ward", "xward"):
                p.prove(f"bus sums[{nm}]: every table with rows contributes [{et}]", z3.Or(tabs[et].space.n <= 0, z3.BoolVal(et in seen)), meta=dict(part="shunt-result"))
            for k, v in zip(kparts, vparts):
                et = by_space[k.space]
                t = tabs[et]
                pw, qw, node = _model_power(p, tabs, act, bus, bl, iu, et)
                vm = bus.row_of(t.space, SV(node), iu.VM, p.it)
                vmz = to_z(vm.v, R) if isinstance(vm, XV) else to_z(vm, R)
                if isinstance(vm, XV):
                    vmz = z3.If(vm.nan, z3.RealVal(0), vmz)
                if not ac:
                    vmz = z3.RealVal(1)
                p.prove(f"bus sums[{nm}][{et}]: grouped by the element's own bus, every row", z3.And(to_z(k.e, I) == to_z(t.cols["bus"], I), k.mask is True, v.mask is True),
                        meta=dict(part="shunt-result", et=et))
                p.prove(f"bus sums[{nm}][{et}]: the element's own vm^2 * model power", z3.And(_num(v.e)[0] == vmz * vmz * (pw, qw)[col], _num(v.e)[1]),
                        meta=dict(part="shunt-result", et=et))
    vc.explore("_get_shunt_results", h_res, max_paths=60)
    vc.explore("_get_shunt_results[dc]", lambda p: h_res(p, ac=False), max_paths=60)
