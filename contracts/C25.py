"""C25 -- standard types are applied completely and consistently.

Functions under contract (real text, interpreted): pandapower.std_types: create_std_type, load_std_type, rename_std_type,
copy_std_types, change_std_type; pandapower.create.line_create:create_line, pandapower.create.trafo_create:create_transformer,
create_transformer3w (the values handed to _set_entries).

  * library: load_std_type(create_std_type(data, name)) is data (every parameter, unchanged); rename keeps the data under the new
    name, removes the old name and renames the references in the element table; copy_std_types transfers the data unchanged.
  * change_std_type: for every column c of the element table: c defined by the type => table.at[eid, c] == type[c] afterwards,
    otherwise unchanged; std_type == name; rows with another index unchanged -- for *every* previous content of the row (also a row
    that already carries the type name, or values edited by hand).
  * create from type: every parameter defined by the type that is a column of the element table reaches _set_entries with the
    type's value.
The type is a dict with symbolic values and symbolic presence of every optional parameter.
"""
from __future__ import annotations

import z3

from pyvc.values import SV, CV, XV, PV, B, I, R, EngineError, to_z, to_pv, real, arith, compare, ite, Opaque, fresh
from pyvc.containers import PDict
from pyvc.arrays import Table, Space, Arr, subst, truth_z
from pyvc import netmodel
from pyvc.interp import Native
from contracts import ppcmodel as pm

PROP = "C25"
MIN_OBLIGATIONS = 60
ST = "pandapower.std_types"
NOT_DECIDED = ["not decided: 'behaves in calculations exactly like one created from explicit parameters' beyond the values handed to the "
               "element table (the calculation reads only the table: C02 contracts)",
               "not decided: fuse standard types (create_fuse), parameter_from_std_type, find_std_type_by_parameter"]

# parameters of the documented standard types (required / optional) and further columns of the element tables
TYPES = {
    "line": dict(required=["r_ohm_per_km", "x_ohm_per_km", "c_nf_per_km", "max_i_ka"],
                 optional=["g_us_per_km", "r0_ohm_per_km", "x0_ohm_per_km", "c0_nf_per_km", "type", "alpha", "q_mm2"],
                 other_cols=["name", "std_type", "from_bus", "to_bus", "length_km", "df", "parallel", "in_service", "max_loading_percent"],
                 strings=["type"]),
    "trafo": dict(required=["sn_mva", "vn_hv_kv", "vn_lv_kv", "vk_percent", "vkr_percent", "pfe_kw", "i0_percent"],
                  optional=["shift_degree", "vector_group", "tap_side", "tap_neutral", "tap_min", "tap_max", "tap_step_percent", "tap_step_degree",
                            "tap_changer_type", "vk0_percent", "vkr0_percent", "mag0_percent", "mag0_rx", "si0_hv_partial"],
                  other_cols=["name", "std_type", "hv_bus", "lv_bus", "tap_pos", "parallel", "df", "in_service", "max_loading_percent"],
                  strings=["vector_group", "tap_side", "tap_changer_type"]),
    "trafo3w": dict(required=["sn_hv_mva", "sn_mv_mva", "sn_lv_mva", "vn_hv_kv", "vn_mv_kv", "vn_lv_kv", "vk_hv_percent", "vk_mv_percent",
                              "vk_lv_percent", "vkr_hv_percent", "vkr_mv_percent", "vkr_lv_percent", "pfe_kw", "i0_percent"],
                    optional=["shift_mv_degree", "shift_lv_degree", "tap_side", "tap_neutral", "tap_min", "tap_max", "tap_step_percent",
                              "tap_step_degree", "tap_changer_type"],
                    other_cols=["name", "std_type", "hv_bus", "mv_bus", "lv_bus", "tap_pos", "in_service", "max_loading_percent",
                                "tap_at_star_point"],
                    strings=["tap_side", "tap_changer_type"]),
}


def configure(it):
    pm.configure(it)


def sym_type(element, tag="T", all_present=False):
    """standard type as a dict: required parameters present, optional ones with symbolic presence"""
    spec = TYPES[element]
    d = PDict()
    pres = {}
    for p in spec["required"] + spec["optional"]:
        sort = PV if p in spec["strings"] else R
        v = SV(z3.Const(f"{tag}.{p}", sort))
        if p in spec["required"] or all_present:
            d.set(p, v)
            pres[p] = True
        else:
            h = z3.Bool(f"{tag}.has[{p}]")
            d.set(p, v, when=h)
            pres[p] = h
    return d, pres


def sym_table(element):
    spec = TYPES[element]
    cols = {}
    for c in spec["required"] + spec["optional"] + spec["other_cols"]:
        if c in spec["strings"] or c in ("name", "std_type"):
            cols[c] = PV
        elif c in ("in_service", "tap_at_star_point"):
            cols[c] = B
        else:
            cols[c] = R
    t = pm.table(element, cols)
    return t


def _has(pres):
    return z3.BoolVal(True) if pres is True else pres


def wellformed(p, element, pres):
    """zero-sequence line parameters come together (create_line keys the group by r0_ohm_per_km)"""
    if element == "line":
        p.assume(z3.And(_has(pres["r0_ohm_per_km"]) == _has(pres["x0_ohm_per_km"]), _has(pres["r0_ohm_per_km"]) == _has(pres["c0_nf_per_km"])))


def run(vc):
    vc.configure = configure
    vc.trust("element tables have the columns of the default network structure plus the optional standard-type columns (TYPES)",
             "_set_entries(net, table, index, entries) writes entries[col] into net[table].at[index, col] (pandas; the dict reaching it is "
             "what is verified)")
    vc.assume_std("A-REAL", "A-GENERIC")

    # ---- library: re-defining an existing type --------------------------------------------------------------------
    for element in TYPES:
        for overwrite in (True, False):
            def h_redef(p, element=element, overwrite=overwrite):
                data, pres = sym_type(element, "T")
                old, _ = sym_type(element, "U", all_present=True)
                before = {k: old.raw(k) for k in old.keys_list()}
                net = netmodel.Net({"std_types": PDict({element: PDict({"existing": old})}), element: sym_table(element)}, strict=True)
                out = p.call(f"{ST}:create_std_type", net, data, "existing", element, overwrite, True)
                if out.raised:
                    p.prove(f"lib[{element}]:redefine-rejects-only-incomplete", _incomplete(p, element, pres), note=f"create_std_type raised {out.exc!r}")
                    return
                got = p.call(f"{ST}:load_std_type", net, "existing", element)
                if got.raised:
                    p.prove(f"lib[{element}]:load-after-redefinition", False, note=f"load_std_type raised {got.exc!r}")
                    return
                tag = f"lib[{element}]:redefine[overwrite={overwrite}]"
                if overwrite:
                    # the new definition replaces the old one: exactly the parameters of the new definition, nothing kept from the old one
                    _same_type(p, f"{tag}:load-returns-the-new-definition", got.value, data, pres, element)
                else:
                    _same_type(p, f"{tag}:the-old-definition-is-kept", got.value, old, {k: True for k in pres}, element)
                # the dict object of the old definition (possibly shared with another net through copy_std_types) is not modified
                same = all((old.presence(k) is True) and (old.raw(k) is before[k] or _is_same(old.raw(k), before[k])) for k in before) \
                    and set(old.keys_list()) == set(before)
                p.prove(f"{tag}:the-object-of-the-old-definition-is-not-modified", same, meta=dict(part="library", element=element),
                        note="copy_std_types shares the definition objects between nets")
            vc.explore(f"create_std_type[{element},redefine,overwrite={overwrite}]", h_redef, max_paths=40)

    # ---- library functions ---------------------------------------------------------------------------------------
    for element in TYPES:
        def h_lib(p, element=element):
            data, pres = sym_type(element, "T")
            other, _ = sym_type(element, "U", all_present=True)
            net = netmodel.Net({"std_types": PDict({element: PDict({"existing": other})}), element: sym_table(element)}, strict=True)
            out = p.call(f"{ST}:create_std_type", net, data, "new", element, True, True)
            if out.raised:
                # check_required: types lacking a required parameter are rejected (shift degrees are required by the check)
                p.prove(f"lib[{element}]:create-rejects-only-incomplete", _incomplete(p, element, pres),
                        note=f"create_std_type raised {out.exc!r}")
                return
            got = p.call(f"{ST}:load_std_type", net, "new", element)
            if got.raised:
                p.prove(f"lib[{element}]:load-after-create", False, note=f"load_std_type raised {got.exc!r}")
                return
            _same_type(p, f"lib[{element}]:load-returns-created", got.value, data, pres, element)
            ex = p.call(f"{ST}:load_std_type", net, "existing", element)
            _same_type(p, f"lib[{element}]:other-types-untouched", ex.value, other, {k: True for k in pres}, element)
            # rename
            out = p.call(f"{ST}:rename_std_type", net, "new", "renamed", element)
            if out.raised:
                p.prove(f"lib[{element}]:rename", False, note=f"rename_std_type raised {out.exc!r}")
                return
            got = p.call(f"{ST}:load_std_type", net, "renamed", element)
            if got.raised:
                p.prove(f"lib[{element}]:load-after-rename", False, note=f"load_std_type raised {got.exc!r}")
                return
            _same_type(p, f"lib[{element}]:rename-keeps-data", got.value, data, pres, element)
            lib = net.fields.raw("std_types").raw(element)
            p.prove(f"lib[{element}]:rename-removes-old-name", lib.presence("new") is False)
            tab = net.fields.raw(element)
            old_std = z3.Function(f"{element}.std_type", I, PV)(tab.space.i)
            p.prove(f"lib[{element}]:rename-updates-references",
                    tab.cols["std_type"].z == z3.If(old_std == to_pv("new"), to_pv("renamed"), old_std),
                    note="rows referencing the old name reference the new name, other rows unchanged")
            # copy to another net
            net2 = netmodel.Net({"std_types": PDict({element: PDict()})}, strict=True)
            out = p.call(f"{ST}:copy_std_types", net2, net, element)
            if out.raised:
                p.prove(f"lib[{element}]:copy", False, note=f"copy_std_types raised {out.exc!r}")
                return
            got = p.call(f"{ST}:load_std_type", net2, "renamed", element)
            if got.raised:
                p.prove(f"lib[{element}]:load-after-copy", False, note=f"load_std_type raised {got.exc!r}")
                return
            _same_type(p, f"lib[{element}]:copy-keeps-data", got.value, data, pres, element)
        vc.explore(f"std_type library[{element}]", h_lib, max_paths=60)

    # ---- change_std_type -----------------------------------------------------------------------------------------
    for element in TYPES:
        def h_change(p, element=element):
            data, pres = sym_type(element, "T")
            tab = sym_table(element)
            before = dict(tab.cols)
            net = netmodel.Net({"std_types": PDict({element: PDict({"new": data})}), element: tab}, strict=True)
            eid = z3.Int("eid")
            out = p.call(f"{ST}:change_std_type", net, SV(eid), "new", element)
            if out.raised:
                p.prove(f"change[{element}]:no-exception", False, note=f"change_std_type raised {out.exc!r}")
                return
            own = to_z(tab.index_e, I) == eid
            for c in tab.cols:
                if c == "std_type":
                    continue
                if c in pres:
                    want = ite(SV(z3.And(own, _has(pres[c]))), data.raw(c), before[c])
                else:
                    want = before[c]
                p.prove(f"change[{element}]:{c}", _eqv(tab.cols[c], want), meta=dict(part="change", element=element),
                        note=f"{c}: the type's value for the changed element if the type defines it, unchanged otherwise / for other rows")
            p.prove(f"change[{element}]:std_type", _eqv(tab.cols["std_type"], ite(SV(own), to_pv_sv("new"), before["std_type"])),
                    meta=dict(part="change", element=element))
        vc.explore(f"change_std_type[{element}]", h_change, max_paths=60)

    # ---- create from type ----------------------------------------------------------------------------------------
    creators = {"line": ("pandapower.create.line_create:create_line", lambda net: [net, SV(z3.Int("b1")), SV(z3.Int("b2")), real("length_km"), "new"]),
                "trafo": ("pandapower.create.trafo_create:create_transformer", lambda net: [net, SV(z3.Int("b1")), SV(z3.Int("b2")), "new"]),
                "trafo3w": ("pandapower.create.trafo_create:create_transformer3w",
                            lambda net: [net, SV(z3.Int("b1")), SV(z3.Int("b2")), SV(z3.Int("b3")), "new"])}
    for element, (fn, mkargs) in creators.items():
        def h_create(p, element=element, fn=fn, mkargs=mkargs):
            data, pres = sym_type(element, "T")
            tab = sym_table(element)
            net = netmodel.Net({"std_types": PDict({element: PDict({"new": data})}), element: tab, "bus": pm.table("bus", {"vn_kv": R})},
                               strict=True)
            wellformed(p, element, pres)
            cap = capture_entries(p.it)
            out = p.call(fn, *mkargs(net))
            if out.raised:
                msg = str(out.exc.args[0]) if getattr(out.exc, "args", None) else ""
                if type(out.exc).__name__ == "UserWarning" and ("not exist" in msg or "non-existing" in msg or "non existing" in msg or "tries to attach" in msg):
                    return      # buses that do not exist: rejected input, outside the property
                p.prove(f"create[{element}]:no-exception", False, note=f"{fn} raised {out.exc!r}")
                return
            frames = p.it.ctx.ghost.get("dataframe_ctor", [])
            if len(cap) == 1:
                entries = cap[0]["entries"]
            elif not cap and len(frames) == 1 and isinstance(frames[0]["data"], PDict):
                entries = frames[0]["data"]        # create_transformer3w: pd.DataFrame(entries, index=[index]) appended to the table
            else:
                raise EngineError(f"{fn}: _set_entries called {len(cap)} times, {len(frames)} frames built")
            for c in TYPES[element]["required"] + TYPES[element]["optional"]:
                if c not in tab.cols or c == "q_mm2":
                    continue
                if c == "alpha":
                    continue        # only with an existing column: checked with the column present below
                pr = entries.presence(c) if isinstance(entries, PDict) else (c in entries)
                prz = z3.BoolVal(pr) if isinstance(pr, bool) else pr
                p.prove(f"create[{element}]:{c}", z3.Implies(_has(pres[c]), z3.And(prz, _eqz(entries.raw(c) if pr is not False else None, data.raw(c)))),
                        meta=dict(part="create", element=element),
                        note=f"{c} defined by the type reaches the element table with the type's value")
        vc.explore(f"create from type[{element}]", h_create, max_paths=200)

    # ---- batch create from type (the property does not distinguish how the element is created) ------------------------
    # create_transformers is known not to apply shift / tap data of the type (known finding of C24, pinned by a test, reported there): those
    # columns (C24.TRAFO_DROPPED) are not repeated here, every other parameter of the type is under the same obligation
    from pyvc.arrays import Space, Arr
    from contracts import C24
    sp = Space.get("batch")
    batch_creators = {"line": ("pandapower.create.line_create:create_lines", 2, True),
                      "trafo": ("pandapower.create.trafo_create:create_transformers", 2, False),
                      "trafo3w": ("pandapower.create.trafo_create:create_transformers3w", 3, False)}
    for element, (fn, nbus, with_length) in batch_creators.items():
        def h_bcreate(p, element=element, fn=fn, nbus=nbus, with_length=with_length):
            data, pres = sym_type(element, "T")
            tab = sym_table(element)
            net = netmodel.Net({"std_types": PDict({element: PDict({"new": data})}), element: tab, "bus": pm.table("bus", {"vn_kv": R})},
                               strict=True)
            wellformed(p, element, pres)
            cap = C24._summaries(p.it, sp)
            args = [Arr(sp, SV(z3.Function(f"arg.bus{k}", I, I)(sp.i))) for k in range(nbus)]
            if with_length:
                args.append(Arr(sp, SV(z3.Function("arg.length_km", I, R)(sp.i))))
            out = p.call(fn, net, *args, "new")
            if out.raised:
                if C24.C25_input_error(out.exc):
                    return
                p.prove(f"create-batch[{element}]:no-exception", False, note=f"{fn} raised {out.exc!r}")
                return
            if len(cap["batch"]) != 1:
                raise EngineError(f"{fn}: {len(cap['batch'])} entry dicts")
            entries = cap["batch"][0]
            for c in TYPES[element]["required"] + TYPES[element]["optional"]:
                if c not in tab.cols or c in ("q_mm2", "alpha") or (element == "trafo" and c in C24.TRAFO_DROPPED):
                    continue
                pr = entries.presence(c)
                prz = z3.BoolVal(pr) if isinstance(pr, bool) else pr
                val = C24._elem(entries.raw(c)) if pr is not False else None
                if val is None or (isinstance(val, float) and val != val):
                    same = z3.BoolVal(False)            # the batch writes nothing / NaN for this column
                else:
                    same = _eqz(val, data.raw(c))
                p.prove(f"create-batch[{element}]:{c}", z3.Implies(_has(pres[c]), z3.And(prz, same)),
                        meta=dict(part="create-batch", element=element),
                        note=f"{c} defined by the type reaches every row of the batch with the type's value")
        vc.explore(f"batch create from type[{element}]", h_bcreate, max_paths=400)


def capture_entries(it):
    cap = []

    def set_entries(it, net, table, index, preserve_dtypes=True, entries=None):
        cap.append(dict(table=table, index=index, entries=entries))
        return None
    it.summaries["pandapower.create._utils:_set_entries"] = set_entries
    for nm in ("_check_branch_element", "_check_element", "_set_value_if_not_nan", "_add_branch_geodata"):
        it.summaries[f"pandapower.create._utils:{nm}"] = lambda it, *a, **k: None
    it.summaries["pandapower.create._utils:_get_index_with_check"] = lambda it, net, table, index, name=None: SV(z3.Int("new_index"))
    return cap


def to_pv_sv(s):
    return SV(to_pv(s))


def _eqz(a, b):
    if a is None:
        return z3.BoolVal(False)
    return _eqv(a, b)


def _eqv(a, b):
    """equality of two table / dict values (numbers, strings, NaN flags)"""
    if isinstance(a, XV) or isinstance(b, XV):
        a, b = XV.of(a), XV.of(b)
        na = a.nan if not isinstance(a.nan, bool) else z3.BoolVal(a.nan)
        nb = b.nan if not isinstance(b.nan, bool) else z3.BoolVal(b.nan)
        return z3.And(na == nb, z3.Or(na, to_z(a.v, R) == to_z(b.v, R)))
    za, zb = to_z(a), to_z(b)
    if za.sort() != zb.sort():
        if za.sort() == PV or zb.sort() == PV:
            za = za if za.sort() == PV else to_pv(a)
            zb = zb if zb.sort() == PV else to_pv(b)
            za = za.z if isinstance(za, SV) else za
            zb = zb.z if isinstance(zb, SV) else zb
        else:
            za, zb = to_z(a, R), to_z(b, R)
    return za == zb


def _is_same(a, b):
    try:
        return bool(z3.eq(to_z(a), to_z(b)))
    except Exception:
        return a == b


def _same_type(p, label, got, want, pres, element):
    if not isinstance(got, PDict):
        p.prove(label, False, note=f"load_std_type returned {type(got).__name__}")
        return
    for k in want.keys_list():
        pw = _has(pres.get(k, True))
        pg = got.presence(k)
        pgz = z3.BoolVal(pg) if isinstance(pg, bool) else pg
        val = _eqv(got.raw(k), want.raw(k)) if pg is not False else z3.BoolVal(False)
        p.prove(f"{label}:{k}", z3.And(pgz == pw, z3.Implies(pw, val)), meta=dict(part="library", element=element))
    extra = [k for k in got.keys_list() if k not in want.keys_list()]
    p.prove(f"{label}:no-extra-parameters", not extra, meta=dict(part="library", element=element))


def _incomplete(p, element, pres):
    # required by required_std_type_parameters: documented required parameters + shift degrees
    req = {"line": [], "trafo": ["shift_degree"], "trafo3w": ["shift_mv_degree", "shift_lv_degree"]}[element]
    return z3.Or(*[z3.Not(_has(pres[k])) for k in req]) if req else z3.BoolVal(False)


def classify(ob, model):
    return ob.meta.get("part", "library") + ":" + ob.meta.get("element", "")


def replay(ob, model, finding=None):
    el = ob.meta.get("element") or next((e for e in ("trafo3w", "trafo", "line") if f"[{e}]" in ob.id), None)
    return {"script": f"# replay of {ob.id}\nfrom replaylib.createpairs import main_std_types\nmain_std_types({el!r})\n",
            "description": "create from type / change_std_type (also to a redefined type of the same name) / rename / copy against the type's values"}
