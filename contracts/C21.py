"""C21 -- PYPOWER conversion round trip: branch classification and the line parameters of from_ppc.

Functions under contract (real text): pandapower.converter.pypower.from_ppc:_branch_to_which, _from_ppc_branch (lines).

  * every ppc branch is imported as exactly one of line / transformer / impedance; a branch is imported as a *line* only if a line can
    represent it: same nominal voltage at both ends, tap ratio 0 or 1 and no phase shift (a line has neither ratio nor shift, so
    anything else would lose part of the branch model); a branch with a ratio or a phase shift is never imported as a line;
  * the line created for a ppc branch has r_ohm_per_km * length_km = BR_R * Z_N, x alike, 2 pi f c'*1e-9 * length = BR_B / Z_N,
    g'*1e-6 * length = BR_G / Z_N with Z_N = BASE_KV^2 / baseMVA -- the inverse of the per-unit conversion of _calc_line_parameter (C02), so
    that converting back reproduces BR_R, BR_X, BR_B.

Added later: _from_ppc_gen gives the created ext_grid / gen the VG of its own ppc gen row (run_gen; drop_duplicates = first row per key).
"""
from __future__ import annotations

import z3

from pyvc.values import SV, CV, XV, PV, B, I, R, EngineError, to_z, real, pi, Opaque
from pyvc.containers import PDict
from pyvc.arrays import Table, Mat, Space, Arr, subst, truth_z
from pyvc.interp import Native
from pyvc.vc import consts
from pyvc import netmodel
from contracts import ppcmodel as pm

PROP = "C21"
MIN_OBLIGATIONS = 6
FP = "pandapower.converter.pypower.from_ppc"
NOT_DECIDED = ["not decided: transformer and impedance parameters of from_ppc, buses / gens / costs, to_ppc (= _pd2ppc: C02 contracts), the MATPOWER "
               "file layer (scipy.io), validate_from_ppc; the power flow equality itself"]


def configure(it):
    pm.configure(it)


def _ppc():
    ib = consts("pandapower.pypower.idx_brch"); iu = consts("pandapower.pypower.idx_bus")
    sp = Space.get("br")
    branch = Mat("branch", {"br": sp})
    for nm in ("F_BUS", "T_BUS", "BR_R", "BR_X", "BR_B", "TAP", "SHIFT", "BR_STATUS", "RATE_A"):
        pm.colfun(branch, "br", getattr(ib, nm), I if nm in ("F_BUS", "T_BUS") else R)
    bus = pm.bus_mat()
    pm.colfun(bus, "all", iu.BASE_KV, R)
    return branch, bus, sp, ib, iu


def run(vc):
    vc.configure = configure
    vc.trust("create_lines_from_parameters stores its arguments (C24); the per-unit pi model of a line (C02 line build)")
    vc.assume_std("A-REAL", "A-GENERIC", "A-NUMPY")

    def h_which(p):
        branch, bus, sp, ib, iu = _ppc()
        fv = Arr(sp, SV(z3.Function("from_vn_kv", I, R)(sp.i))); tv = Arr(sp, SV(z3.Function("to_vn_kv", I, R)(sp.i)))
        out = p.call(f"{FP}:_branch_to_which", PDict({"branch": branch, "bus": bus}), fv, tv)
        if out.raised:
            raise EngineError(f"_branch_to_which raised {out.exc!r}")
        is_line, is_trafo, is_imp, _ = out.value
        L, T, Z = truth_z(is_line.e), truth_z(is_trafo.e), truth_z(is_imp.e)
        tap = z3.Function(f"branch[br,{ib.TAP}]", I, R)(sp.i); shift = z3.Function(f"branch[br,{ib.SHIFT}]", I, R)(sp.i)
        p.prove("classify:partition", z3.And(z3.Or(L, T, Z), z3.Not(z3.And(L, T)), z3.Not(z3.And(L, Z)), z3.Not(z3.And(T, Z))), meta=dict(part="classify"),
                note="every branch becomes exactly one of line / transformer / impedance")
        p.prove("classify:line-only-if-representable", z3.Implies(L, z3.And(to_z(fv.e) == to_z(tv.e), z3.Or(tap == 0, tap == 1), shift == 0)),
                meta=dict(part="classify"), note="a line has neither ratio nor phase shift and connects one voltage level")
        p.prove("classify:ratio-or-shift-is-kept", z3.Implies(z3.Or(z3.And(tap != 0, tap != 1), shift != 0), z3.Not(L)), meta=dict(part="classify"))
    vc.explore("_branch_to_which", h_which, max_paths=10)

    def h_lines(p):
        branch, bus, sp, ib, iu = _ppc()
        nb = pm.table("bus", {"vn_kv": R})
        net = netmodel.Net({"bus": nb}, strict=True)
        created = []
        me = p.it.modenv(FP)
        me.vals["create_lines_from_parameters"] = Native(lambda it, net_, **k: created.append(k) or Opaque("idx_line"), name="create_lines_from_parameters",
                                                         pure=False)
        for nm in ("create_transformers_from_parameters", "create_impedances"):
            me.vals[nm] = Native(lambda it, net_, **k: Opaque("idx"), name=nm, pure=False)
        me.vals["_get_bus_pos"] = Native(lambda it, ppc, names: names, name="_get_bus_pos")
        p.it.lenient_numpy = False
        baseMVA = real("baseMVA")
        p.assume(to_z(baseMVA) > 0)
        from pyvc.arrays import Arr
        br_g = Arr(sp, SV(z3.Function("branch_g", I, R)(sp.i)))     # total shunt conductance of the branch in per unit (to_ppc: BR_G column)
        ppc = PDict({"branch": branch, "bus": bus, "baseMVA": baseMVA, "branch_g": br_g})
        try:
            out = p.call(f"{FP}:_from_ppc_branch", net, ppc, real("f_hz"))
            if out.raised and not created:
                raise EngineError(f"_from_ppc_branch raised {out.exc!r}")
        except EngineError:
            if not created:
                raise
        k = created[0]
        isl = k["r_ohm_per_km"].mask
        p.assume(isl if isl is not True else z3.BoolVal(True))
        tb = z3.Function(f"branch[br,{ib.T_BUS}]", I, I)(sp.i)
        vn = z3.Function(f"ppcbus[all,{iu.BASE_KV}]", I, R)(tb)
        p.assume(z3.And(vn > 0, real("f_hz").z > 0))
        zn = vn * vn / to_z(baseMVA)
        length = to_z(k["length_km"], R)
        G = lambda nm: z3.Function(f"branch[br,{getattr(ib, nm)}]", I, R)(sp.i)
        p.prove("line:r", to_z(k["r_ohm_per_km"].e, R) * length == G("BR_R") * zn, meta=dict(part="line"))
        p.prove("line:x", to_z(k["x_ohm_per_km"].e, R) * length == G("BR_X") * zn, meta=dict(part="line"))
        w = 2 * to_z(pi()) * real("f_hz").z
        p.prove("line:c", w * to_z(k["c_nf_per_km"].e, R) * 1e-9 * length * zn == G("BR_B"), meta=dict(part="line"),
                note="2 pi f c' 1e-9 l Z_N == BR_B (inverse of the line build)")
        p.prove("line:g", to_z(k["g_us_per_km"].e, R) * 1e-6 * length * zn == to_z(br_g.e, R), meta=dict(part="line"),
                note="g' 1e-6 l Z_N == branch_g (inverse of the line build: BR_G is the whole conductance of the branch, like BR_B)")
        p.prove("line:in_service", truth_z(k["in_service"].e) == (G("BR_STATUS") != 0), meta=dict(part="line"))
    vc.explore("_from_ppc_branch[lines]", h_lines, max_paths=100)
    run_gen(vc)
    _standins(vc)


def _standins(vc):
    if not hasattr(vc, "native_standins"):
        vc.native_standins = []
    vc.native_standins.append(dict(
        name="ppc / MATPOWER round trips of fixed networks",
        bound="a 5-bus 110/20 kV network (lines only / with a phase shifter), a network with cost data (controllable elements as gen rows), a "
              "4-bus network with line conductances, transformers with iron losses (MATPOWER file) and cost data (RATE_A = 0): bus voltages and "
              "slack power of the round trip network",
        script="import sys\nfrom replaylib.ppcroundtrip import main, main_costs, main_more\n"
               "from replaylib import run_all\nrun_all(main, main_costs, main_more)\n",
        timeout=900))


def classify(ob, model):
    return ob.meta.get("part", "")


def run_gen(vc):
    """_from_ppc_gen: the ext_grid / gen created from a ppc gen row regulates its bus to the VG of that very row. (to_ppc writes the machine of
    a bus first and -- in OPF mode -- the controllable sgens / loads / storages of the bus after it with a placeholder VG: the rows of one bus
    need not agree.)  _gen_to_which (assumed contract, from its text): a row becomes an ext_grid / gen only if it is the first gen row of its
    bus."""
    ig = consts("pandapower.pypower.idx_gen"); iu = consts("pandapower.pypower.idx_bus")

    def h(p):
        gsp = Space.get("ppcgen")
        gen = Mat("gen", {"all": gsp})
        for nm in ("VG", "PG", "QG", "MBASE", "GEN_STATUS", "PMAX", "PMIN", "QMAX", "QMIN"):
            pm.colfun(gen, "all", getattr(ig, nm))
        pm.colfun(gen, "all", ig.GEN_BUS, I)
        bus = pm.bus_mat()
        pm.colfun(bus, "all", iu.VA)
        bus_pos = Arr(gsp, SV(z3.Function("bus_pos", I, I)(gsp.i)))
        is_eg, is_gen, is_sgen = (Arr(gsp, SV(z3.Function(f"is_{k}", I, B)(gsp.i))) for k in ("ext_grid", "gen", "sgen"))
        # assumed contract of _gen_to_which: machines are the first gen rows of their buses
        r = z3.Int("r!earlier")
        first = z3.ForAll([r], z3.Implies(z3.And(r >= 0, r < gsp.i), z3.Function("bus_pos", I, I)(r) != z3.Function("bus_pos", I, I)(gsp.i)))
        p.assume(z3.Implies(z3.Or(to_z(is_eg.e), to_z(is_gen.e)), first))
        p.assume(z3.And(gsp.i >= 0, gsp.i < gsp.n))
        me = p.it.modenv(FP)
        me.vals["_get_bus_pos"] = Native(lambda it, ppc, b: bus_pos, name="_get_bus_pos")
        me.vals["_gen_to_which"] = Native(lambda it, ppc, bus_pos=None, **k: (is_eg, is_gen, is_sgen), name="_gen_to_which")
        made = {"ext_grid": [], "gen": [], "sgen": []}
        me.vals["create_ext_grid"] = Native(lambda it, net_, **k: made["ext_grid"].append(k) or Opaque("idx"), name="create_ext_grid", pure=False)
        me.vals["create_gens"] = Native(lambda it, net_, **k: made["gen"].append(k) or Opaque("idx"), name="create_gens", pure=False)
        me.vals["create_sgens"] = Native(lambda it, net_, **k: made["sgen"].append(k) or Opaque("idx"), name="create_sgens", pure=False)
        nb = pm.table("bus", {"vn_kv": R})
        net = netmodel.Net({"bus": nb}, strict=False)
        p.it.generic_loops = True
        out = p.call(f"{FP}:_from_ppc_gen", net, PDict({"gen": gen, "bus": bus}))
        if out.raised:
            raise EngineError(f"_from_ppc_gen raised {out.exc!r}")
        vg = to_z(gen.get("all", ig.VG), R)
        meta = dict(part="gen")
        p.prove("gen:one call per element kind", len(made["gen"]) == 1 and len(made["ext_grid"]) <= 1, meta=meta)
        for kw in made["ext_grid"]:
            p.prove("gen:ext_grid regulates to the VG of its own ppc row", z3.Implies(to_z(is_eg.e), to_z(kw["vm_pu"], R) == vg), meta=meta)
        for kw in made["gen"]:
            v = kw["vm_pu"]
            ok = isinstance(v, Arr) and v.space is gsp
            p.prove("gen:gens are created from the gen rows", ok, meta=meta)
            if ok:
                m = z3.BoolVal(True) if v.mask is True else v.mask
                p.prove("gen:gen regulates to the VG of its own ppc row", z3.And(m == to_z(is_gen.e), z3.Implies(to_z(is_gen.e), to_z(v.e, R) == vg)), meta=meta,
                        note="the voltage set point of the created gen is VG of the row it is created from, whatever later rows of the bus hold")
    vc.explore("_from_ppc_gen", h, max_paths=60)


def replay(ob, model, finding=None):
    if ob.meta.get("part") == "gen":
        return {"script": f"# replay of {ob.id}\nfrom replaylib.ppcroundtrip import main_costs\nmain_costs()\n",
                "description": "to_ppc -> from_ppc round trip of a network with cost data and a controllable sgen at the bus of a gen / ext_grid whose "
                               "vm_pu is not 1: bus voltages, slack power"}
    if ob.meta.get("label", ob.id).endswith("line:g") or "line:g" in ob.id:
        return {"script": f"# replay of {ob.id}\nfrom replaylib.ppcroundtrip import main_more\nmain_more()\n",
                "description": "round trips of a network with line conductances through the ppc dict and the MATPOWER file: bus voltages, slack power"}
    return {"script": f"# replay of {ob.id}\nfrom replaylib.ppcroundtrip import main\nmain()\n",
            "description": "to_ppc -> from_ppc round trip of networks with lines, transformers (ratio, phase shift, also between buses of one voltage "
                           "level) and impedances: bus voltages, slack power and losses"}
