"""C32 -- characteristics interpolate through their support points and keep their persisted state.

Classes under contract (real text): pandapower.control.util.characteristic: Characteristic, SplineCharacteristic (interp1d and Pchip),
LogSplineCharacteristic, default_interp1d.

External contracts (assumed, scipy / numpy): numpy.interp(x, xp, fp), scipy interp1d(x, y, kind=...) and PchipInterpolator(x, y) return
the value y[k] at x = x[k] for strictly increasing x (interpolation property); Pchip is shape preserving.
Obligations on the real class text, for support points of any number (generic index k):
  * c(x[k]) == y[k] for the three classes (right arrays, right order, log / power composed correctly for LogSpline);
  * the interpolator object is built from the stored support points and the user's keyword arguments (kind, fill_value ...) with
    the documented defaults bounds_error=False, fill_value='extrapolate', kind='quadratic';
  * evaluation does not change the persisted state: x_vals, y_vals, kwargs, interpolator_kind after any number of evaluations are
    those stored by the constructor, and the cached interpolator is excluded from serialisation -- so that an object restored from
    its serialised attributes rebuilds the same interpolator (the JSON codec itself is property C20, not applicable).
"""
from __future__ import annotations

import z3

from pyvc.values import SV, CV, XV, PV, B, I, R, EngineError, to_z, to_pv, real, arith, compare, ite, Opaque, slog10, spow
from pyvc.containers import PDict
from pyvc.arrays import Table, Space, Arr, subst, truth_z, is_scalar
from pyvc.interp import Native, ObjVal
from pyvc import netmodel
from contracts import ppcmodel as pm

PROP = "C32"
MIN_OBLIGATIONS = 12
CH = "pandapower.control.util.characteristic"
NOT_DECIDED = ["not decided: scipy's interpolation itself (external contract), JSON encoding/decoding of the attributes (C20: not applicable)",
               "not decided: 'stays within the range of neighbouring support values' is the shape-preservation contract of PchipInterpolator / "
               "numpy.interp (external); the class adds nothing to it"]


def configure(it):
    pm.configure(it)


class Interp:
    """result of interp1d(...) / PchipInterpolator(...): remembers what it was built from"""

    def __init__(self, kind, x, y, kwargs):
        self.kind, self.x, self.y, self.kwargs = kind, x, y, kwargs

    typ = "interpolator"
    __name__ = "interpolator"

    def fn(self, it, arg):
        return interp_value(it, arg, self.x, self.y, self.kind)


def interp_value(it, arg, x, y, tag):
    if not (isinstance(x, Arr) and isinstance(y, Arr)) or x.space is not y.space:
        raise EngineError("interpolation over support arrays of different row spaces")
    from pyvc.arrays import _key
    f = z3.Function(f"interp[{tag},{_key(to_z(x.e))},{_key(to_z(y.e))}]", R, R)
    # interpolation property (external contract): the curve passes through the support points
    it.ctx.axiom(f(to_z(x.e, R)) == to_z(y.e, R))
    return SV(f(to_z(arg, R)))


def install(it, rec):
    def interp1d(it, x, y, **kw):
        o = Interp("interp1d", x, y, dict(kw))
        rec.append(o)
        return o

    def pchip(it, x, y, **kw):
        o = Interp("pchip", x, y, dict(kw))
        rec.append(o)
        return o
    me = it.modenv(CH)
    me.vals["interp1d"] = Native(interp1d, name="interp1d")
    me.vals["PchipInterpolator"] = Native(pchip, name="PchipInterpolator")
    me.vals["interp"] = Native(lambda it, x, xp, fp, **k: interp_value(it, x, xp, fp, "np.interp"), name="interp")
    # JSONSerializableClass: bookkeeping in the net (index in net[table]); not part of the curve
    it.summaries["pandapower.io_utils:JSONSerializableClass.__init__"] = lambda it, self, *a, **k: None
    it.summaries["pandapower.io_utils:JSONSerializableClass.add_to_net"] = lambda it, self, *a, **k: SV(z3.Int("characteristic_index"))


def run(vc):
    vc.configure = configure
    vc.trust("numpy.interp / scipy.interpolate.interp1d / PchipInterpolator pass through their support points (strictly increasing x; interp1d for x in any order unless assume_sorted=True, which is an obligation on the call)",
             "log10 / power: 10 ** log10(y) == y for y > 0")
    vc.assume_std("A-REAL", "A-GENERIC")
    sp = Space.get("pts")

    def arrays():
        x = Arr(sp, SV(z3.Function("x_values", I, R)(sp.i)))
        y = Arr(sp, SV(z3.Function("y_values", I, R)(sp.i)))
        return x, y

    def h_lin(p):
        rec = []
        install(p.it, rec)
        x, y = arrays()
        cls = p.it.modenv(CH).get("Characteristic")
        c = p.it.call(cls, [Opaque("net"), x, y], {})
        out = p.it.call(c, [x.e], {})
        p.prove("Characteristic:through-support-points", to_z(out, R) == to_z(y.e, R), note="c(x[k]) == y[k]")
        p.prove("Characteristic:stored-support-points", z3.And(_same_arr(p.it.getattr(c, "x_vals"), x), _same_arr(p.it.getattr(c, "y_vals"), y)))
    vc.explore("Characteristic", h_lin, max_paths=20)

    for kind, ikind in (("interp1d", "interp1d"), ("Pchip", "pchip")):
        for user_kind in (None, "linear", "cubic"):
            if kind == "Pchip" and user_kind is not None:
                continue

            def h_spline(p, kind=kind, ikind=ikind, user_kind=user_kind):
                rec = []
                install(p.it, rec)
                x, y = arrays()
                cls = p.it.modenv(CH).get("SplineCharacteristic")
                kw = {"interpolator_kind": kind}
                if user_kind is not None:
                    kw["kind"] = user_kind
                if kind == "interp1d":
                    kw["fill_value"] = SV(z3.Real("user_fill_value"))
                c = p.it.call(cls, [Opaque("net"), x, y], kw)
                user_kwargs = {k: v for k, v in kw.items() if k != "interpolator_kind"}
                tag = f"Spline[{kind},kind={user_kind}]"
                for n in (1, 2):          # the first evaluation builds the interpolator, the second uses the cached one
                    out = p.it.call(c, [x.e], {})
                    p.prove(f"{tag}:through-support-points#{n}", to_z(out, R) == to_z(y.e, R), note="c(x[k]) == y[k]")
                    state = p.it.getattr(c, "kwargs")
                    p.prove(f"{tag}:kwargs-persisted-unchanged#{n}", _same_dict(state, user_kwargs),
                            note="evaluation must not change the keyword arguments that are serialised with the object")
                    p.prove(f"{tag}:support-points-unchanged#{n}", z3.And(_same_arr(p.it.getattr(c, "x_vals"), x), _same_arr(p.it.getattr(c, "y_vals"), y)))
                    p.prove(f"{tag}:interpolator_kind-unchanged#{n}", p.it.getattr(c, "interpolator_kind") == kind)
                p.prove(f"{tag}:one-interpolator-built", len(rec) == 1)
                if rec:
                    o = rec[0]
                    p.prove(f"{tag}:built-from-stored-points", o.kind == ikind and o.x.space is sp and z3.eq(to_z(o.x.e), to_z(x.e)) and z3.eq(to_z(o.y.e), to_z(y.e)))
                    if kind == "interp1d":
                        p.prove(f"{tag}:kind", o.kwargs.get("kind") == (user_kind or "quadratic"), note="the user's kind, 'quadratic' by default")
                        p.prove(f"{tag}:bounds_error", o.kwargs.get("bounds_error") is False)
                        # precondition of the assumed scipy contract for support points in any order: interp1d sorts them itself
                        p.prove(f"{tag}:interp1d-sorts-the-support-points", o.kwargs.get("assume_sorted", False) is False,
                                note="interp1d(..., assume_sorted=True) passes through the support points only for increasing x")
                        fv = o.kwargs.get("fill_value")
                        p.prove(f"{tag}:fill_value", isinstance(fv, SV) and z3.eq(fv.z, z3.Real("user_fill_value")))
                cls_excl = p.it.getattr(c, "json_excludes")
                p.prove(f"{tag}:cached-interpolator-not-serialised", "_interpolator" in list(cls_excl))
            vc.explore(f"SplineCharacteristic[{kind},{user_kind}]", h_spline, max_paths=20)

    def h_log(p):
        rec = []
        install(p.it, rec)
        x, y = arrays()
        p.assume(z3.And(to_z(x.e) > 0, to_z(y.e) > 0))
        cls = p.it.modenv(CH).get("LogSplineCharacteristic")
        c = p.it.call(cls, [Opaque("net"), x, y], {})
        out = p.it.call(c, [x.e], {})
        ly = slog10(y.e)
        p.assume(to_z(spow(10, ly), R) == to_z(y.e, R))      # 10 ** log10(y) == y  (y > 0)
        p.prove("LogSpline:through-support-points", to_z(out, R) == to_z(y.e, R), note="c(x[k]) == y[k]")
        if rec:
            o = rec[0]
            p.prove("LogSpline:built-from-log-points", z3.eq(to_z(o.x.e), to_z(slog10(x.e))) and z3.eq(to_z(o.y.e), to_z(ly)))
    vc.explore("LogSplineCharacteristic", h_log, max_paths=20)
    _standins(vc)


def _same_arr(a, b):
    if not isinstance(a, Arr):
        return z3.BoolVal(False)
    return z3.BoolVal(a.space is b.space and a.mask is True) if not z3.eq(to_z(a.e), to_z(b.e)) else z3.BoolVal(a.space is b.space)


def _same_dict(state, want):
    if isinstance(state, PDict):
        if not state.is_concrete():
            return False
        state = state.to_dict()
    if not isinstance(state, dict) or set(state) != set(want):
        return False
    for k, v in want.items():
        s = state[k]
        if isinstance(v, SV):
            if not (isinstance(s, SV) and z3.eq(s.z, v.z)):
                return False
        elif s != v:
            return False
    return True


def _standins(vc):
    if not hasattr(vc, "native_standins"):
        vc.native_standins = []
    vc.native_standins.append(dict(
        name="characteristic objects on fixed data sets",
        bound="8 random data sets (2..9 points, monotone / arbitrary) x 6 interpolator variants: support points, range, JSON round trip after an "
              "evaluation; from_gradient with rising and falling gradients; equality with the serialised copy after an evaluation; support "
              "points replaced after an evaluation (4 classes)",
        script="from replaylib import run_all\nfrom replaylib.characteristics import main, main_more\nrun_all(main, main_more)\n", timeout=600))


def classify(ob, model):
    return ob.id.split("/")[1]


def replay(ob, model, finding=None):
    return {"script": f"# replay of {ob.id}\nfrom replaylib.characteristics import main\nmain()\n",
            "description": "characteristics of the three classes: value at support points, monotone range, state and value after evaluation + "
                           "serialisation round trip"}
