"""C16 -- OPF constraints handed to the solver are the declared limits, results are mapped back consistently.

Functions under contract (real text): pandapower.build_gen: _build_pp_pq_element (controllable sgen / load / storage),
add_q_constraints, add_p_constraints, _build_pp_gen (+ _enforce_controllable_vm_pu_p_mw), _build_pp_ext_grid;
pandapower.results_bus:write_pq_results_to_element (controllable elements).

For the generic in-service controllable element (any number of elements), with the solver's exit contract
PMIN <= PG <= PMAX, QMIN <= QG <= QMAX (A-SOLVE: the interior point solver returns a point inside the box it is given):
  * the result written to res_<element> is sign * PG with the element's sign convention (load, storage: -1; sgen: +1), and
        min_p_mw - delta <= res.p_mw <= max_p_mw + delta,   min_q_mvar - delta <= res.q_mvar <= max_q_mvar + delta
    (the box handed to the solver is exactly the declared box in the element's own sign convention);
  * setpoints: PG = sign * p_mw * scaling, QG = sign * q_mvar * scaling;
  * gens: PG = p_mw * scaling, VG = vm_pu, limits min/max -/+ delta; non-controllable gens are fixed: PMIN/PMAX = p_mw * scaling -/+ delta and the
    bus voltage limits are vm_pu -/+ delta; ext_grids: VG = vm_pu, bus VM/VA = vm_pu / va_degree, voltage limits vm_pu -/+ delta.

Added later: _check_gen_vm_limits (voltage range of gen buses = intersection of bus and gen limits, run_gen_vm; the pinned code wrote min_vm_pu
through the wrong mask: repaired) and the DC OPF branch flow limits of opf_setup with the phase-shift offset Pfinj (run_dc_flow_limits).
"""
from __future__ import annotations

import z3

from pyvc.values import SV, CV, XV, PV, B, I, R, EngineError, to_z, real, arith, compare, ite, Opaque
from pyvc.containers import PDict
from pyvc.arrays import Table, Mat, Space, Arr, SegBound, subst, truth_z
from pyvc.vc import consts
from pyvc.interp import Native
from pyvc import netmodel
from contracts import ppcmodel as pm

PROP = "C16"
MIN_OBLIGATIONS = 40
BG = "pandapower.build_gen"
NOT_DECIDED = ["not decided: the interior point solver (A-SOLVE exit contract assumed), branch loading limits of the AC OPF (RATE_A: C02 line build), "
               "bus voltage limits of plain buses (_build_bus_ppc); dcline constraints (_add_dcline_constraints): bounded native stand-in only",
               "not decided: 'a power flow with the OPF dispatch reproduces the results' (power flow solver: C01/C06)"]

GEN_SEGS = ["ext_grid", "gen", "sgen_controllable", "load_controllable", "storage_controllable", "xward"]


def configure(it):
    pm.configure(it)


def _setup(element, ctrl_seg, cols, mode="opf"):
    ig = consts("pandapower.pypower.idx_gen"); iu = consts("pandapower.pypower.idx_bus")
    tab = pm.table(element, cols)
    sp = tab.space
    gen = Mat("ppcgen", {ctrl_seg: sp})
    is_el = SV(z3.Function(f"is_{ctrl_seg}", I, B)(sp.i))
    gen.seg_masks[ctrl_seg] = is_el.z
    bus = pm.bus_mat()
    lsp = Space.get("label:bus")
    bus_lookup = Arr(lsp, SV(z3.Function("bus_lookup", I, I)(lsp.i)))
    f, t = SegBound(None, before=None, after=ctrl_seg), SegBound(None, before=ctrl_seg, after=None)
    net = netmodel.Net({"_options": PDict({"delta": real("delta"), "mode": mode, "calculate_voltage_angles": True, "enforce_q_lims": False}),
                        "_is_elements": PDict({ctrl_seg: Arr(sp, is_el)}), "_pd2ppc_lookups": PDict({"bus": bus_lookup}), element: tab},
                       strict=True)
    ppc = PDict({"gen": gen, "bus": bus})
    return net, ppc, gen, bus, tab, is_el, f, t, ig, iu, bus_lookup


def run(vc):
    vc.configure = configure
    vc.trust("A-SOLVE: the OPF solver returns PG, QG inside the box [PMIN, PMAX] x [QMIN, QMAX] it is given",
             "A-LOOKUP: ppc['gen'] holds one block of rows per element kind (f:t), in table order of the in-service elements")
    vc.assume_std("A-REAL", "A-GENERIC", "A-LOOKUP", "A-NUMPY", "A-SOLVE")

    # ---- controllable pq elements ----------------------------------------------------------------------------------
    for element, inverted in (("sgen", False), ("load", True), ("storage", True)):
        def h(p, element=element, inverted=inverted):
            seg = f"{element}_controllable"
            cols = {"bus": I, "p_mw": R, "q_mvar": R, "scaling": R, "sn_mva": R, "min_p_mw": R, "max_p_mw": R, "min_q_mvar": R, "max_q_mvar": R}
            net, ppc, gen, bus, tab, is_el, f, t, ig, iu, bl = _setup(element, seg, cols)
            out = p.call(f"{BG}:_build_pp_pq_element", net, ppc, element, f, t, inverted)
            if out.raised:
                raise EngineError(f"_build_pp_pq_element raised {out.exc!r}")
            p.assume(is_el.z)
            c = tab.cols
            d = net.fields.raw("_options").raw("delta")
            sign = -1 if inverted else 1
            G = lambda col: to_z(gen.get(seg, col), R)
            tag = f"pq[{element}]"
            p.prove(f"{tag}:PG", G(ig.PG) == sign * to_z(c["p_mw"]) * to_z(c["scaling"]), note="PG = sign * p_mw * scaling")
            p.prove(f"{tag}:QG", G(ig.QG) == sign * to_z(c["q_mvar"]) * to_z(c["scaling"]))
            # box equivalence in the element's own sign convention, for every point (pg, qg)
            pg, qg = z3.Real("pg*"), z3.Real("qg*")
            p.prove(f"{tag}:p-box", z3.And(G(ig.PMIN) <= pg, pg <= G(ig.PMAX)) ==
                    z3.And(to_z(c["min_p_mw"]) - to_z(d) <= sign * pg, sign * pg <= to_z(c["max_p_mw"]) + to_z(d)),
                    note="PMIN <= PG <= PMAX  <=>  min_p_mw - delta <= sign*PG <= max_p_mw + delta", meta=dict(part="box", element=element))
            p.prove(f"{tag}:q-box", z3.And(G(ig.QMIN) <= qg, qg <= G(ig.QMAX)) ==
                    z3.And(to_z(c["min_q_mvar"]) - to_z(d) <= sign * qg, sign * qg <= to_z(c["max_q_mvar"]) + to_z(d)),
                    note="QMIN <= QG <= QMAX  <=>  min_q_mvar - delta <= sign*QG <= max_q_mvar + delta", meta=dict(part="box", element=element))
            p.prove(f"{tag}:GEN_BUS", G(ig.GEN_BUS) == z3.ToReal(z3.substitute(to_z(bl.e, I), (bl.space.i, to_z(c["bus"], I)))))
            p.prove(f"{tag}:frame", all(s == seg for s, _ in gen.written) and not bus.written, note="only the element's block of ppc['gen'] is written")
        vc.explore(f"_build_pp_pq_element[{element}]", h, max_paths=40)

    run_results(vc)
    run_gen(vc, ("opf", "pf"))
    run_gen_vm(vc)
    run_dc_flow_limits(vc)
    _standins(vc)


def run_results(vc, tagprefix=""):
    # ---- results of controllable elements -----------------------------------------------------------------------------
    for element in ("sgen", "load", "storage"):
        def h_res(p, element=element):
            ig = consts("pandapower.pypower.idx_gen")
            seg = f"{element}_controllable"
            tab = pm.table(element, {"p_mw": R, "q_mvar": R, "scaling": R})
            sp = tab.space
            res = pm.result_table(f"res_{element}", sp, ["p_mw", "q_mvar"])
            res.index_e = tab.index_e
            res.pos_of = tab.pos_of
            is_c = SV(z3.Function(f"is_{seg}", I, B)(sp.i))
            is_s = SV(z3.Function(f"is_{element}", I, B)(sp.i))
            gsp = Space.get("ppcgen")
            gen = Mat("ppcgen", {"all": gsp})
            pm.colfun(gen, "all", ig.PG, R); pm.colfun(gen, "all", ig.QG, R)
            lsp = Space.get(f"label:{element}")
            lk = Arr(lsp, SV(z3.Function(f"lookup_{seg}", I, I)(lsp.i)))
            net = netmodel.Net({"_options": PDict({"ac": True, "distributed_slack": False}),
                                "_is_elements": PDict({seg: Arr(sp, is_c), element: Arr(sp, is_s)}), "_pd2ppc_lookups": PDict({seg: lk}),
                                element: tab, f"res_{element}": res}, strict=True)
            tab.label_axiom(p.it)
            out = p.call("pandapower.results_bus:write_pq_results_to_element", net, PDict({"gen": gen}), element)
            if out.raised:
                raise EngineError(f"write_pq_results_to_element raised {out.exc!r}")
            sign = 1 if element == "sgen" else -1
            row = z3.substitute(to_z(lk.e, I), (lsp.i, to_z(tab.index_e, I)))
            PG = z3.Function(f"ppcgen[all,{ig.PG}]", I, R)(row)
            QG = z3.Function(f"ppcgen[all,{ig.QG}]", I, R)(row)
            c = tab.cols
            p.prove(f"res[{element}]:p_mw", to_z(res.cols["p_mw"], R) == z3.If(is_c.z, sign * PG, to_z(c["p_mw"]) * to_z(c["scaling"]) * z3.If(is_s.z, 1.0, 0.0)),
                    note="controllable element: sign * PG of its row in ppc['gen']; otherwise p_mw * scaling if in service", meta=dict(part="results", element=element))
            p.prove(f"res[{element}]:q_mvar", to_z(res.cols["q_mvar"], R) == z3.If(is_c.z, sign * QG, to_z(c["q_mvar"]) * to_z(c["scaling"]) * z3.If(is_s.z, 1.0, 0.0)),
                    meta=dict(part="results", element=element))
        vc.explore(f"write_pq_results_to_element[{element}]", h_res, max_paths=40)



def run_gen(vc, modes):
    # ---- gens --------------------------------------------------------------------------------------------------------
    for mode in modes:
        def h_gen(p, mode=mode):
            cols = {"bus": I, "p_mw": R, "vm_pu": R, "scaling": R, "sn_mva": R, "slack_weight": R, "min_p_mw": R, "max_p_mw": R, "min_q_mvar": R,
                    "max_q_mvar": R, "controllable": B}
            net, ppc, gen, bus, tab, is_el, f, t, ig, iu, bl = _setup("gen", "gen", cols, mode=mode)
            pm.colfun(bus, "all", iu.BUS_TYPE, R); pm.colfun(bus, "all", iu.VMAX, R); pm.colfun(bus, "all", iu.VMIN, R)
            out = p.call(f"{BG}:_build_pp_gen", net, ppc, f, t)
            if out.raised:
                raise EngineError(f"_build_pp_gen raised {out.exc!r}")
            p.assume(is_el.z)
            c = tab.cols
            d = to_z(net.fields.raw("_options").raw("delta"))
            G = lambda col: to_z(gen.get("gen", col), R)
            tag = f"gen[{mode}]"
            p.prove(f"{tag}:PG", G(ig.PG) == to_z(c["p_mw"]) * to_z(c["scaling"]), meta=dict(part="gen"))
            p.prove(f"{tag}:VG", G(ig.VG) == to_z(c["vm_pu"]), meta=dict(part="gen"))
            p.prove(f"{tag}:QMIN", G(ig.QMIN) == to_z(c["min_q_mvar"]) - d, meta=dict(part="gen"))
            p.prove(f"{tag}:QMAX", G(ig.QMAX) == to_z(c["max_q_mvar"]) + d, meta=dict(part="gen"))
            if mode == "opf":
                nc = z3.Not(to_z(c["controllable"]))
                fixed = to_z(c["p_mw"]) * to_z(c["scaling"])     # the set point of the power flow (PG above), not the bare p_mw
                p.prove(f"{tag}:PMIN", G(ig.PMIN) == z3.If(nc, fixed - d, to_z(c["min_p_mw"]) - d), meta=dict(part="gen"),
                        note="non-controllable gens are fixed at their set point p_mw * scaling, controllable ones limited by min_p_mw")
                p.prove(f"{tag}:PMAX", G(ig.PMAX) == z3.If(nc, fixed + d, to_z(c["max_p_mw"]) + d), meta=dict(part="gen"))
            else:
                p.prove(f"{tag}:PMIN", G(ig.PMIN) == to_z(c["min_p_mw"]) - d, meta=dict(part="gen"))
                p.prove(f"{tag}:PMAX", G(ig.PMAX) == to_z(c["max_p_mw"]) + d, meta=dict(part="gen"))
            gb = z3.substitute(to_z(bl.e, I), (bl.space.i, to_z(c["bus"], I)))
            vm_bus = bus.row_of(tab.space, SV(gb), iu.VM, p.it)
            p.prove(f"{tag}:bus-VM", to_z(vm_bus, R) == to_z(c["vm_pu"]), note="the gen bus starts at / is held at the gen's vm_pu", meta=dict(part="gen"))
        vc.explore(f"_build_pp_gen[{mode}]", h_gen, max_paths=200)


def run_gen_vm(vc):
    """voltage limits of gens (OPF): the bus of an in-service gen gets the intersection of the bus limits and the gen's own limits"""
    def h(p):
        cols = {"bus": I, "p_mw": R, "vm_pu": R, "scaling": R, "sn_mva": R, "slack_weight": R, "min_p_mw": R, "max_p_mw": R, "min_q_mvar": R,
                "max_q_mvar": R, "controllable": B, "min_vm_pu": R, "max_vm_pu": R}
        net, ppc, gen, bus, tab, is_el, f, t, ig, iu, bl = _setup("gen", "gen", cols, mode="opf")
        pm.colfun(bus, "all", iu.BUS_TYPE, R)
        vmax0 = pm.colfun(bus, "all", iu.VMAX, R)
        vmin0 = pm.colfun(bus, "all", iu.VMIN, R)
        out = p.call(f"{BG}:_build_pp_gen", net, ppc, f, t)
        if out.raised:
            raise EngineError(f"_build_pp_gen raised {out.exc!r}")
        p.assume(is_el.z)
        c = tab.cols
        d = to_z(net.fields.raw("_options").raw("delta"))
        gb = z3.substitute(to_z(bl.e, I), (bl.space.i, to_z(c["bus"], I)))
        at = lambda e: z3.substitute(to_z(e, R), (bus.segments["all"].i, gb))
        nc = z3.Not(to_z(c["controllable"]))
        hi, lo = to_z(bus.row_of(tab.space, SV(gb), iu.VMAX, p.it), R), to_z(bus.row_of(tab.space, SV(gb), iu.VMIN, p.it), R)
        gmax, gmin = to_z(c["max_vm_pu"]), to_z(c["min_vm_pu"])
        want_hi = z3.If(nc, to_z(c["vm_pu"]) + d, z3.If(gmax <= at(vmax0), gmax, at(vmax0)))
        want_lo = z3.If(nc, to_z(c["vm_pu"]) - d, z3.If(gmin >= at(vmin0), gmin, at(vmin0)))
        p.prove("gen[opf]:bus-VMAX", hi == want_hi, meta=dict(part="gen-vm"),
                note="upper voltage limit of the gen's bus: the tighter one of the bus limit and the gen's own max_vm_pu (fixed to vm_pu for "
                     "non-controllable gens); the gen's own bus, the gen's own value")
        p.prove("gen[opf]:bus-VMIN", lo == want_lo, meta=dict(part="gen-vm"),
                note="lower voltage limit of the gen's bus: the tighter one of the bus limit and the gen's own min_vm_pu")
    vc.explore("_build_pp_gen[opf, voltage limits]", h, max_paths=400)


def _standins(vc):
    if not hasattr(vc, "native_standins"):
        vc.native_standins = []
    vc.native_standins.append(dict(
        name="OPF results of a lossy dcline against the dcline model of the power flow",
        bound="one 4-bus 110 kV network with a dcline, 7 combinations of loss_percent / loss_mw / direction of the set point / net.sn_mva; AC OPF, then a power "
              "flow with the dispatched dcline power: p_from_mw and p_to_mw must agree (_add_dcline_constraints builds a sparse matrix row by row "
              "from slices of the gen index: outside the deductive fragment); voltage limits of two buses fused by a closed bus-bus switch; a "
              "non-controllable gen with scaling 0.5 (OPF result against a power flow with the OPF dispatch)",
        script="import sys\nfrom replaylib.opf_feasible import main_dcline, main_more\n"
               "from replaylib import run_all\nrun_all(main_dcline, main_more)\n",
        timeout=900))


def run_dc_flow_limits(vc):
    """opf_setup, DC model: the two linear constraints on a rated branch are  -RATE_A <= flow <= RATE_A  for the DC flow
    flow = Bf Va + Pfinj  (Pfinj: the offset caused by a phase shift), i.e.  Bf Va <= RATE_A/S_base - Pfinj  and  -Bf Va <= RATE_A/S_base + Pfinj."""
    OS = "pandapower.pypower.opf_setup"
    ib = consts("pandapower.pypower.idx_brch"); ic = consts("pandapower.pypower.idx_cost")

    class Tok:
        no_identity_merge = True

        def __init__(self, name, rows=None, sign=1):
            self.name, self.rows, self.sign = name, rows, sign

        def sym_getitem(self, it, key):
            if isinstance(key, tuple) and len(key) == 2 and isinstance(key[1], slice):
                return Tok(self.name, key[0], self.sign)
            raise EngineError("index into a sparse matrix token")

        def sym_unop(self, it, op):
            if op == "neg":
                return Tok(self.name, self.rows, -self.sign)
            raise EngineError("unary op on a sparse matrix token")

    def h(p):
        bsp = Space.get("ppcbranch")
        branch = Mat("branch", {"all": bsp})
        rate = pm.colfun(branch, "all", ib.RATE_A)
        bus = pm.bus_mat()
        gen = Mat("gen", {"all": Space.get("ppcgen")})
        gencost = Mat("gencost", {"all": Space.get("ppcgencost")})
        gencost.cols[("all", ic.MODEL)] = float(ic.POLYNOMIAL)
        gencost.cols[("all", ic.NCOST)] = 2.0
        base = SV(z3.Real("baseMVA"))
        p.assume(base.z > 0)
        pfinj = Arr(bsp, SV(z3.Function("Pfinj", I, R)(bsp.i)))
        Bf = Tok("Bf")
        cons = {}
        me = p.it.modenv(OS)
        op = lambda why: Native(lambda it, *a, **k: Opaque(why), name=why)
        for nm in ("sparse", "hstack", "makeAy", "makeAvl", "makeApq"):
            me.vals[nm] = op(nm)
        me.vals["pqcost"] = Native(lambda it, gc, ng, *a: (gc, Opaque("qcost")), name="pqcost")
        me.vals["opf_args"] = Native(lambda it, ppc, ppopt: (base, bus, gen, branch, gencost, None, Opaque("lbu"), Opaque("ubu"), ppopt, None,
                                                             Opaque("fparm"), Opaque("H"), Opaque("Cw"), Opaque("z0"), Opaque("zl"), Opaque("zu"),
                                                             [], None), name="opf_args")
        me.vals["makeBdc"] = Native(lambda it, b, br: (Opaque("B"), Bf, Opaque("Pbusinj"), pfinj, None), name="makeBdc")
        me.vals["makeAang"] = Native(lambda it, *a: (Opaque("Aang"), Opaque("lang"), Opaque("uang"), Opaque("iang")), name="makeAang")

        class Model:
            def __init__(self):
                self.cons = cons

        def opf_model(it, ppc):
            from pyvc.interp import ObjVal
            return ObjVal(None, {"userdata": Native(lambda it, *a: None, name="userdata", pure=False),
                                 "add_vars": Native(lambda it, *a: None, name="add_vars", pure=False),
                                 "add_costs": Native(lambda it, *a: None, name="add_costs", pure=False),
                                 "add_constraints": Native(lambda it, name, *a: cons.__setitem__(name, a), name="add_constraints", pure=False)})
        me.vals["opf_model"] = Native(opf_model, name="opf_model")
        p.it.lenient_numpy = True
        ppc = PDict({"bus": bus, "branch": branch, "gen": gen, "gencost": gencost})
        out = p.call(f"{OS}:opf_setup", ppc, PDict({"PF_DC": 1, "OPF_ALG": 0, "VERBOSE": 0, "OPF_FLOW_LIM": 0}))
        if out.raised:
            raise EngineError(f"opf_setup raised {out.exc!r}")
        meta = dict(part="dc-flow-limits")
        ok = "Pf" in cons and "Pt" in cons
        p.prove("dc-opf: both branch flow constraints are added", ok, meta=meta)
        if not ok:
            return
        (Af, lf, uf, _), (At, lt, ut, _) = cons["Pf"], cons["Pt"]
        shape = isinstance(Af, Tok) and isinstance(At, Tok) and Af.sign == 1 and At.sign == -1 and Af.rows is At.rows and \
            isinstance(uf, Arr) and isinstance(ut, Arr) and uf.space is bsp and ut.space is bsp
        p.prove("dc-opf: 'Pf' constrains Bf Va and 'Pt' constrains -Bf Va on the same rated branches", shape, meta=meta)
        if not shape:
            return
        r = to_z(rate, R) / base.z
        rated = z3.And(to_z(rate, R) != 0, to_z(rate, R) < 1e10)
        um = lambda a: z3.BoolVal(True) if a.mask is True else a.mask
        p.prove("dc-opf: exactly the branches with a rating are constrained", z3.And(um(uf) == rated, um(ut) == rated), meta=meta)
        # flow = Bf Va + Pfinj;  flow <= r  <=>  Bf Va <= r - Pfinj;   -flow <= r  <=>  -Bf Va <= r + Pfinj
        p.prove("dc-opf: upper bound of Bf Va is RATE_A / S_base - Pfinj  (flow <= rating)", z3.Implies(rated, to_z(uf.e, R) == r - to_z(pfinj.e, R)), meta=meta)
        p.prove("dc-opf: upper bound of -Bf Va is RATE_A / S_base + Pfinj  (-flow <= rating)", z3.Implies(rated, to_z(ut.e, R) == r + to_z(pfinj.e, R)), meta=meta,
                note="with the phase-shift offset Pfinj of the branch: the limit holds for the flow, not for Bf Va")
    vc.explore("opf_setup[dc]", h, max_paths=40)


def classify(ob, model):
    return ob.meta.get("part", "setpoints") + ":" + ob.meta.get("element", "")


def replay(ob, model, finding=None):
    if ob.meta.get("part") == "dc-flow-limits":
        return {"script": f"# replay of {ob.id}\nfrom replaylib.opf_feasible import main_dc_shift\nmain_dc_shift()\n",
                "description": "DC OPF with a phase-shifting transformer at its loading limit (shift 0 / 30 / 150 / -30 degrees, flow in both "
                               "directions): loading of the converged result"}
    if ob.meta.get("part") == "gen-vm" or "voltage limits" in ob.id:
        return {"script": f"# replay of {ob.id}\nfrom replaylib.opf_feasible import main_gen_vm\nmain_gen_vm()\n",
                "description": "AC OPF with two gens that declare their own voltage limits (one above its bus maximum, the other below its bus "
                               "minimum): converged voltages and the limits handed to the solver against the declared ranges"}
    if ob.meta.get("part") == "gen":
        return {"script": f"# replay of {ob.id}\nimport sys\nfrom replaylib.opf_feasible import main, main_more\n"
                          "from replaylib import run_all\nrun_all(main, main_more)\n",
                "description": "AC OPF with controllable elements with asymmetric limits; a non-controllable gen with a scaling factor: results "
                               "inside the declared limits and reproduced by a power flow with the OPF dispatch"}
    return {"script": f"# replay of {ob.id}\nfrom replaylib.opf_feasible import main\nmain()\n",
            "description": "AC OPF with controllable loads / storages / sgens / gens with asymmetric limits: results inside the declared limits and "
                           "reproduced by a power flow"}
