"""C11 (part 2) -- three-phase power flow: the per-phase nodal injections handed to the sequence iteration.

Functions under contract (real text of pandapower.pf.runpp_3ph): _load_mapping, _get_elements.

The three-phase solution satisfies, per phase, the nodal balance for the injections S_abc that _load_mapping builds; the element result
tables report the elements' own phase powers. Both agree -- every phase has nodal balance with respect to what the elements take, and a
symmetric load takes one third of its power in every phase -- only if, for every phase ph, connection type typ (wye / delta) and every
node n of the calculation (ppc bus; several pandapower buses are one node when bus-bus switches fuse them):

    S[ph, typ][n]  =  sum over the in-service elements e of all four tables (load, sgen, asymmetric_load, asymmetric_sgen) with
                      type_e == typ and node(bus_e) == n  of  s_e,ph
    s_e,ph = sign * (p_mw + j q_mvar) / 3 * scaling            for load (sign +1) and sgen (sign -1)
    s_e,ph = sign * (p_ph_mw + j q_ph_mvar) * scaling          for asymmetric_load (+1) and asymmetric_sgen (-1)

Decided here for tables of any length with arbitrary contents (generic row of each table), given the assumed contracts
    _sum_by_group(b, v...) -> (distinct keys of b, per key the sum of the rows with that key)        [pandapower.auxiliary, A-SUM]
    a[keys] = vals with distinct keys stores vals at the keys and leaves the rest of a
by proving that the real code
    * stores each S[ph, typ] exactly once, through the distinct keys returned by the grouping itself (keys that are mapped to other
      indices *after* the grouping can collide, and a colliding store keeps one group only);
    * groups by node(bus_e) (the bus lookup applied to the element's own bus);
    * hands to the grouping, for every table with rows, exactly the rows that are in service and of connection type typ, once
      (typ = delta: type == 'delta'; typ = wye: every other value of the type column -- taken from the property: every in-service
      element takes its power in every phase, so none may be left out of both injections);
    * with the element's own phase power as above.
S starts as zero for every node (proved), so nodes without elements inject nothing.
"""
from __future__ import annotations

import z3

from pyvc import netmodel
from pyvc.values import SV, CV, PV, B, I, R, EngineError, to_z, to_pv, Opaque
from pyvc.arrays import Space, Arr, MappedKeys, subst
from pyvc.containers import PDict
from pyvc.interp import Native
from pyvc.lib_np import Rows, Cat
from contracts import ppcmodel as pm

RP = "pandapower.pf.runpp_3ph"
SIGN = {"load": 1, "sgen": -1, "asymmetric_load": 1, "asymmetric_sgen": -1}
TABLES = ["load", "asymmetric_load", "sgen", "asymmetric_sgen"]


class GK:
    """distinct keys returned by _sum_by_group"""
    is_group_keys = True

    def __init__(self, b):
        self.b = b


class GroupSum:
    """per distinct key the sum of `val` over the rows with that key; sums of group sums over the same keys add (linearity)"""
    no_identity_merge = True

    def __init__(self, b, val):
        self.b = b
        self.val = val

    def sym_binop(self, it, op, a, b):
        if op == "+" and isinstance(a, GroupSum) and isinstance(b, GroupSum) and a.b is b.b:
            return GroupSum(a.b, it.binop("+", a.val, b.val))
        from pyvc.arrays import is_scalar
        if op == "*" and isinstance(a, GroupSum) and is_scalar(b):
            return GroupSum(a.b, it.binop("*", a.val, b))       # a scalar factor commutes with the group sums
        if op == "*" and isinstance(b, GroupSum) and is_scalar(a):
            return GroupSum(b.b, it.binop("*", a, b.val))
        return NotImplemented

    def sym_unop(self, it, op):
        if op == "neg":
            return GroupSum(self.b, it.unop("neg", self.val))
        raise EngineError(f"{op} of group sums")


def _sum_by_group(it, b, *vals):
    return (GK(b),) + tuple(GroupSum(b, v) for v in vals)


def run(vc):
    def h_map(p):
        tabs = {}
        act = {}
        for et in TABLES:
            cols = {"bus": I, "scaling": R, "type": PV}
            if et.startswith("asymmetric"):
                for ph in "abc":
                    cols[f"p_{ph}_mw"] = R
                    cols[f"q_{ph}_mvar"] = R
            else:
                cols["p_mw"] = R
                cols["q_mvar"] = R
            tabs[et] = pm.table(et, cols)
            act[et] = Arr(tabs[et].space, SV(z3.Function(f"in_service_and_supplied[{et}]", I, B)(tabs[et].space.i)))
        lsp = Space.get("label:bus")
        bl = Arr(lsp, SV(z3.Function("bus_lookup", I, I)(lsp.i)))
        net = netmodel.Net(dict({"_is_elements": PDict(dict(act)), "_pd2ppc_lookups": PDict({"bus": bl})}, **tabs), strict=True)
        bus = pm.bus_mat()
        p.it.summaries["pandapower.auxiliary:_sum_by_group"] = _sum_by_group
        me = p.it.modenv(RP)
        if me.has("_sum_by_group"):
            me.vals["_sum_by_group"] = Native(_sum_by_group, name="_sum_by_group")
        p.fn(f"{RP}:_get_elements")
        out = p.call(f"{RP}:_load_mapping", net, PDict({"bus": bus}))
        if out.raised:
            raise EngineError(f"_load_mapping raised {out.exc!r}")
        res = out.value
        ok = isinstance(res, tuple) and len(res) == 2 and all(isinstance(r, Rows) and len(r.rows) == 3 for r in res)
        p.prove("returns (S_delta, S_wye), three phase rows each", ok, meta=dict(part="loads-structure"))
        if not ok:
            return
        by_space = {tabs[et].space: et for et in TABLES}
        for typ, rows in (("delta", res[0]), ("wye", res[1])):
            for ph, S in zip("abc", rows.rows):
                tag = f"[{ph},{typ}]"
                meta = dict(part="loads", phase=ph, typ=typ)
                ok = isinstance(S, Arr) and S.space is bus.segments["all"] and S.mask is True
                p.prove(f"S{tag} is a vector over the nodes of the calculation", ok, meta=dict(meta, part="loads-structure"))
                if not ok:
                    continue
                e0 = S.e if isinstance(S.e, CV) else CV(S.e, 0)
                p.prove(f"S{tag} starts as zero at every node", z3.And(to_z(e0.re, R) == 0, to_z(e0.im, R) == 0), meta=meta)
                stores = getattr(S, "scatter_stores", [])
                any_rows = z3.Or(*[tabs[et].space.n > 0 for et in TABLES])
                p.prove(f"S{tag}: stored at most once", len(stores) <= 1, meta=dict(meta, part="loads-structure"))
                if not stores:
                    # nothing stored: only right when no table has a row that could contribute
                    none = z3.And(*[z3.Not(z3.And(tabs[et].space.n > 0, to_z(act[et].e),
                                                  (tabs[et].cols["type"].z == to_pv("delta")) if typ == "delta" else (tabs[et].cols["type"].z != to_pv("delta"))))
                                    for et in TABLES])
                    p.prove(f"S{tag}: nothing stored only if no element contributes", none, meta=meta)
                    continue
                key, val = stores[0]
                distinct = isinstance(key, GK) and isinstance(val, GroupSum) and val.b is key.b
                p.prove(f"S{tag}: one entry per node -- stored through the distinct keys of the grouping, with the sums of that grouping",
                        distinct, meta=dict(meta, part="loads-structure"),
                        note="keys mapped to node indices after the grouping can collide (fused buses); the colliding store keeps one group")
                if not distinct:
                    continue
                kparts = key.b.parts if isinstance(key.b, Cat) else [key.b]
                vparts = val.val.parts if isinstance(val.val, Cat) else [val.val]
                shape = len(kparts) == len(vparts) and all(isinstance(k, Arr) and isinstance(v, Arr) and k.space is v.space and k.space in by_space
                                                           for k, v in zip(kparts, vparts))
                p.prove(f"S{tag}: keys and values come from the same element rows", shape, meta=dict(meta, part="loads-structure"))
                if not shape:
                    continue
                seen = [by_space[k.space] for k in kparts]
                p.prove(f"S{tag}: no table contributes twice", len(seen) == len(set(seen)), meta=dict(meta, part="loads-structure"))
                for et in TABLES:
                    p.prove(f"S{tag}: every table with rows contributes [{et}]", z3.Or(tabs[et].space.n <= 0, z3.BoolVal(et in seen)), meta=meta)
                for k, v in zip(kparts, vparts):
                    et = by_space[k.space]
                    t = tabs[et]
                    c = t.cols
                    m = dict(meta, et=et)
                    node = z3.substitute(to_z(bl.e, I), (lsp.i, to_z(c["bus"], I)))
                    p.prove(f"S{tag}[{et}]: grouped by the node of the element's own bus", to_z(k.e, I) == node, meta=m)
                    # every in-service element is injected: through the delta transformation iff its type is 'delta', phase-earth
                    # otherwise (the type column also carries other classifications, e.g. 'PV' / 'WP' for sgens, or is missing)
                    is_delta = c["type"].z == to_pv("delta")
                    want = z3.And(to_z(act[et].e), is_delta if typ == "delta" else z3.Not(is_delta))
                    km = z3.BoolVal(True) if k.mask is True else k.mask
                    vm = z3.BoolVal(True) if v.mask is True else v.mask
                    p.prove(f"S{tag}[{et}]: exactly the in-service elements of connection type {typ}", z3.And(km == want, vm == want), meta=m,
                            note="wye = every type that is not 'delta': no in-service element may be left out of both injections")
                    ve = v.e if isinstance(v.e, CV) else CV(v.e, 0)
                    if et.startswith("asymmetric"):
                        pw, qw = to_z(c[f"p_{ph}_mw"], R), to_z(c[f"q_{ph}_mvar"], R)
                    else:
                        pw, qw = to_z(c["p_mw"], R) / 3, to_z(c["q_mvar"], R) / 3
                    sc = to_z(c["scaling"], R)
                    p.prove(f"S{tag}[{et}]: the element's own phase power", z3.And(to_z(ve.re, R) == SIGN[et] * pw * sc, to_z(ve.im, R) == SIGN[et] * qw * sc),
                            meta=m, note="load / sgen: one third of p, q per phase; asymmetric elements: the phase's own p, q; generation negative")
    vc.explore("_load_mapping", h_map, max_paths=200)
