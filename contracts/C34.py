"""C34 -- explicit power flow arguments take precedence over stored user options.

Functions under contract (real source, re-read each run):
    pandapower.run:runpp, pandapower.run:_passed_runpp_parameters, pandapower.run:set_user_pf_options,
    pandapower.auxiliary:_init_runpp_options, _add_ppc_options, _add_pf_options, _add_options

Statement as obligations (relational, taken from the property text, not from the code):
  for every option name k and every call  runpp(net, <any subset of arguments passed with any values>):
    (A) if k was passed explicitly, the options the power flow finally runs with (net._options at the
        moment _powerflow is entered) and the way runpp terminates do not depend on whether
        net.user_pf_options contains k, nor on the value stored there.
  Non-vacuity (cover): when k is not passed, the stored value does reach net._options.

Call binding is modelled explicitly: for each parameter a ghost boolean passed_k and the actual arg_k;
the callee's local is ite(passed_k, arg_k, default_k) -- exactly what CPython binds.
"""
from __future__ import annotations

import z3

from pyvc import netmodel, lib_np
from pyvc.values import SV, PV, Opaque, to_pv, B, EngineError
from pyvc.containers import PDict
from pyvc.interp import Native, PyRaise

PROP = "C34"
RUNPP = "pandapower.run:runpp"

# option names that only travel through **kwargs of runpp (read by _init_runpp_options via kwargs.get)
KW_KEYS = ["trafo3w_losses", "v_debug", "delta_q", "switch_rx_ratio", "numba", "init_vm_pu", "init_va_degree",
           "neglect_open_switch_branches", "only_v_results", "use_umfpack", "permc_spec", "lightsim2grid",
           "tdpf_update_r_theta",
           "delta",                    # the name under which the runpp argument delta_q is stored (standard parameter of set_user_pf_options)
           "zz_generic_option"]        # occurs nowhere in the code: stands for any other option name
# runpp arguments whose option is stored under another name: passing the argument must override the stored option of that name as well
ALIAS = {"delta_q": "delta"}


def configure(it):
    netmodel.install(it)
    lib_np.install(it)

    F_ret = z3.Function("ls2g_ret", PV, PV, PV, PV, PV, PV)
    F_raise = z3.Function("ls2g_raises", PV, PV, PV, PV, PV, B)

    def ls2g(it, net, lightsim2grid, voltage_depend_loads, algorithm, distributed_slack, tdpf):
        # assumed contract: pure function of its arguments and of the element tables of net
        a = [to_pv(x) for x in (lightsim2grid, voltage_depend_loads, algorithm, distributed_slack, tdpf)]
        if it.truth(SV(F_raise(*a)), tag="ls2g raises"):
            raise PyRaise(NotImplementedError("lightsim2grid"))
        return SV(F_ret(*a))
    it.summaries["pandapower.auxiliary:_check_lightsim2grid_compatibility"] = ls2g
    def pure(fn):
        fn._pure = True
        return fn
    it.summaries["pandapower.auxiliary:_check_if_numba_is_installed"] = pure(lambda it, *a, **k: SV(z3.Const("numba_installed", PV)))
    it.summaries["pandapower.auxiliary:_check_tdpf_parameters"] = pure(lambda it, *a, **k: None)
    it.summaries["pandapower.auxiliary:_check_bus_index_and_print_warning_if_high"] = lambda it, *a, **k: None
    it.summaries["pandapower.auxiliary:_check_gen_index_and_print_warning_if_high"] = lambda it, *a, **k: None

    def powerflow(it, net, **kwargs):
        # observation point of the property: the options the power flow runs with
        it.ctx.ghost["options_at_pf"] = PDict(net.fields.raw("_options"))
        return None
    powerflow._symkw = True
    it.summaries["pandapower.powerflow:_powerflow"] = powerflow


def _scenario(p):
    """fully symbolic call of runpp; returns (names, passed, arg, up, uval)"""
    f = p.fn(RUNPP)
    for k in ("pandapower.run:_passed_runpp_parameters", "pandapower.auxiliary:_init_runpp_options",
              "pandapower.auxiliary:_add_ppc_options", "pandapower.auxiliary:_add_pf_options",
              "pandapower.auxiliary:_add_options"):
        p.fn(k)
    a = f.node.args
    named = [x.arg for x in a.args][1:]
    if a.kwarg is None:
        raise EngineError("runpp no longer takes **kwargs: contract needs revision")
    named = [n for n in named if n != "run_control"]
    keys = named + KW_KEYS
    passed = {k: z3.Bool(f"passed[{k}]") for k in keys}
    arg = {k: z3.Const(f"arg[{k}]", PV) for k in keys}
    up = {k: z3.Bool(f"stored[{k}]") for k in keys}
    uval = {k: z3.Const(f"stored_value[{k}]", PV) for k in keys}
    return f, named, keys, passed, arg, up, uval


def _run(p, f, named, keys, passed, arg, up, uval):
    upo = PDict()
    for k in keys:
        upo.set(k, SV(uval[k]), up[k])
    net = netmodel.Net({"user_pf_options": upo, "_options": PDict()})
    call_kw = PDict()
    for k in keys:
        call_kw.set(k, SV(arg[k]), passed[k])
    # precondition: recycle is not used (the recycling shortcut is C12's subject), run_control is off
    out = p.call(f, net, run_control=False, __symkw__=call_kw)
    return net, out


def _result_terms(p, out, keys):
    """canonical description of the observable result on this path: dict label -> z3 term"""
    res = {}
    if out.raised:
        res["exit"] = z3.StringVal("raise " + out.exc_name())
        return res
    opts = p.ctx.ghost.get("options_at_pf")
    if opts is None:
        raise EngineError("runpp returned without reaching _powerflow on a path of the contract's scope")
    res["exit"] = z3.StringVal("return")
    for k, (pres, v) in opts.e.items():
        res[f"has[{k}]"] = z3.BoolVal(pres) if isinstance(pres, bool) else pres
        res[f"val[{k}]"] = to_pv(v)
    return res


def run(vc):
    vc.configure = configure
    vc.trust("CPython call binding: local = passed ? actual : default (modelled explicitly)",
             "inspect.getfullargspec(runpp) returns the signature in the source text",
             "_check_lightsim2grid_compatibility / _check_if_numba_is_installed / _check_tdpf_parameters: "
             "assumed pure functions of their arguments and the element tables (summaries)",
             "_powerflow reads net._options as they are on entry (observation point)")
    vc.assume_std("A-PURE", "A-INT")
    paths = []

    def harness(p):
        f, named, keys, passed, arg, up, uval = _scenario(p)
        net, out = _run(p, f, named, keys, passed, arg, up, uval)
        dflt = {k: to_pv(v) for k, v in p.it.defaults(f).items()}
        paths.append(dict(index=p.index, hyps=p.ctx.hyps(), res=_result_terms(p, out, keys), keys=keys, defaults=dflt,
                          passed=passed, arg=arg, up=up, uval=uval, path=p, fns=list(p.functions)))
        p.cover("path-reachable", True)

    vc.explore("runpp", harness, max_paths=300)
    if not paths:
        return
    keys = paths[0]["keys"]
    passed, up, uval = paths[0]["passed"], paths[0]["up"], paths[0]["uval"]
    from pyvc.vc import Obligation

    # (A) non-interference of the stored entry for k when k is passed
    for k, sk in [(k, k) for k in keys] + [(k, a) for k, a in ALIAS.items() if k in keys and a in keys]:
        fresh_up = z3.Bool(f"stored'[{sk}]")
        fresh_val = z3.Const(f"stored_value'[{sk}]", PV)
        sub = [(up[sk], fresh_up), (uval[sk], fresh_val)]
        for pj in paths:
            hyps_j = [z3.substitute(h, *sub) for h in pj["hyps"]]
            res_j = {lab: z3.substitute(t, *sub) for lab, t in pj["res"].items()}
            if all(z3.eq(h1, h2) for h1, h2 in zip(pj["hyps"], hyps_j)) and all(z3.eq(pj["res"][l], res_j[l]) for l in res_j):
                # the stored entry of k occurs nowhere on path j: R_j(S') = R_j(S), and distinct paths are disjoint
                continue
            for pi in paths:
                hyps = list(pi["hyps"]) + hyps_j + [passed[k]]
                # a pair of paths that no two runs can take together needs no obligation (and would be proved from contradictory hypotheses)
                sol = z3.Solver()
                sol.set("timeout", 2000)
                sol.add(*hyps)
                if sol.check() == z3.unsat:
                    vc.extra["path_pairs_that_cannot_occur_together"] = vc.extra.get("path_pairs_that_cannot_occur_together", 0) + 1
                    continue
                labels = sorted(set(pi["res"]) | set(res_j))
                conj = []
                for lab in labels:
                    if lab not in pi["res"] or lab not in res_j:
                        # a key of _options present on one path only
                        a = pi["res"].get(lab, None)
                        b = res_j.get(lab, None)
                        if lab.startswith("has["):
                            conj.append((a if a is not None else z3.BoolVal(False)) == (b if b is not None else z3.BoolVal(False)))
                        continue
                    conj.append(pi["res"][lab] == res_j[lab])
                # values only matter where the key is present
                goal_parts = []
                for lab in labels:
                    if lab.startswith("val["):
                        kk = lab[4:-1]
                        has_i = pi["res"].get(f"has[{kk}]", z3.BoolVal(False))
                        if lab in pi["res"] and lab in res_j:
                            goal_parts.append(z3.Implies(has_i, pi["res"][lab] == res_j[lab]))
                    elif lab.startswith("has["):
                        a = pi["res"].get(lab, z3.BoolVal(False))
                        b = res_j.get(lab, z3.BoolVal(False))
                        goal_parts.append(a == b)
                    else:
                        goal_parts.append(pi["res"][lab] == res_j[lab])
                goal = z3.And(*goal_parts)
                lab_k = k if sk == k else f"{k}->stored {sk}"
                ob = Obligation(f"{PROP}/runpp/passed-overrides-stored[{lab_k}]@p{pi['index']}xp{pj['index']}", PROP, "ensures",
                                hyps, goal, pi["fns"], pi["index"],
                                note=f"explicitly passed '{k}': result independent of user_pf_options['{sk}']",
                                watch={"arg": paths[0]["arg"][k], "stored": uval[sk], "stored_alt": fresh_val,
                                       "stored_present": up[sk], "stored_alt_present": fresh_up},
                                meta=dict(label=f"passed-overrides-stored[{lab_k}]", harness="runpp", key=k, stored_key=sk,
                                          defaults=paths[0]["defaults"]))
                vc.obligations.append(ob)
    # cover: a stored option does take effect when the argument is not passed
    for k in keys:
        conds = []
        for pi in paths:
            if f"val[{k}]" in pi["res"]:
                conds.append(z3.And(*pi["hyps"], z3.Not(passed[k]), up[k], pi["res"][f"has[{k}]"],
                                    pi["res"][f"val[{k}]"] == uval[k], uval[k] != paths[0]["arg"][k]))
        if conds:
            vc.obligations.append(Obligation(f"{PROP}/runpp/cover:stored-applies[{k}]", PROP, "cover", [], z3.Or(*conds),
                                             paths[0]["fns"], 0, meta=dict(label=f"stored-applies[{k}]", harness="runpp")))


# ------------------------------------------------------------------------------------------------
# known findings, classification and replay
# ------------------------------------------------------------------------------------------------
MIN_OBLIGATIONS = 200
NOT_DECIDED = ["not decided: runpp(run_control=True) (arguments are forwarded through run_control, binding information is lost)",
               "not decided: recycle= shortcut (C12)", "not decided: rundcpp/runopp option paths"]


def _defaults(ob):
    return ob.meta.get("defaults", {})


def _excl_arg_equals_default(ob):
    """inputs of the known finding: the explicitly passed value equals (Python ==) the signature default"""
    from pyvc.values import pv_eq
    k = ob.meta.get("key")
    d = ob.meta.get("defaults", {})
    if k is None or k not in d:
        return None
    return pv_eq(z3.Const(f"arg[{k}]", PV), d[k])


KNOWN_EXCLUSIONS = {"C34/passed-value-equals-default": _excl_arg_equals_default}

# well-formed alternative values per option, used to concretise counter-models for the native replay
ALT = {"algorithm": "bfsw", "calculate_voltage_angles": False, "init": "flat", "max_iteration": 17, "tolerance_mva": 1e-6,
       "trafo_model": "pi", "trafo_loading": "power", "enforce_q_lims": True, "check_connectivity": False,
       "voltage_depend_loads": False, "consider_line_temperature": True, "distributed_slack": True, "tdpf": False,
       "tdpf_delay_s": None, "trafo3w_losses": "star", "v_debug": True, "delta_q": 1e-3, "switch_rx_ratio": 3,
       "numba": False, "neglect_open_switch_branches": True, "only_v_results": True, "use_umfpack": False,
       "permc_spec": "NATURAL", "lightsim2grid": False, "tdpf_update_r_theta": False, "delta": 25., "zz_generic_option": 42}


def _decode(v):
    """PV model value (string form) -> python literal or None if not decodable"""
    import re
    if not isinstance(v, str):
        return v, True
    from pyvc.values import interned_name
    if v == "none":
        return None, True
    m = re.fullmatch(r"b\((True|False)\)", v)
    if m:
        return m.group(1) == "True", True
    m = re.fullmatch(r"i\((-?\d+)\)", v)
    if m:
        return int(m.group(1)), True
    m = re.fullmatch(r"s\((\d+)\)", v)
    if m:
        nm = interned_name(int(m.group(1)))
        return nm, nm is not None
    m = re.fullmatch(r"r\((-?[\d./]+)\)", v)
    if m:
        try:
            from fractions import Fraction
            return float(Fraction(m.group(1))), True
        except Exception:
            pass
    return None, False


def classify(ob, model):
    return "passed-overrides-stored"


def replay(ob, model, finding=None):
    k = ob.meta.get("key")
    if k is None:
        return None
    arg, ok = _decode(model.get("@arg"))
    import inspect
    script = f'''# replay of {ob.id}
# scenario: net.user_pf_options stores {k!r}; runpp is called with {k!r} passed explicitly.
# oracle (property C34): the options the power flow runs with must not depend on the stored entry.
import sys, copy
import pandapower as pp
import pandapower.networks as nw
from pandapower.run import runpp, set_user_pf_options
import inspect

key = {k!r}
stored_key = {ob.meta.get("stored_key", k)!r}     # the name under which the option of this argument is stored
sig = inspect.signature(runpp)
default = sig.parameters[key].default if key in sig.parameters else None
model_arg, model_arg_ok = {arg!r}, {ok!r}
alts = {ALT!r}
candidates = []
if model_arg_ok:
    candidates.append(model_arg)
if key in sig.parameters:
    candidates.append(default)
candidates.append(alts.get(key))
stored_candidates = [alts.get(stored_key), default, 123]

def options_after(passed_value, stored, with_store):
    net = nw.example_simple()
    if with_store:
        set_user_pf_options(net, **{{stored_key: stored}})
    try:
        runpp(net, **{{key: passed_value}})
        return ("return", dict(net._options))
    except Exception as e:
        # the way runpp terminates is part of the observable result
        return ("raise " + type(e).__name__, dict(getattr(net, "_options", {{}})))

def same(a, b):
    if a[0] != b[0]:
        return False
    if a[0] != "return":
        return True
    ka, kb = a[1], b[1]
    if set(ka) != set(kb):
        return False
    for x in ka:
        va, vb = ka[x], kb[x]
        try:
            if not (va == vb or (va != va and vb != vb)):
                return False
        except Exception:
            if repr(va) != repr(vb):
                return False
    return True

for pv in candidates:
    for sv in stored_candidates:
        try:
            if sv == pv:
                continue
        except Exception:
            pass
        a = options_after(pv, sv, True)
        b = options_after(pv, sv, False)
        if not same(a, b):
            diff = {{x: (a[1].get(x), b[1].get(x)) for x in set(a[1]) | set(b[1]) if a[1].get(x) != b[1].get(x)}}
            print("VIOLATION REPRODUCED: runpp(net, %s=%r) with user_pf_options[%r]=%r" % (key, pv, stored_key, sv))
            print("  exit with stored option: %s ; without: %s ; differing options: %r" % (a[0], b[0], diff))
            sys.exit(1)
print("not reproduced for key", key)
sys.exit(0)
'''
    return {"script": script,
            "description": f"runpp(net, {k}=<value>) with user_pf_options[{k!r}] set vs. unset: net._options must agree"}
