"""C07 -- unsupplied parts are reported as unsupplied: in-service selection and result marking.

Functions under contract (real text): pandapower.auxiliary:_python_set_elements_oos, _python_set_isolated_buses_oos (the loops behind
_select_is_elements_numba), pandapower.results_bus:_set_buses_out_of_service.

  * an element counts as in service iff its own in_service flag is set and its bus is in service (loop over all elements, generic row);
  * a bus found isolated by the connectivity check (through its ppc bus) is taken out of service, all other flags are unchanged;
  * buses of type NONE in the ppc get NaN voltage magnitude / angle and zero load, no other bus is touched;
  * (shared with C16 / C04) elements that are not in service report zero power (write_pq_results_to_element).
The graph search itself (scipy csgraph) and the re-routing of lines at out-of-service buses are only a bounded stand-in (native power
flows against topology.unsupplied_buses on fixed networks), labelled bounded.
"""
from __future__ import annotations

import z3

from pyvc.values import SV, CV, XV, PV, B, I, R, EngineError, to_z, real, Opaque
from pyvc.containers import PDict
from pyvc.arrays import Table, Mat, Space, Arr, subst, truth_z
from pyvc.vc import consts
from pyvc import netmodel
from contracts import ppcmodel as pm

PROP = "C07"
MIN_OBLIGATIONS = 8
AUX = "pandapower.auxiliary"
NOT_DECIDED = ["not decided deductively: _check_connectivity (adjacency matrix + scipy breadth first search), _branches_with_oos_buses (label / "
               "position staging arrays outside the array model), equality with topology.unsupplied_buses -- bounded native stand-in only"]


def configure(it):
    pm.configure(it)
    it.generic_loops = True


def run(vc):
    vc.configure = configure
    vc.trust("numba jit compiles the Python text of the two loops (A-NUMBA)")
    vc.assume_std("A-GENERIC", "A-NUMBA")

    def h_el(p):
        sp, bsp = Space.get("element"), Space.get("busidx")
        ti = Arr(sp, SV(z3.Function("el.bus", I, I)(sp.i)))
        tis = Arr(sp, SV(z3.Function("el.in_service", I, B)(sp.i)))
        bis = Arr(bsp, SV(z3.Function("bus_in_service", I, B)(bsp.i)))
        lis = Arr(sp, False)
        out = p.call(f"{AUX}:_python_set_elements_oos", ti, tis, bis, lis)
        if out.raised:
            raise EngineError(f"_python_set_elements_oos raised {out.exc!r}")
        want = z3.And(to_z(tis.e), z3.Function("bus_in_service", I, B)(to_z(ti.e, I)))
        got = truth_z(lis.e) if not isinstance(lis.e, bool) else z3.BoolVal(lis.e)
        p.prove("elements:in-service-iff-own-flag-and-bus", got == want, meta=dict(part="select"),
                note="element in service <=> element.in_service and its bus in service")
    vc.explore("_python_set_elements_oos", h_el, max_paths=20)

    def h_bus(p):
        sp, psp = Space.get("busidx"), Space.get("ppcbus")
        bis = Arr(sp, SV(z3.Function("bus_in_service", I, B)(sp.i)))
        iso = Arr(psp, SV(z3.Function("ppc_bus_isolated", I, B)(psp.i)))
        lk = Arr(sp, SV(z3.Function("bus_lookup", I, I)(sp.i)))
        out = p.call(f"{AUX}:_python_set_isolated_buses_oos", bis, iso, lk)
        if out.raised:
            raise EngineError(f"_python_set_isolated_buses_oos raised {out.exc!r}")
        isolated = z3.Function("ppc_bus_isolated", I, B)(to_z(lk.e, I))
        want = z3.And(z3.Function("bus_in_service", I, B)(sp.i), z3.Not(isolated))
        p.prove("buses:isolated-buses-out-of-service", truth_z(bis.e) == want, meta=dict(part="select"),
                note="bus stays in service <=> it was in service and its ppc bus is not isolated")
    vc.explore("_python_set_isolated_buses_oos", h_bus, max_paths=20)

    def h_res(p):
        iu = consts("pandapower.pypower.idx_bus")
        bus = pm.bus_mat()
        for col in (iu.BUS_TYPE, iu.VM, iu.VA, iu.PD, iu.QD):
            pm.colfun(bus, "all", col, R)
        out = p.call("pandapower.results_bus:_set_buses_out_of_service", PDict({"bus": bus}))
        if out.raised:
            raise EngineError(f"_set_buses_out_of_service raised {out.exc!r}")
        sp = bus.segments["all"]
        none = z3.Function(f"ppcbus[all,{iu.BUS_TYPE}]", I, R)(sp.i) == iu.NONE
        for col, nm, val in ((iu.VM, "VM", None), (iu.VA, "VA", None), (iu.PD, "PD", 0), (iu.QD, "QD", 0)):
            e = bus.get("all", col)
            old = z3.Function(f"ppcbus[all,{col}]", I, R)(sp.i)
            if val is None:
                isnan = e.nan if isinstance(e, XV) else z3.BoolVal(False)
                v = to_z(e.v if isinstance(e, XV) else e, R)
                p.prove(f"results:{nm}-nan-exactly-for-disconnected-buses", z3.And(isnan == none, z3.Implies(z3.Not(none), v == old)), meta=dict(part="results"),
                        note="NaN voltage <=> the bus is not part of the solved network; other buses keep their value")
            else:
                p.prove(f"results:{nm}-zero-for-disconnected-buses", to_z(e, R) == z3.If(none, z3.RealVal(val), old), meta=dict(part="results"))
        p.prove("results:frame", {c for _, c in bus.written} <= {iu.VM, iu.VA, iu.PD, iu.QD}, meta=dict(part="results"))
    vc.explore("_set_buses_out_of_service", h_res, max_paths=20)

    if not hasattr(vc, "native_standins"):
        vc.native_standins = []
    vc.native_standins.append(dict(
        name="NaN results against topology.unsupplied_buses on fixed networks",
        bound="4 fixed networks (feeder with out-of-service bus and an out-of-service spare line created first; island behind an open switch; "
              "island behind an out-of-service line; out-of-service ext_grid with a second slack gen): buses with NaN voltage == unsupplied or "
              "out-of-service buses, loads there report zero, all other buses finite",
        script="from replaylib.supplied import main\nmain()\n"))
    vc.native_standins.append(dict(
        name="dead buses: supply only through an out-of-service bus, voltage dependent loads, out-of-service ext_grid",
        bound="3 fixed networks: a part of the network connected only through an out-of-service bus (rundcpp and runpp: that part is NaN, the "
              "rest finite); voltage dependent loads in a net with loads at an unsupplied and at an out-of-service bus (zero power there); an "
              "out-of-service ext_grid next to a slack gen (reports zero) -- _check_connectivity (graph search) is not under a deductive contract",
        script="from replaylib.supplied import main_more\nmain_more()\n"))


def classify(ob, model):
    return ob.meta.get("part", "")


def replay(ob, model, finding=None):
    return {"script": f"# replay of {ob.id}\nfrom replaylib.supplied import main\nmain()\n",
            "description": "NaN voltage results against topology.unsupplied_buses / out-of-service buses on fixed networks"}
