"""C14 -- contingency analysis reports the true extremes over all N-1 cases.

Functions under contract: pandapower.contingency.contingency:_update_contingency_results (the fold step),
run_contingency (loop, try/except/finally, N-0 evaluation).

The statement is a fold over the N-1 cases; it is decided by the step contract (every case applies the same step):
for every result variable (bus vm_pu; line/trafo/trafo3w loading_percent) and a generic row j, with
  valid_j  :=  in_service_j  and  not isnan(val_j)          (the row's own outage has in_service_j = False)
  * max'_j = valid_j ? fmax(val_j, max_j) : max_j          min'_j dually                 (extended reals, NaN = "none yet")
  * invariant "cause names an outage that produces the reported maximum" is preserved:
        not isnan(max'_j)  =>  (max'_j == val_j and cause'_j == this case)  or  (max'_j == max_j and cause'_j == cause_j)
    and the cause of a row is never the row's own outage because of this step
  * causes_overloading'[c] for the outaged element c  ==  old or (exists j: val_j > limit_j);  other rows unchanged
  * N-0: contingency_results[element][var] = res_element[var]
run_contingency: in_service flags are restored on every exit (normal, failing case swallowed, failing case re-raised);
a failing case leaves the accumulators untouched.
"""
from __future__ import annotations

import z3

from pyvc import netmodel, lib_np
from pyvc.values import SV, XV, PV, B, I, R, EngineError, to_z, real, arith, compare, logic, ite, to_pv, _flag_z
from pyvc.containers import PDict
from pyvc.arrays import Table, Space, Arr
from pyvc.interp import Native, PyRaise, ObjVal

PROP = "C14"
CT = "pandapower.contingency.contingency"
MIN_OBLIGATIONS = 30
NOT_DECIDED = ["not decided: the N-1 power flows themselves (contingency_evaluation_function is any function with the C08 frame)",
               "not decided: run_contingency_ls2g (lightsim2grid back end)"]


def configure(it):
    netmodel.install(it)
    lib_np.install(it)


def _xcol(t, name):
    f = z3.Function(f"{t.name}.{name}", I, R)
    n = z3.Function(f"{t.name}.{name}.isnan", I, B)
    e = XV(SV(f(t.space.i)), n(t.space.i))
    t.cols[name] = e
    return e


def _mk_net(first, elements=("line", "trafo"), no_limit=()):
    """net + contingency_results in the state before a step; `first`: no accumulator exists yet"""
    fields = {}
    cr = PDict()
    st = {}
    bus = Table("bus"); res_bus = Table("res_bus", space=bus.space, index=bus.index_e)
    bus.add_col("in_service", B)
    _xcol(res_bus, "vm_pu")
    fields["bus"], fields["res_bus"] = bus, res_bus
    d = PDict({"index": Arr(bus.space, bus.index_e)})
    if not first:
        for mm in ("max", "min"):
            d.set(f"{mm}_vm_pu", Arr(bus.space, XV(SV(z3.Function(f"acc.bus.{mm}_vm_pu", I, R)(bus.space.i)),
                                                   z3.Function(f"acc.bus.{mm}_vm_pu.isnan", I, B)(bus.space.i))))
    cr.set("bus", d)
    for el in elements:
        t = Table(el); rt = Table(f"res_{el}", space=t.space, index=t.index_e)
        t.add_col("in_service", B)
        if el not in no_limit:
            t.add_col("max_loading_percent", R)     # the limit is an optional column of the element tables
        _xcol(rt, "loading_percent")
        fields[el], fields[f"res_{el}"] = t, rt
        d = PDict({"index": Arr(t.space, t.index_e),
                   "causes_overloading": Arr(t.space, SV(z3.Function(f"acc.{el}.causes_overloading", I, B)(t.space.i))),
                   "cause_element": Arr(t.space, SV(z3.Function(f"acc.{el}.cause_element", I, PV)(t.space.i))),
                   "cause_index": Arr(t.space, SV(z3.Function(f"acc.{el}.cause_index", I, I)(t.space.i)))})
        if not first:
            for mm in ("max", "min"):
                d.set(f"{mm}_loading_percent", Arr(t.space, XV(SV(z3.Function(f"acc.{el}.{mm}_loading_percent", I, R)(t.space.i)),
                                                                z3.Function(f"acc.{el}.{mm}_loading_percent.isnan", I, B)(t.space.i))))
        cr.set(el, d)
    net = netmodel.Net(fields, strict=True)
    return net, cr


def _snapshot(cr):
    snap = {}
    for el in cr.e:
        d = cr.raw(el)
        snap[el] = {k: (d.raw(k).e if isinstance(d.raw(k), Arr) else d.raw(k)) for k in d.e}
    return snap


def _xv(x):
    return XV.of(x)


def _eq_x(a, b):
    """equality of extended reals as values: both NaN, or both numbers and equal"""
    a, b = _xv(a), _xv(b)
    an, bn = _flag_z(a.nan), _flag_z(b.nan)
    return z3.Or(z3.And(an, bn), z3.And(z3.Not(an), z3.Not(bn), to_z(a.v, R) == to_z(b.v, R)))


def run(vc):
    vc.configure = configure
    vc.trust("numpy: fmax/fmin ignore NaN, `out=`/`where=` update only the selected cells, comparisons with NaN are False, "
             "boolean-mask stores (A-NUMPY); pandas .loc[labels, col] gathers by label (A-PANDAS)",
             "np.any(mask) is true iff some row satisfies the mask (generic-row abstraction, DESIGN 2.3)")
    vc.assume_std("A-REAL (extended by NaN)", "A-GENERIC", "A-NUMPY", "A-PANDAS")
    rv = PDict({"bus": ["vm_pu"], "line": ["loading_percent"], "trafo": ["loading_percent"]})

    for first in (True, False):
        for cause_element in ("line", "trafo"):
            vc.explore(f"_update_contingency_results[{'first' if first else 'later'},{cause_element}]",
                       lambda p, first=first, cause_element=cause_element: step_harness(p, f"{CT}:_update_contingency_results", rv, first, cause_element, False),
                       max_paths=200)

    for first in (True, False):
        vc.explore(f"_update_contingency_results[{'first' if first else 'later'},line,trafo without limit column]",
                   lambda p, first=first: step_harness(p, f"{CT}:_update_contingency_results", rv, first, "line", False, no_limit=("trafo",)),
                   max_paths=200)

    # causes_overloading is set only when some branch is overloaded: on the paths where no any(...) fired the flag is unchanged
    def h_only(p):
        net, cr = _mk_net(False)
        for nm in ("bus", "line", "trafo"):
            net.fields.raw(nm).label_axiom(p.it)
        old = _snapshot(cr)
        out = p.call(f"{CT}:_update_contingency_results", net, cr, rv, True, cause_element="line", cause_index=SV(z3.Int("cause_index")))
        anys = [(tg, ch) for tg, ch in p.ctx.trace if tg.startswith("if@")]
        fired = [z for z in p.ctx.pc if "any[" in z.sexpr() and not z3.is_not(z)]
        over_fired = any("any[" in z.sexpr() and not z3.is_not(z) for z in p.ctx.pc)
        co_new, co_old = to_z(cr.raw("line").raw("causes_overloading").e), to_z(old["line"]["causes_overloading"])
        written = [w for w in p.ctx.ghost.get("stores", [])]
        # the flag changes only on paths on which an overloading any(...) was true
        p.prove("causes-overloading:only-when-overloaded", z3.Implies(co_new != co_old, z3.BoolVal(over_fired)),
                note="without an overloaded branch in this case the flag is not touched", meta=dict(clause="overloading"))
    vc.explore("_update_contingency_results[only-when]", h_only, max_paths=200)

    # N-0
    def h0(p):
        net, cr = _mk_net(False)
        out = p.call(f"{CT}:_update_contingency_results", net, cr, rv, False)
        if out.raised:
            raise EngineError("raised")
        for el, var in (("bus", "vm_pu"), ("line", "loading_percent"), ("trafo", "loading_percent")):
            got = cr.raw(el).raw(var)
            p.prove(f"n0[{el}]", _eq_x(got.e, net.fields.raw(f"res_{el}").cols[var]), note="N-0 values are the plain power flow results",
                    meta=dict(clause="n0"))
    vc.explore("_update_contingency_results[n0]", h0)

    # run_contingency: in_service flags restored on every exit; failing cases leave the accumulators alone
    for raise_errors in (False, True):
        def hr(p, raise_errors=raise_errors):
            p.fn(f"{CT}:run_contingency")
            net, _ = _mk_net(True, elements=("line", "trafo", "trafo3w"))
            for nm in ("bus", "line", "trafo", "trafo3w"):
                t = net.fields.raw(nm)
                t.label_axiom(p.it)
                p.assume(t.space.n > 0)
            net.fields.set("user_pf_options", PDict())
            net.fields.set("_options", PDict())
            old_ins = {nm: net.fields.raw(nm).cols["in_service"] for nm in ("line", "trafo")}
            updates = []

            def evaluate(it, n, **kw):
                if it.truth(SV(z3.Bool(f"pf_fails#{len(updates)}_{evaluate.calls}")), tag="power flow fails"):
                    evaluate.calls += 1
                    raise PyRaise(RuntimeError("power flow did not converge"))
                evaluate.calls += 1
            evaluate.calls = 0

            def upd(it, n, cres, rvars, nminus1, cause_element=None, cause_index=None):
                updates.append((cause_element, cause_index))
            p.it.summaries[f"{CT}:_update_contingency_results"] = upd
            i1, i2 = SV(z3.Int("case1")), SV(z3.Int("case2"))
            cases = PDict({"line": PDict({"index": [i1, i2]}), "trafo": PDict({"index": [SV(z3.Int("case3"))]})})
            out = p.call(f"{CT}:run_contingency", net, cases, pf_options=PDict(), pf_options_nminus1=PDict(), write_to_net=False,
                         contingency_evaluation_function=Native(evaluate, pure=False, name="evaluate"), raise_errors=raise_errors)
            for nm in ("line", "trafo"):
                now = net.fields.raw(nm).cols["in_service"]
                p.prove(f"in_service-restored[{nm},raise_errors={raise_errors},{'raised' if out.raised else 'returned'}]",
                        to_z(now) == to_z(old_ins[nm]),
                        note="every in_service flag has its original value when run_contingency exits (normally or by an exception)",
                        meta=dict(clause="restore", raise_errors=raise_errors, raised=out.raised))
            p.cover(f"run[{raise_errors},{out.raised}]", True)
        vc.explore(f"run_contingency[raise_errors={raise_errors}]", hr, max_paths=400)
    _run_writeback(vc)
    if not hasattr(vc, "native_standins"):
        vc.native_standins = []
    vc.native_standins.append(dict(
        name="run_contingency against a brute-force recomputation on fixed networks",
        bound="case9, case14 (with and without a loading limit of the transformers), a ring with a parallel line, double circuits with an "
              "unsorted line index; three case orders each; returned dict and result tables; a second analysis started from the results "
              "of the first (tables kept)",
        script="from replaylib.contingency import main, main_tables\nimport sys\n"
               "from replaylib import run_all\nrun_all(main, main_tables)\n",
        timeout=1500))


def step_harness(p, fn_key, rv, first, cause_element, parallel, no_limit=()):
    net, cr = _mk_net(first, no_limit=no_limit)
    for nm in ("bus", "line", "trafo"):
        net.fields.raw(nm).label_axiom(p.it)
    old = _snapshot(cr)
    c_idx = SV(z3.Int("cause_index"))
    for el in ("line", "trafo"):
        # loading_percent is a magnitude ratio: never negative
        lv = _xv(net.fields.raw(f"res_{el}").cols["loading_percent"])
        p.assume(z3.Or(_flag_z(lv.nan), to_z(lv.v, R) >= 0))
        # the row of the outaged element is out of service while its case is evaluated (run_contingency)
        if el == cause_element:
            t = net.fields.raw(el)
            p.assume(z3.Implies(to_z(t.index_e, I) == c_idx.z, z3.Not(to_z(t.cols["in_service"]))))
    extra = {}
    if parallel:
        extra["parallel_results"] = PDict({el: PDict({var: Arr(net.fields.raw(f"res_{el}").space, net.fields.raw(f"res_{el}").cols[var])})
                                           for el, var in (("bus", "vm_pu"), ("line", "loading_percent"), ("trafo", "loading_percent"))})
    out = p.call(fn_key, net, cr, rv, True, cause_element=cause_element, cause_index=c_idx, **extra)
    tag = f"{'first' if first else 'later'},cause={cause_element}" + (f",no limit column in {'/'.join(no_limit)}" if no_limit else "")
    if no_limit:
        p.prove(f"step-completes[{tag}]", not out.raised,
                note="the loading limit is optional: without the column the case is evaluated like any other (nothing can be overloaded)",
                meta=dict(clause="no-limit", first=first))
        if out.raised:
            return
    if out.raised:
        raise EngineError(f"{fn_key} raised {out.exc!r}")
    for el, var in (("bus", "vm_pu"), ("line", "loading_percent"), ("trafo", "loading_percent")):
        t, rt = net.fields.raw(el), net.fields.raw(f"res_{el}")
        val = _xv(rt.cols[var])
        ins = to_z(t.cols["in_service"])
        own = z3.And(z3.BoolVal(el == cause_element), to_z(t.index_e, I) == c_idx.z)
        valid = z3.And(ins, z3.Not(own), z3.Not(_flag_z(val.nan)))
        d = cr.raw(el)
        for mm, better in (("max", ">="), ("min", "<=")):
            key = f"{mm}_{var}"
            if d.presence(key) is not True:
                raise EngineError(f"accumulator {key} missing after the step")
            new = _xv(d.raw(key).e)
            o = _xv(old[el][key]) if key in old[el] else XV(0, True)
            on = _flag_z(o.nan)
            pick = ite(SV(on), val.v, ite(compare(better, val.v, o.v), val.v, o.v))
            spec = XV(ite(SV(valid), pick, o.v), z3.If(valid, z3.BoolVal(False), on))
            p.prove(f"{mm}-update[{el},{tag}]", _eq_x(new, spec),
                    note=f"{key}: extreme over the valid cases so far (own outage and NaN results excluded)",
                    watch={"val": to_z(val.v, R), "val_nan": _flag_z(val.nan), "in_service": ins, "old": to_z(o.v, R), "old_nan": on},
                    meta=dict(el=el, clause=mm, first=first))
        if el == "bus":
            continue
        # cause attribution
        newmax = _xv(d.raw(f"max_{var}").e)
        omax = _xv(old[el][f"max_{var}"]) if f"max_{var}" in old[el] else XV(0, True)
        ce_new, ci_new = to_z(d.raw("cause_element").e, PV), to_z(d.raw("cause_index").e, I)
        ce_old, ci_old = to_z(old[el]["cause_element"], PV), to_z(old[el]["cause_index"], I)
        this = z3.And(ce_new == to_pv(cause_element), ci_new == c_idx.z)
        kept = z3.And(ce_new == ce_old, ci_new == ci_old)
        nm_nan = _flag_z(newmax.nan)
        from_this = z3.And(valid, z3.Not(nm_nan), to_z(newmax.v, R) == to_z(val.v, R), this)
        from_old = z3.And(z3.Not(_flag_z(omax.nan)), to_z(newmax.v, R) == to_z(omax.v, R), kept)
        p.prove(f"cause-produces-max[{el},{tag}]", z3.Implies(z3.Not(nm_nan), z3.Or(from_this, from_old)),
                note="cause_element/cause_index name a case whose value is the reported maximum (invariant preserved by the step)",
                watch={"val": to_z(val.v, R), "val_nan": _flag_z(val.nan), "in_service": ins, "oldmax": to_z(omax.v, R),
                       "oldmax_nan": _flag_z(omax.nan), "cause_index": c_idx.z},
                meta=dict(el=el, clause="cause", first=first, cause_element=cause_element))
        p.prove(f"cause-unchanged-without-new-max[{el},{tag}]",
                z3.Implies(z3.Not(z3.And(valid, z3.Or(_flag_z(omax.nan), to_z(val.v, R) > to_z(omax.v, R)))), kept),
                note="a case that does not raise the maximum of a row (in particular the row's own outage) does not become its cause",
                watch={"val": to_z(val.v, R), "val_nan": _flag_z(val.nan), "in_service": ins, "oldmax": to_z(omax.v, R),
                       "oldmax_nan": _flag_z(omax.nan)},
                meta=dict(el=el, clause="cause", first=first, cause_element=cause_element))
    # causes_overloading of the outaged element
    ct = net.fields.raw(cause_element)
    d = cr.raw(cause_element)
    co_new, co_old = to_z(d.raw("causes_overloading").e), to_z(old[cause_element]["causes_overloading"])
    is_c = to_z(ct.index_e, I) == c_idx.z
    p.prove(f"causes-overloading:others-unchanged[{tag}]", z3.Implies(z3.Not(is_c), co_new == co_old),
            meta=dict(clause="overloading"))
    over_generic = []
    for el in ("line", "trafo"):
        t, rt = net.fields.raw(el), net.fields.raw(f"res_{el}")
        val = _xv(rt.cols["loading_percent"])
        over_generic.append(z3.And(z3.Not(_flag_z(val.nan)), to_z(val.v, R) > to_z(t.cols["max_loading_percent"], R))
                            if "max_loading_percent" in t.cols else z3.BoolVal(False))
    # set => generic direction: if some branch row is overloaded in this case the flag of the outaged element is set
    for k, el in enumerate(("line", "trafo")):
        p.prove(f"causes-overloading:set-when-overloaded[{el},{tag}]", z3.Implies(z3.And(is_c, over_generic[k]), co_new),
                note="an outage that overloads a branch is flagged", meta=dict(clause="overloading"))
    p.cover(f"step[{tag}]", True)


def _run_writeback(vc):
    """what run_contingency writes to the result tables is what it returns -- also when the tables already carry the columns of an
    earlier analysis (they are kept when the calculation starts from the previous results)"""
    for stale in (False, True):
        def hw(p, stale=stale):
            p.fn(f"{CT}:run_contingency")
            net, _ = _mk_net(True, elements=("line", "trafo", "trafo3w"))
            for nm in ("bus", "line", "trafo", "trafo3w"):
                t = net.fields.raw(nm)
                t.label_axiom(p.it)
                p.assume(t.space.n > 0)
            net.fields.set("user_pf_options", PDict())
            net.fields.set("_options", PDict())
            acc = {"bus": ["max_vm_pu", "min_vm_pu"], "line": ["max_loading_percent", "min_loading_percent"],
                   "trafo": ["max_loading_percent", "min_loading_percent"], "trafo3w": ["max_loading_percent", "min_loading_percent"]}
            if stale:
                for el, keys in acc.items():
                    rt = net.fields.raw(f"res_{el}")
                    for k in keys:
                        _xcol(rt, k)
                    if el != "bus":
                        rt.add_col("causes_overloading", B)
                        rt.add_col("cause_index", I)

            def upd(it, n, cres, rvars, nminus1, cause_element=None, cause_index=None):
                for el, keys in acc.items():
                    t = net.fields.raw(el)
                    for k in keys:
                        cres.raw(el).set(k, Arr(t.space, XV(SV(z3.Function(f"new.{el}.{k}", I, R)(t.space.i)),
                                                           z3.Function(f"new.{el}.{k}.isnan", I, B)(t.space.i))))
                    var = "vm_pu" if el == "bus" else "loading_percent"
                    cres.raw(el).set(var, Arr(t.space, net.fields.raw(f"res_{el}").cols[var]))
            p.it.summaries[f"{CT}:_update_contingency_results"] = upd
            out = p.call(f"{CT}:run_contingency", net, PDict({}), pf_options=PDict(), pf_options_nminus1=PDict(), write_to_net=True,
                         contingency_evaluation_function=Native(lambda it, n, **kw: None, pure=False, name="evaluate"))
            if out.raised:
                raise EngineError(f"run_contingency raised {out.exc!r}")
            res = out.value
            for el, keys in acc.items():
                rt = net.fields.raw(f"res_{el}")
                d = res.raw(el)
                for k in keys + ([] if el == "bus" else ["causes_overloading", "cause_index"]):
                    ok = k in rt.cols
                    p.prove(f"written[{el}.{k},{'tables of an earlier analysis' if stale else 'fresh tables'}]:column exists", ok,
                            meta=dict(clause="tables"))
                    if not ok:
                        continue
                    want, got = d.raw(k).e, rt.cols[k]
                    same = _eq_x(_xv(got), _xv(want)) if isinstance(want, XV) or isinstance(got, XV) else to_z(got) == to_z(want)
                    p.prove(f"written[{el}.{k},{'tables of an earlier analysis' if stale else 'fresh tables'}]", same,
                            note="net.res_<element>[var] equals the returned contingency_results[element][var]", meta=dict(clause="tables"))
        vc.explore(f"run_contingency[write_to_net,{'stale' if stale else 'fresh'}]", hw, max_paths=50)


def classify(ob, model):
    return ob.meta.get("clause", ob.meta.get("label", ob.id).split("[")[0])


KNOWN_EXCLUSIONS = {}


def replay(ob, model, finding=None):
    clause = ob.meta.get("clause")
    script = f"""# replay of {ob.id}
# oracle (C14): run_contingency vs. an independent recomputation (one fresh power flow per N-1 case)
from replaylib.contingency import main
main(clause={clause!r})
"""
    return {"script": script, "description": "run_contingency on meshed test networks with several case orders vs. brute-force N-1 recomputation"}
