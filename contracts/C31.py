"""C31 -- tabular tap dependency uses each transformer's own table row.

Functions under contract: pandapower.build_branch:_calc_tap_from_dataframe (ratio / angle lookup, 2W table and the dict of
equivalent 2W transformers of the 3W transformers incl. the star-point loop), pandapower.build_branch:_get_vk_values_from_table
(vk / vkr lookup, 2W and 3W).

Pre (well-formed characteristic table): the pairs (id_characteristic, step) identify a row of net.trafo_characteristic_table;
the generic transformer t has tap_dependency_table, a tap changer type, and a row c0 with id(c0) == id_characteristic_table(t),
step(c0) == tap_pos(t) exists.
Post: vn on the tap side is vn * voltage_ratio(c0) (1/ratio at a star point), the angle of c0 is added with the sign of the side,
the other side is unchanged; vk, vkr are those of c0 -- for *every* population of the transformer table (generic row, any number of
other transformers, shared or distinct ids, any positions). The lookups go through a merge and a dict(zip(...)): the map theory
(pyvc.tabletheory) gives m.get(k) the value of *some* row with key k, so the postcondition requires all rows with the key of t to
carry the values of c0.
"""
from __future__ import annotations

import z3

from pyvc.values import SV, CV, XV, PV, B, I, R, EngineError, to_z, to_pv, real, arith, compare, ite, Opaque
from pyvc.containers import PDict
from pyvc.arrays import Table, Space, Arr, subst, truth_z
from pyvc import netmodel, tabletheory
from contracts import ppcmodel as pm

PROP = "C31"
MIN_OBLIGATIONS = 20
BB = "pandapower.build_branch"
NOT_DECIDED = ["not decided: create_trafo_characteristic_object / spline characteristics (control.util.auxiliary: scipy interpolation objects)",
               "not decided: that consumers of (vn_hv, vn_lv, shift, vk, vkr) treat table-derived and directly entered values alike is by "
               "construction (the values are the only channel); the consumers themselves are under contract in C02"]


def configure(it):
    pm.configure(it)
    it.generic_loops = True


TCT_COLS = ["voltage_ratio", "angle_deg", "vk_percent", "vkr_percent", "vk_hv_percent", "vkr_hv_percent", "vk_mv_percent", "vkr_mv_percent",
            "vk_lv_percent", "vkr_lv_percent"]


def _tct():
    t = pm.table("tct", dict({"id_characteristic": R, "step": R}, **{c: R for c in TCT_COLS}))
    return t


def _wellformed(p, tct):
    """(id, step) is a key of the characteristic table: row_of(id(c), step(c)) == c for the rows named in the proof"""
    rowof = z3.Function("tct.row_of", R, R, I)
    idf, stf = z3.Function("tct.id_characteristic", I, R), z3.Function("tct.step", I, R)

    def inst(cz):
        return z3.Implies(z3.And(cz >= 0, cz < tct.space.n), rowof(idf(cz), stf(cz)) == cz)
    return inst, idf, stf


def _trafo_cols(space_name, three=False, star=False):
    sp = Space.get(space_name)
    mk = lambda nm, sort: SV(z3.Function(f"{space_name}.{nm}", I, sort)(sp.i))
    mkx = lambda nm: XV(SV(z3.Function(f"{space_name}.{nm}", I, R)(sp.i)), z3.Function(f"{space_name}.{nm}.isnan", I, B)(sp.i))
    cols = {"vn_hv_kv": mk("vn_hv_kv", R), "vn_lv_kv": mk("vn_lv_kv", R), "shift_degree": mk("shift_degree", R),
            "tap_pos": mkx("tap_pos"), "tap_neutral": mkx("tap_neutral"), "tap_step_percent": mkx("tap_step_percent"),
            "tap_step_degree": mkx("tap_step_degree"), "tap_side": SV(z3.Function(f"{space_name}.tap_side", I, PV)(sp.i)),
            "tap_changer_type": SV(z3.Function(f"{space_name}.tap_changer_type", I, PV)(sp.i)),
            "tap_dependency_table": mk("tap_dependency_table", B), "id_characteristic_table": mkx("id_characteristic_table")}
    if star:
        cols["tap_at_star_point"] = mk("tap_at_star_point", B)
    return sp, cols


def _instantiate(p, inst_wf, tct, c0, t_z):
    """lemma instances: completeness of every join and of every map for the own row (c0, t), key uniqueness for the
    rows selected by the maps"""
    gh = p.it.ctx.ghost
    for js in gh.get("joins", []):
        p.assume(js.complete(c0, t_z))
    for m in gh.get("maps", []):
        for lk in m.lookups:
            if isinstance(m.space, tabletheory.JoinSpace):
                j0 = m.space.pair(c0, t_z)
                p.assume(m.complete(lk["key"], j0, lk["has"]))
                p.assume(inst_wf(m.space.left(lk["sel"])))
    p.assume(inst_wf(c0))


def _pre_own_row(p, cols, sp, tct, idf, stf):
    c0 = z3.Int("c0")
    idt, pos = cols["id_characteristic_table"], cols["tap_pos"]
    p.assume(z3.And(c0 >= 0, c0 < tct.space.n, sp.i >= 0, sp.i < sp.n))
    p.assume(z3.And(z3.Not(idt.nan), z3.Not(pos.nan)))
    p.assume(z3.And(idf(c0) == to_z(idt.v), stf(c0) == to_z(pos.v)))
    return c0


def _xeq(got, want):
    """got (possibly carrying a NaN flag) is the real number `want`"""
    if isinstance(got, XV):
        nan = got.nan if not isinstance(got.nan, bool) else z3.BoolVal(got.nan)
        return z3.And(z3.Not(nan), to_z(got.v, R) == to_z(want, R))
    return to_z(got, R) == to_z(want, R)


def _input_error(exc):
    """input validation errors about *some* row of the transformer table (the generic row is well-formed by precondition)"""
    msg = str(getattr(exc, "args", [""])[0]) if getattr(exc, "args", None) else str(exc)
    return type(exc).__name__ == "UserWarning" and ("id_characteristic_table NA" in msg or "Both tap_step_degree and tap_step_percent" in msg
                                                    or "tap_dependent_impedance has NaN" in msg)


def run(vc):
    vc.configure = configure
    vc.trust("pandas inner merge = set of pairs of rows with equal keys (pyvc.tabletheory); dict(zip(K, V)).get(k) returns the value of some "
             "row with key k; boolean-mask compression keeps the row order (A-NUMPY)",
             "(id_characteristic, step) is a key of net.trafo_characteristic_table (precondition of the property)")
    vc.assume_std("A-REAL", "A-GENERIC", "A-NUMPY")

    def col_at(name, cz):
        return z3.Function(f"tct.{name}", I, R)(cz)

    # ---- ratio / angle: 2W table and 3W dict ----------------------------------------------------------------------
    for kind in ("2W", "3W"):
        for cva in (True, False):
            def h(p, kind=kind, cva=cva):
                tct = _tct()
                inst_wf, idf, stf = _wellformed(p, tct)
                sname = "trafo" if kind == "2W" else "t3eq"
                sp, cols = _trafo_cols(sname, star=(kind == "3W"))
                if kind == "2W":
                    trafo_df = Table(sname, space=sp, cols=cols)
                else:
                    trafo_df = PDict({k: Arr(sp, v, True) for k, v in cols.items()})
                net = netmodel.Net({"_options": PDict({"calculate_voltage_angles": cva, "mode": "pf"}), "trafo_characteristic_table": tct},
                                   strict=True)
                c0 = _pre_own_row(p, cols, sp, tct, idf, stf)
                side = cols["tap_side"]
                tdt = to_z(cols["tap_dependency_table"])
                p.assume(tdt)
                p.assume(z3.Or(side.z == to_pv("hv"), side.z == to_pv("lv")))
                out = p.call(f"{BB}:_calc_tap_from_dataframe", net, trafo_df)
                if out.raised:
                    if _input_error(out.exc):
                        return      # another transformer of the table is malformed: outside the property's domain
                    p.prove(f"tap[{kind},{cva}]:no-exception", False, note=f"raised {out.exc!r} for a well-formed table transformer")
                    return
                _instantiate(p, inst_wf, tct, c0, sp.i)
                vnh, vnl, shift = out.value
                ratio, angle = SV(col_at("voltage_ratio", c0)), SV(col_at("angle_deg", c0))
                hv = side.z == to_pv("hv")
                starz = to_z(cols["tap_at_star_point"]) if kind == "3W" else z3.BoolVal(False)
                r_eff = ite(SV(starz), arith("/", 1, ratio), ratio)
                a_hv = ite(SV(starz), arith("-", 0, angle), angle)
                a_lv = ite(SV(starz), angle, arith("-", 0, angle))
                if kind == "3W":
                    p.assume(z3.Implies(starz, to_z(ratio) != 0))
                tag = f"{kind},{'angles' if cva else 'noangles'}"
                want_h = ite(SV(hv), arith("*", cols["vn_hv_kv"], r_eff), cols["vn_hv_kv"])
                want_l = ite(SV(hv), cols["vn_lv_kv"], arith("*", cols["vn_lv_kv"], r_eff))
                base = cols["shift_degree"] if cva else 0.0
                want_s = arith("+", base, ite(SV(hv), a_hv, a_lv))
                meta = dict(part="ratio", kind=kind)
                p.prove(f"tap[{tag}]:vn_hv-own-row", _xeq(vnh.e, want_h), meta=meta,
                        note="vn_hv of a table transformer = vn_hv * voltage_ratio of its own (id, tap_pos) row (tap side hv), unchanged otherwise")
                p.prove(f"tap[{tag}]:vn_lv-own-row", _xeq(vnl.e, want_l), meta=meta)
                p.prove(f"tap[{tag}]:shift-own-row", _xeq(shift.e, want_s), meta=meta,
                        note="shift = shift_degree + angle_deg of the own row (hv), - angle_deg (lv); inverted at a star point")
                p.cover(f"tap[{tag}]:reachable", True)
            vc.explore(f"_calc_tap_from_dataframe[{kind},{cva}]", h, max_paths=400)

    # ---- vk / vkr ----------------------------------------------------------------------------------------------
    for kind in ("2W", "3W"):
        def hv_(p, kind=kind):
            tct = _tct()
            inst_wf, idf, stf = _wellformed(p, tct)
            sname = "trafo" if kind == "2W" else "trafo3w"
            sp, cols = _trafo_cols(sname)
            vks = ("vk_percent", "vkr_percent") if kind == "2W" else ("vk_hv_percent", "vkr_hv_percent", "vk_mv_percent", "vkr_mv_percent",
                                                                       "vk_lv_percent", "vkr_lv_percent")
            for c in vks:
                cols[c] = SV(z3.Function(f"{sname}.{c}", I, R)(sp.i))
            trafo_df = Table(sname, space=sp, cols=cols)
            c0 = _pre_own_row(p, cols, sp, tct, idf, stf)
            p.assume(to_z(cols["tap_dependency_table"]))
            out = p.call(f"{BB}:_get_vk_values_from_table", trafo_df, tct, kind)
            if out.raised and _input_error(out.exc):
                return
            if out.raised:
                p.prove(f"vk[{kind}]:no-exception", False, note=f"raised {out.exc!r} for a well-formed table transformer")
                return
            _instantiate(p, inst_wf, tct, c0, sp.i)
            vals = out.value
            p.prove(f"vk[{kind}]:arity", len(vals) == len(vks))
            for c, v in zip(vks, vals):
                p.prove(f"vk[{kind}]:{c}-own-row", _xeq(v.e, SV(col_at(c, c0))), meta=dict(part="vk", kind=kind),
                        note=f"{c} of a table transformer is the value of its own (id, tap_pos) row")
            p.prove(f"vk[{kind}]:frame", not trafo_df.writes, note="the transformer table of the net is not written")
        vc.explore(f"_get_vk_values_from_table[{kind}]", hv_, max_paths=100)
    _standins(vc)


def _standins(vc):
    if not hasattr(vc, "native_standins"):
        vc.native_standins = []
    vc.native_standins.append(dict(
        name="table transformers against private rows / directly entered values on fixed networks",
        bound="6 + 6 networks with 1..3 two- / three-winding transformers sharing characteristic ids at different tap positions (power flow: "
              "private table rows, values entered directly, every transformer alone); short-circuit calculation (3ph max / min, 1ph) of three "
              "two-winding transformers against the row values entered directly",
        script="from replaylib import run_all\nfrom replaylib.taptable import main, main_sc\n"
               "run_all(lambda: main('2W'), lambda: main('3W'), main_sc)\n", timeout=900))


def classify(ob, model):
    return ob.meta.get("part", "engine-side-obligation") + ":" + (ob.meta.get("kind") or ("3W" if "[3W" in ob.id else "2W"))


def replay(ob, model, finding=None):
    kind = ob.meta.get("kind") or ("3W" if "[3W" in ob.id else "2W")
    return {"script": f"# replay of {ob.id}\nfrom replaylib.taptable import main\nmain({kind!r})\n",
            "description": "networks with several table transformers (shared and distinct characteristic ids, different tap positions, star "
                           "point taps) against the same transformers with the table values entered directly"}
