"""Assumed contract of pandapower.auxiliary:_sum_by_group in node-indexed form.

    keys, s1, s2, ... = _sum_by_group(b, v1, v2, ...)
returns the distinct values of b and, per distinct value, the sums of the rows of v_k with that value. Here the result is given as arrays
over the *node space* the keys address (the rows of the ppc bus matrix):
    s_k[n]     =  sum over the rows r of (every part of) b with b[r] == n  of  v_k[r]        (pyvc.sigma: a linear functional)
    present[n] =  some row r has b[r] == n                                                   (the keys returned are the nodes with present[n])
so that a store  M[keys, col] = s  writes s[n] at the nodes with present[n] and leaves the others, and  M[keys, col]  reads the column at
those nodes. Nothing else about _sum_by_group is used.
"""
from __future__ import annotations

import z3

from pyvc.values import SV, CV, XV, I, R, EngineError, to_z
from pyvc.arrays import Arr, _count, _mask_and
from pyvc.sigma import sigma
from pyvc.lib_np import Cat


class NodeKeys:
    """the distinct keys of a grouping, as the set of nodes that have at least one row"""
    is_group_keys = True
    no_identity_merge = True

    def __init__(self, space, present, b):
        self.space = space
        self.node_mask = present
        self.b = b


def node_sum_by_group(node_space):
    def summary(it, b, *vals):
        bparts = b.parts if isinstance(b, Cat) else [b]
        if not all(isinstance(k, Arr) for k in bparts):
            raise EngineError("_sum_by_group: keys are not element rows")
        nu = node_space.i
        present = z3.Or(*[_count(it, k.space, z3.simplify(z3.And(k.mask if k.mask is not True else z3.BoolVal(True), to_z(k.e, I) == nu))) > 0
                          for k in bparts])
        keys = NodeKeys(node_space, present, b)
        out = []
        for v in vals:
            vparts = v.parts if isinstance(v, Cat) else [v]
            if len(vparts) != len(bparts) or any(not isinstance(x, Arr) or x.space is not k.space for x, k in zip(vparts, bparts)):
                raise EngineError("_sum_by_group: keys and values do not come from the same rows")
            tot = None
            for k, x in zip(bparts, vparts):
                if (x.mask is True) != (k.mask is True) or (x.mask is not True and not z3.eq(z3.simplify(x.mask), z3.simplify(k.mask))):
                    raise EngineError("_sum_by_group: keys and values are compressed by different masks")
                e = x.e
                if isinstance(e, XV):
                    raise EngineError("_sum_by_group over values that may be NaN")
                m = z3.simplify(z3.And(k.mask if k.mask is not True else z3.BoolVal(True), to_z(k.e, I) == nu))
                sx = sigma(it, Arr(k.space, e, m))
                tot = sx if tot is None else it.binop("+", tot, sx)
            out.append(Arr(node_space, tot, present))
        return (keys,) + tuple(out)
    return summary
