"""What is claimed in MANIFEST.json (regenerate with tools/gen_manifest.py)."""

CLAIMED = {
    "C34": dict(
        text="Proof (all option names, all subsets of passed arguments, all values, all stored user options): relational "
             "non-interference obligation generated from the real text of runpp / _passed_runpp_parameters / "
             "_init_runpp_options / _add_*_options with explicit call-binding model; every path pair is an SMT query. "
             "The one failing input class is the recorded known finding (passed value == signature default). An argument whose option is stored under another name (delta_q -> delta) overrides the stored option of that name as well.",
        note="Assumed: CPython call binding as modelled; helper checks (_check_lightsim2grid_compatibility, numba check, tdpf check) "
             "are pure functions of their arguments and of the element tables; _powerflow uses net._options as found on entry. "
             "Not decided: run_control=True, recycle shortcut."),
    "C17": dict(
        text="Proof for every element type (gen, sgen, ext_grid, load, storage, dcline), any table length and any cost values: the gencost "
             "row written by the real _fill_gencost_poly / _add_linear_costs_as_pwl_cost / _map_costs_to_gen / _get_gen_index equals, as a "
             "polynomial identity in PG, the user's cost function at the element's own power; row filtering keeps gens/cost/signs aligned "
             "(side obligations). Piecewise-linear costs (costs_from_areas, _fill_gencost_pwl): same identity, bounded to 1..3 areas per "
             "cost function (values symbolic). _get_costs: res_cost = ppc['obj']. _get_gen_index returns the gen row of the element's own label, None for elements without a row in ppci['gen'] (lookup -1), and addresses the auxiliary gen of a dcline by its index label; a linear polynomial entry next to pwl costs must evaluate to cp1 * p + cp0 (the code drops cp0 and the q terms: recorded known finding). Bounded native stand-in: AC / DC OPF problems with entries of out-of-service elements, constant and reactive terms, dcline costs with gen labels (3, 1).",
        note="Assumed: PYPOWER's documented evaluation of POLYNOMIAL / PW_LINEAR gencost rows; result power = sign * PG (C16); lookups map "
             "labels to gens injectively; the solver's objective is the sum of the row costs (A-SOLVE). Not decided: optimality (convex optimum "
             "clause), dcline q costs. Bounded stand-in: number of pwl areas <= 3."),
    "C29": dict(
        text="Proof (all currents, settings and table contents): two symbolic executions of the real Fuse.protection_function / "
             "OCRelay.protection_function (all relay types and curve types, both scenarios) related by i1 <= i2: trip time non-increasing "
             "over the extended reals, trip <=> current exceeds pick-up/start, activation value = own switch current of the chosen result "
             "table, ValueError for other scenarios; Fuse.__init__ from a standard type establishes i_start_a/i_stop_a = min/max of the x "
             "data of the characteristic it evaluates for every curve selection. The history 'evaluate, re-parameterise, evaluate' of one fuse only as a bounded native stand-in. Bounded native stand-in also: a fuse evaluated, printed (str) and evaluated again; DTOC / IDTOC relays with a hand-entered I>> stage; IDMT relays whose hand-entered settings tables are ordered differently from the switches.",
        note="Assumed (hypotheses of the statement): characteristic callable non-increasing and non-negative on [i_start, i_stop]; consistently "
             "graded relay settings; x**alpha monotone for alpha > 0. Not decided: scipy interpolation itself, time_grading/"
             "create_protection_function."),
    "C33": dict(
        text="Proof for a generic controlled element (any number of elements, any p, q, vm, ratings; both priority modes; with and without "
             "a PQV area): after the real DERController._saturate the apparent power is within saturate_sn_mva (when active) and p >= 0; "
             "with only a PQV area q lies in the area's flexibility at the element's own p and vm and p is unchanged; the radicands of "
             "the saturation step are non-negative; BaseArea.in_area is 'q within q_flexibility'; _determine_target_powers (damping 1) "
             "carries the bound to the written setpoints. Bounded native stand-in: grid of operating points through the real _saturate for every built-in area, whole controller runs with integer and float constant-Q models (in-place writes in machine arithmetic), Q(V) characteristics at their own break points.",
        note="Assumed: PQV area objects obey the BaseArea protocol (interval q_min <= q_max depending on the element's p, vm); numpy "
             "element-wise semantics. Not decided: shapely polygon areas and the VDE tables themselves, damping_coef > 1, Q models."),
    "C14": dict(
        text="Proof of the fold step: for every result variable and a generic row, the real _update_contingency_results updates max/min "
             "exactly over the valid cases (in service, not NaN: own outage excluded), preserves 'cause names a case that produces the "
             "reported maximum', flags causes_overloading of the outaged element iff some branch is overloaded in that case, copies the "
             "N-0 values; run_contingency (loop + try/except/finally, real text) restores every in_service flag on normal exit, on "
             "swallowed failures and when re-raising. Extended reals with NaN. The step completes (no exception) when an element table has no "
             "loading limit column; what run_contingency writes to net.res_* equals the returned dict for every accumulator, for fresh "
             "result tables and for tables that already carry the columns of an earlier analysis. Bounded native stand-in: whole analyses "
             "against brute force on 5 fixed networks, incl. a second analysis started from the results of the first.",
        note="Assumed: numpy fmax/fmin/where=/out= and comparison-with-NaN semantics; np.any as existence over rows (generic-row "
             "abstraction); the evaluation function is arbitrary but does not touch in_service. Not decided: the N-1 power flows, "
             "run_contingency_ls2g."),
    "C15": dict(
        text="Proof: _update_contingency_results_parallel in both call modes satisfies, for a generic row, the same step specification "
             "that the sequential _update_contingency_results is proved against (C14) with the tripped element's own row and "
             "out-of-service rows excluded, hence equal folds for equal task order; the worker _run_single_contingency evaluates a copy "
             "(caller's table object and cells untouched on normal and exceptional exit) and returns the result columns of that copy. The task list of the parallel path (which cases, in which order) only as a bounded native stand-in (exact ties, unsorted index). The bounded native stand-in also calls the parallel analysis with an explicit raise_errors and with N-1 power flows started from the previous results (n_procs 1..3).",
        note="Assumed: multiprocessing.Pool.map preserves task order (completion order is irrelevant to it); copy/deepcopy semantics; "
             "evaluation function pure. Not decided: the power flows."),
    "C30": dict(
        text="Proof. (a) statelessness: heap/alias obligations from the real text of Diagnostic.__init__ / register_function / "
             "diagnose_network: fresh kwargs and function list per instance, arguments of a diagnostic function depend only on defaults "
             "and this call's options, registrations never reach other instances or the module defaults. (b) network unchanged: for "
             "every class listed in default_diagnostic_functions (read from the source) either the syntactic frame analysis shows "
             "that nothing reachable from `net` can be stored into, or frame-tracking execution of the real diagnostic() over all paths "
             "(power flow converging / raising an expected exception at each call) shows every table and column restored on exit. The frame also holds when the power flow handed to a diagnostic function fails with an error outside expected_exceptions (diagnose_network swallows it and returns normally); every instance owns its function objects. Bounded native stand-in: diagnose_network on 11 fixed networks, the power flow failing at its k-th call (k = 1..24).",
        note="Assumed: the power flow leaves the element tables unchanged (C08); frames of create_impedance/create_switch/create_ward/"
             "replace_xward_by_ward and read-only topology functions as declared; pandas methods without inplace=True do not mutate. "
             "Not decided: exits by unexpected exceptions, report()."),
    "C08": dict(
        text="Proof over all call sites / all paths. (a) ghost counter of auxiliary elements on the real text of _powerflow/_ppci_to_net, "
             "_optimal_powerflow, _calc_sc, _calc_sc_1ph/_init_ppc with every other callee allowed to raise at its call site: "
             "aux == 0 on every normal and exceptional exit (the failing call sites are the recorded known findings); pairing of "
             "_add_dcline_gens (two gens per dcline) and _clean_up (drops exactly the trailing 2*len(dcline) gens / the b2b vscs, for "
             "res=True and res=False). (b) frame-tracking execution of every (net, ppc, ...) function of build_branch/build_bus/"
             "build_gen (list read from source, 4 option sets, all paths): no store into any column / row set / binding of the "
             "user's element tables, including stores through .values views. runpp_3ph is under the aux-balance contract (no clean-up without a preceding add on any exit). Bounded native stand-in: runpp_3ph on a net with a dcline, run_contingency_ls2g and a non-observable state estimation that raise after converting user tables.",
        note="Assumed: _add_auxiliary_elements/_clean_up atomic; numpy/scipy functions store into their arguments only through out=; "
             "pandas methods without inplace=True do not mutate; values read from tables are unknown. Not decided: estimation drivers, "
             "_recycled_powerflow / runpp_3ph clean-up, result tables and net._* keys."),
    "C02": dict(
        text="Proof for a generic row of every branch element table: (a) the real result functions _get_branch_flows / _get_line_results / "
             "_get_trafo_results / _get_trafo3w_results / _get_impedance_results write exactly the documented result formulas (terminal "
             "powers, losses, currents from |S|/(sqrt(3) V), loading for current and power mode, angles) for AC and DC - DC under the "
             "precondition |V| = 1 p.u. at every bus in service, which the real _extract_results is proved to establish before any result "
             "routine reads the ppc; (b) the real "
             "_calc_line_parameter writes the documented per-unit pi parameters r, x, b, g with Z_N = V_N^2 / S_N, from/to bus, status and "
             "RATE_A, and only into the line block; (c) the real branch_vectors returns the documented two-port (ideal transformer "
             "t e^{j theta} at the from side, then the pi circuit) - Yff, Yft, Ytf, Ytt real and imaginary parts; (d) the two-winding "
             "transformer chain in physical-value form: _calc_r_x_from_dataframe (r, |z|, sign of x), _calc_y_from_dataframe (g, b), "
             "_calc_nominal_ratio_from_dataframe, _calc_tap_from_dataframe for Ratio (longitudinal), Ideal (step angle) and missing tap "
             "changers on both sides with and without angles; thorough tier: _wye_delta (T model) has the admittance matrix of the T "
             "circuit; (e) bus injection at the slack bus: _get_numba_functions selects the result routine that leaves shunt powers "
             "out of the slack power only for networks without any shunt admittance.",
        note="Assumed: A-LOOKUP (block layout of ppc['branch']), numpy element-wise semantics, reals for floats, sin/cos/sqrt as "
             "uninterpreted functions with sin^2+cos^2=1, sqrt(x)^2=x. Not decided: cross regulators with tap_step_degree, ideal "
             "shifters given by tap_step_percent, tap tables (C31), trafo3w star conversion, TDPF, the Newton solver itself, "
             "DC line / impedance build."),
    "C03": dict(
        text="Proof: pl = p_from + p_to (AC) and 0 (DC) for the generic row of every branch element (real result functions); passivity "
             "lemma on the admittances returned by the real branch_vectors: for all complex terminal voltages, r >= 0, g >= 0, any tap "
             "ratio and shift the active loss equals a sum-of-squares certificate and is >= 0; DC power flow (_run_dc_pf, real text): "
             "PT = -PF, QF = QT = 0, PF = (Bf Va + Pfinj) baseMVA, and the slack dispatch divides the bus mismatch by the number of "
             "reference generators at that bus (population obligation on the bincount argument); AC networks with one machine: the "
             "real pf_solution_single_slack reports generation = total demand + total branch losses (P and Q, sums over arbitrarily "
             "many buses and branches) under its precondition (no shunt admittance at any bus), and _get_numba_functions establishes "
             "that precondition whenever it selects the routine. Bounded native stand-in: energy balance of converged power flows on fixed networks incl. the algorithms gs / fdbx / fdxb with constant-current / constant-impedance loads and bfsw with a phase shifter inside a mesh.",
        note="Assumed: sparse products are functions of their operands; bincount counts occurrences; A-LOOKUP; reals for floats. Not "
             "decided: global balance for AC (sum of nodal balances: Newton convergence, C01), branches with asymmetric series part."),
    "C31": dict(
        text="Proof for the generic transformer of a table of any size (2W table and the dict of equivalent 2W transformers of the 3W "
             "transformers): the real _calc_tap_from_dataframe returns vn * voltage_ratio and shift +/- angle_deg of the row of "
             "net.trafo_characteristic_table with the transformer's own (id_characteristic, tap_pos) - inverted at a star point - and "
             "the real _get_vk_values_from_table returns vk / vkr of that row, whatever other transformers share the table. The merge "
             "and the dict(zip()) lookups are interpreted in a table theory (join = set of key-equal row pairs, map lookup = some row "
             "with the key, so that all rows with the key must agree); the star-point loop is verified through its counter invariant "
             "(count_index = rank of i in mask), with a universally quantified alignment obligation. Bounded native stand-in: power flows of 12 networks against private table rows / directly entered values, short-circuit calculation (3ph max / min, 1ph) against the row values entered directly.",
        note="Assumed: (id_characteristic, step) is a key of the characteristic table and the own row exists (hypotheses of the "
             "property); pandas merge / boolean-mask compression semantics as stated in pyvc.tabletheory. Not decided: spline "
             "characteristics (create_trafo_characteristic_object), tap2 columns."),
    "C25": dict(
        text="Proof over standard types given as dicts with symbolic values and symbolic presence of every optional parameter (line, "
             "trafo, trafo3w): the real create_std_type / load_std_type / rename_std_type / copy_std_types return the type data "
             "unchanged (every parameter, no extra ones), rename removes the old name and renames the references in the element table; "
             "the real change_std_type sets every column the type defines to the type's value, leaves the other columns and all other "
             "rows unchanged and sets std_type, whatever the row held before; the real create_line / create_transformer / "
             "create_transformer3w and the batch functions create_lines / create_transformers (except the shift / tap columns of the C24 known "
             "finding) / create_transformers3w hand every parameter the type defines "
             "(that is a column of the element table) to the element table with the type's value (for every row of a batch of any size).",
        note="Assumed: element tables have the documented columns; zero-sequence line parameters come together; _set_entries / "
             "pd.DataFrame(entries) write the dict they receive. Not decided: fuse types, parameter_from_std_type, shift / tap data through create_transformers (known finding of C24, reported there), the calculation "
             "reading the table (C02)."),
    "C24": dict(
        text="Relational proof on the real create functions: the single call is run for the generic element of a batch of any size, the "
             "batch call for the whole batch, and the dicts handed to the element table are compared column by column (equal, or "
             "absent/NaN in both) for create_transformer3w_from_parameters / create_transformers3w_from_parameters (all parameters "
             "incl. the tap_pos default), create_transformer3w / create_transformers3w, create_transformer / create_transformers and "
             "create_line / create_lines (all values taken from a standard type with symbolic values and parameter presence), and for "
             "the bus, load, gen, storage, shunt, ward and impedance pairs with the argument lists read from the real signatures on every run "
             "(every numeric / flag parameter symbolic, NaN-able ones with a symbolic NaN flag; three explorations: all given, "
             "None-default parameters left out, required only - so derived values and the defaults of both signatures are compared; for buses a NaN voltage limit and the "
             "documented default limit count as the same value). The "
             "other create pairs and the rejection behaviour are a bounded stand-in (native runs on fixed vectors), labelled bounded. "
             "create_transformers dropping the tap changer and shift of the type is the recorded known finding.",
        note="Assumed: _set_entries / _set_multiple_entries write the dict they get; the optional-column helpers write a value iff it is "
             "not NaN/None; a NaN argument of a single call is numpy's nan object. String-valued parameters keep their defaults in both calls; "
             "argument values the single call refuses with a UserWarning are outside the compared domain. Not decided deductively: "
             "sgen/switch/cost pairs, create_line(s)_from_parameters, create_transformer(s)_from_parameters, duplicate-index and "
             "missing-bus checks (bounded stand-in only)."),
    "C32": dict(
        text="Proof on the real class text (Characteristic, SplineCharacteristic with interp1d and Pchip, LogSplineCharacteristic, "
             "default_interp1d) for support points of any number: c(x[k]) == y[k]; the interpolator is built from the stored support "
             "points and the user's keyword arguments with the documented defaults; evaluation leaves the persisted attributes "
             "(x_vals, y_vals, kwargs, interpolator_kind) exactly as the constructor stored them and the cached interpolator is "
             "excluded from serialisation, so a restored object rebuilds the same curve. Bounded native stand-in: 8 random data sets x 6 interpolator variants, from_gradient with rising and falling gradients, equality with the serialised copy after an evaluation, support points replaced after an evaluation.",
        note="Assumed (external contracts): numpy.interp / scipy interp1d / PchipInterpolator pass through their support points and "
             "Pchip / linear interpolation are shape preserving; 10**log10(y) == y. Not decided: the JSON codec (C20 not applicable)."),
    "C13": dict(
        text="Proof for the generic controlled transformer of a vectorised controller (real method text): DiscreteTapControl.control_step "
             "keeps tap_min <= tap_pos <= tap_max, moves one step in the needed direction unless the limit is reached and writes that "
             "value; DiscreteTapControl.is_converged == True implies voltage inside the band or tap at the limit in the needed "
             "direction (or no voltage result); ContinuousTapControl.control_step writes a tap inside [tap_min, tap_max], its "
             "is_converged implies tolerance or limit. Bounded (labelled): check_for_initial_run is the disjunction of the "
             "controllers' flags and control_implementation, with ghost events, returns normally only when every controller "
             "reported convergence after the last control step and no control step follows the last power flow, levels in order "
             "(lists unrolled: <= 3 levels x <= 2 controllers, max_iter = 2). TrafoController.initialize_control: direction coefficient, tap parameters and controlled bus are those of the current network (physical direction: a higher tap on the controlled side lowers the controlled voltage).",
        note="Assumed: read_from_net / write_to_net contracts; nothing_to_do False; well-formed band (lower <= upper). Not decided: "
             "the power flow itself, other controller classes, hunting detection; loops over controller lists only bounded."),
    "C16": dict(
        text="Proof for the generic in-service controllable element (real _build_pp_pq_element / add_p_constraints / add_q_constraints "
             "for sgen, load, storage; _build_pp_gen with _enforce_controllable_vm_pu_p_mw; write_pq_results_to_element): the box handed "
             "to the solver is exactly the declared box in the element's own sign convention (PMIN <= PG <= PMAX <=> min_p - delta <= "
             "sign*PG <= max_p + delta, same for Q, for every point), setpoints PG/QG = sign * p/q * scaling, the result written back "
             "is sign * PG of the element's own row; gens: PG, VG, Q box, non-controllable gens fixed at p_mw and vm_pu; the voltage "
             "range of a gen bus is the intersection of the bus limits and the gen's own min_vm_pu / max_vm_pu (own bus, own values); "
             "only the element's block of ppc['gen'] is written. DC OPF (opf_setup, DC model, with stubs for the model object): the two flow constraints of a rated branch are Bf Va <= RATE_A/S_base - Pfinj and -Bf Va <= RATE_A/S_base + Pfinj (limit on the flow including the phase-shift offset), exactly on the rated branches. A bounded native stand-in checks that the OPF result of a lossy dcline is an operating point of the dcline model of the power flow. Non-controllable gens are fixed at p_mw * scaling (the set point of the power flow). Bounded native stand-in also: dcline losses with net.sn_mva = 10 / 100, voltage limits of buses fused by a bus-bus switch, a scaled non-controllable gen against a power flow with the OPF dispatch.",
        note="Assumed: A-SOLVE (the interior point solver returns a point of the box it is given), A-LOOKUP (block layout of "
             "ppc['gen']). Not decided: solver, branch loading / dcline / plain bus voltage constraints, DC OPF, power flow replay of "
             "the dispatch."),
    "C04": dict(
        text="Proof for the generic in-service element (real text): _build_pp_ext_grid gives the slack row VG = vm_pu and the ext_grid bus "
             "VM = vm_pu, VA = va_degree; _build_pp_gen gives PG = p_mw*scaling, VG = vm_pu, bus VM = vm_pu and the reactive box; "
             "write_pq_results_to_element reports p*scaling (q*scaling) for in-service sgens, loads, storages; "
             "write_voltage_dependend_load_results reports p*scaling*(cp + ci*v + cz*v^2) at the solved voltage of the load's own "
             "bus. Shunts / wards / xwards (tables of any length): _calc_shunts_and_add_on_ppc gives every node the sum of "
             "p_mw * step * (vn_bus / vn_shunt)^2 (missing vn_kv = bus voltage; pz_mw for wards) of the in-service elements at "
             "that node, stored once per node; _get_shunt_results reports vm^2 times exactly that model power per element (added to "
             "the constant-power part for wards) and adds the same powers to the bus sums grouped by the element's own bus. "
             "_update_q reports q = 0 for every machine that is not running (the Q-limit loop relies on it for the gens it has "
             "switched off). The "
             "Q-limit enforcement loop is only a bounded stand-in (native power flows on two fixed networks incl. a two-round "
             "limiting cascade), labelled bounded. DC power flow: the shunt / ward / xward results use 1 p.u. like the DC model. _run_pf_algorithm does not take the reference-buses-only shortcut (which has no limit loop) when enforce_q_lims is set and the network has branches (the branch-less case is a recorded known finding).",
        note="Assumed: A-SOLVE (Newton keeps reference / PV voltages), A-LOOKUP, _sum_by_group (distinct keys with per-key sums). Not "
             "decided deductively: _run_ac_pf_with_qlims_enforced (needs a per-bus sum invariant), step characteristic tables of "
             "shunts, svc / ssc / vsc, trafo3w star losses, motors, asymmetric elements."),
    "C05": dict(
        text="Proof: the real _calc_line_parameter and _calc_switch_parameter write per-unit impedances whose physical value "
             "BR_R * V_N^2 / S_N is the ohmic value for every net.sn_mva (generic row); lemmas on the real branch_vectors: scaling "
             "series impedances by k and shunt admittances by 1/k (a change of the per-unit base) scales all four two-port "
             "admittances by 1/k; parallel = n gives n times the admittances of one line; a branch without tap changer is symmetric "
             "under swapping its ends. Table-level re-representations (row permutation, out-of-service elements incl. a line at an out-of-service bus, split loads, fused buses) only as a bounded native stand-in on one fixed network, labelled bounded. The bounded native stand-in also relabels the buses (gap, offset) of networks whose elements have auxiliary buses (xward in the distributed slack, non-controllable SSC).",
        note="Assumed: A-LOOKUP (index relabelling / row order is the assumed block layout, not proved), reals for floats. Not decided: "
             "splitting loads (per-bus sums), out-of-service elements, bus fusing through zero-impedance switches, per-unit "
             "conversion of transformers / impedances / wards."),
    "C12": dict(
        text="Proof (ghost events / dataflow on the real text): ConstControl.set_recycle flags the ppc part derived from the table column a "
             "controller drives, or switches recycling off, for every element/variable of the enumerated universe; _recycled_powerflow "
             "re-derives, before the solver runs, every ppc part whose flag is set - for the branch flag the parameter function of "
             "every branch table present in the lookup (trafo, trafo3w, line), for all combinations of flags and tables; "
             "_check_output_writer_recyclability declares a result variable batch-readable only if OutputWriter.get_batch_outputs "
             "records it (all result columns of res_bus / res_line / res_trafo / res_trafo3w / res_load / res_gen enumerated). _recycled_powerflow leaves the branch end buses (auxiliary buses at open switches) as the full conversion determined them when the parameter functions re-read the tables. Bounded native stand-in: run_timeseries against fresh power flows (profiles on 5 element columns, a diverging step, several variables of one table, open switches with tap / line profiles, stale _ppc, two runs on one output writer). _evaluate_net: the cached network data of a diverged run is discarded before the repair run and before the next time step, with and without continue_on_divergence.",
        note="Assumed: which ppc part derives from which table (DOMAIN in the contract). Not decided: numerical batch reading "
             "(read_batch_results), only_v_results copying, other controller classes, the solver."),
    "C22": dict(
        text="Proof with ghost table versions on the real drop_elements_simple / drop_buses / drop_lines / drop_trafos: group members are "
             "detached while the element rows still exist, the rows are dropped afterwards, exactly the switches of the dropped lines / "
             "transformers / three-winding transformers (codes l / t / t3) are selected for removal; proof for the generic row of the "
             "referencing tables on the real reindex_elements (line, trafo, trafo3w, gen, load): switch, measurement and cost "
             "references to re-indexed elements are mapped through the lookup, all others unchanged. The result-table index after "
             "reindex_elements is the recorded known finding. Other edits: bounded stand-in (native edits of one fixed network). drop_elements_simple also drops the measurements and cost rows of the dropped elements. The bounded native stand-in covers 12 edit operations incl. select_subnet and drop_inactive_elements with costs on several element types. _inner_branches('drop') reduces every branch table through the drop function of its own kind (drop_trafos with its own table, no bare DataFrame.drop); measurements of every element type follow reindex_elements.",
        note="Assumed: pandas drop / set_index / .loc stores, get_indices = map through the lookup. Not decided deductively: fuse_buses, "
             "select_subnet, merge_nets, reindex_buses, replace_*, controller and characteristic references, group links in reindex."),
    "C26": dict(
        text="Proof for the generic row of the line, impedance, trafo, trafo3w (three side pairs) and switch tables, for respect_switches "
             "in {True, False} and include_out_of_service in {False, True} (real create_nxgraph with init_par / get_edge_table): the "
             "rows handed to add_edges are exactly the in-service elements (or all, if out-of-service ones are included) that no open "
             "switch of the element's code interrupts (trafo3w: at one of the edge's two buses), with the table's bus columns as end "
             "points and the element index as key; lines carry their length; bus-bus switches give an edge iff closed (or switches "
             "are not respected); calc_distance_to_bus searches a multigraph built with the caller's options. Every out-of-service bus that is a node of the graph is removed (unless include_out_of_service), whatever the number of nodes or nogobuses. Bounded native stand-in: edges, nodes, components and distances of fixed networks, notravbuses next to out-of-service buses, connected_components with notravbuses sets (cover, no duplicates).",
        note="Assumed: add_edges adds one edge per in-service row; networkx (MultiGraph, Dijkstra). Bounded only: connected_components, "
             "nogobuses / notravbuses. Not decided: edge impedances, tcsc / dcline / vsc / line_dc edges, graph_tool back end."),
    "C01": dict(
        text="Proof with sums over the (arbitrarily many) machines / loads at one bus as linear functionals: after the real "
             "_split_p_for_gens_at_same_bus the active powers of all machines at a reference bus add up to the bus power for every "
             "number of reference machines and PV gens and all slack weights; the real _calc_pq_elements_and_add_on_ppc writes bus "
             "ZIP coefficients with PD_bus * ci_bus == sum p_l * ci_l and PD_bus * cz_bus == sum p_l * cz_l (same for q), so that the "
             "voltage dependent bus load is the sum of the loads' own ZIP terms for every voltage; _get_numba_functions selects the fast "
             "result routine pf_solution_single_slack (slack power = loads + branch losses) only when its precondition holds: one "
             "machine, no voltage dependent loads, no distributed slack and GS == BS == 0 at every bus. Also: _update_q / _update_p add the load of the machine's bus at the solved voltage (ZIP law) to the network injection; PD / QD of a node are the sums over the loads, sgens and storages whose bus maps to the node (node-indexed contract of _sum_by_group, fused buses included). Three listed known findings (ZIP coefficients scale all elements of the bus; ZIP coefficients per bus instead of per node; res_bus omits dcline terminals) with native replays; a bounded native stand-in (one network with dcline, storage, ward, shunt, gen) covers the bus elements outside the deductive part.",
        note="Assumed: linearity of finite sums (pyvc.sigma), _sum_by_group sums per bus, intersect1d / setdiff1d. Not decided: the nodal "
             "balance at ordinary buses (element result sums against branch flows, Newton mismatch), reactive split (_update_q), "
             "dcline terminals, FACTS, loads whose powers cancel at a bus (no per-bus coefficient can represent them)."),
    "C09": dict(
        text="Proof for the generic switch / bus (real text): create_bus_lookup re-derives net._impedance_bb_switches from the current "
             "switch table (closed bus-bus switch between in-service buses with z_ohm > 0) whatever value a previous calculation left "
             "in the attribute, on the numba and numpy paths; get_voltage_init_vector(init='results') returns a start vector without "
             "NaN: the previous result where there is one, flat start otherwise, and does not write the result table. _powerflow: the conversion of every calculation (AC / DC, flat start / from results) starts from lookups created in that call -- no lookup of an earlier calculation survives. _powerflow re-initialises the result tables unless the calculation starts from previous results (AC and DC). A bounded native stand-in replays histories of one net object against fresh copies (incl. calc_sc without connectivity check after machines were switched off).",
        note="Assumed: the bus fusing helpers compute from the current tables. Not decided: the remaining cached state (rebuilt by "
             "_pd2ppc, covered by the C08 frame contracts; recycling: C12; options: C34), convergence of Newton from a nearby start."),
    "C23": dict(
        text="Proof for the generic replaced element (real replace_line_by_impedance / replace_impedance_by_line, loop over the rows): the "
             "impedance created for a line has rft/xft/gf/bf_pu of the line's per-unit pi model with the line's own length_km and "
             "parallel and Z_N = vn^2 / sn_mva, same buses, sn_mva and in_service; the line created for a symmetric impedance has "
             "r * length = rft_pu * Z_N (x alike), no capacitance, parallel 1 - the inverse mapping; the real "
             "replace_xward_by_internal_elements creates a series impedance whose physical value is the xward's r_ohm / x_ohm for every "
             "net.sn_mva, and load / shunt / gen with the xward's values; the real select_subnet returns a new net carrying f_hz of "
             "its source. drop_inactive_elements / drop_out_of_service_elements only as a bounded native stand-in (one feeder with an open-ended cable and a stub line at an out-of-service bus), labelled bounded. drop_out_of_service_elements protects the buses of every branch end; an impedance with symmetric shunt admittances becomes a line with the same shunt part. A further bounded native stand-in covers select_subnet / drop_inactive_elements around a three-winding transformer with an isolated side and the impedance with shunt part.",
        note="Assumed: the create functions store their arguments; the line pi model (C02). Not decided: ext_grid -> gen, ward "
             "replacement, merge_nets, the element selection of select_subnet, drop_inactive_elements, fuse_buses, "
             "merge_parallel_line, result / profile / group adaptation."),
    "C18": dict(
        text="Proof: the real _kappa gives 1.02 < kappa <= 2 for every R/X >= 0; provenance contract for the network matrices: the real "
             "_calc_rx reads Zbus when inverse_y else ybus_fact, and the real _kappa_method_c hands it an equivalent-frequency copy "
             "whose Zbus / ybus_fact is the inverse / factorisation of that copy's own Ybus for both values of inverse_y (so the two "
             "options describe the same network). The IEC relations of the results (ikss, skss, 2ph/3ph ratio, ip) are only a bounded "
             "stand-in (native calc_sc runs on one fixed meshed network), labelled bounded. Network feeders (_add_ext_grid_sc_impedance, cases max / min): y * S_base with y (r + j x) = 1, |r + j x| = c / (s_sc / S_base), r / x = rx with the voltage factor of the feeder's own node; the admittances of all in-service ext_grids at a node are added once per node through the distinct keys of the grouping. _add_sgen_sc_z adds (never assigns) the admittances of asynchronous / doubly-fed sgens to their nodes. A bounded native stand-in covers several sources at one node (two generators in both row orders, sgen at a feeder bus, two feeders).",
        note="Assumed: scipy inv / factorized, makeYbus (C02). Not decided deductively: currents.py (2-D complex arrays), independence "
             "of sn_mva and of the set of faulted buses, kappa method B."),
    "C07": dict(
        text="Proof for the generic row (real loop text behind _select_is_elements_numba): an element is selected as in service iff its own "
             "flag is set and its bus is in service; a bus stays in service iff it was and its ppc bus is not isolated; the real "
             "_set_buses_out_of_service gives NaN voltage and zero load exactly to the ppc buses of type NONE and touches nothing else; "
             "elements not in service report zero power (shared with C16/C04). The connectivity search, the re-routing of lines at "
             "out-of-service buses and the equality with topology.unsupplied_buses are only a bounded stand-in (native power flows on "
             "four fixed networks), labelled bounded. A second bounded native stand-in covers a part of the network connected only through an out-of-service bus (rundcpp / runpp), voltage dependent loads at dead buses and an out-of-service ext_grid next to a slack gen.",
        note="Assumed: numba compiles the Python text of the loops. Not decided deductively: _check_connectivity (scipy csgraph), "
             "_branches_with_oos_buses."),
    "C10": dict(
        text="Proof for the generic in-service ext_grid, gen and xward (real _build_pp_ext_grid / _build_pp_gen / _build_pp_xward): the "
             "slack contribution factor handed to the solver is the element's own slack_weight; with sums over the machines at a "
             "bus as linear functionals, the real _split_p_for_gens_at_same_bus gives every reference machine of a shared reference "
             "bus the deviation (p_bus - sum of setpoints) * w / sum(w) and leaves the PV gens at their setpoints. The equalisation "
             "across buses by the Newton iteration is only a bounded stand-in (native runs on three fixed networks), labelled bounded. _run_pf_algorithm: with distributed_slack the Newton-Raphson solver runs for every combination of bus types (the shortcut for networks of reference buses only ignores the weights). Bounded native stand-in also: a ring of reference buses only and five xward scenarios (several participating xwards, one out of service, table order descending in the bus, sgen / scaled load at the xward bus, enforce_q_lims with a gen at its limit): ratios and nodal balance at every bus.",
        note="Assumed: A-LOOKUP, linearity of finite sums. Not decided deductively: newtonpf with the slack variable, weight "
             "normalisation per island, xward result extraction."),
    "C21": dict(
        text="Proof for the generic ppc branch (real _branch_to_which / _from_ppc_branch): every branch is imported as exactly one of line / "
             "transformer / impedance, as a line only if it connects one voltage level and has tap ratio 0 or 1 and no phase shift "
             "(a branch with ratio or shift is never imported as a line); the created line has r * l = BR_R * Z_N, x alike, "
             "2 pi f c' 1e-9 l Z_N = BR_B and the branch status - the inverse of the per-unit line build (C02), so the round trip "
             "reproduces the branch parameters. _from_ppc_gen: the created ext_grid / gen regulates to the VG of the ppc gen row it is created from (first-row-per-key theory for drop_duplicates; assumed contract of _gen_to_which: machines are the first gen rows of their buses). line:g - the conductance handed to create_lines is the whole branch conductance (inverse of the line build). Bounded native stand-in: round trips through the ppc dict and the MATPOWER file (line conductances, transformer iron losses, cost data with RATE_A = 0).",
        note="Assumed: create_lines_from_parameters stores its arguments; the line pi model. Not decided: transformer and impedance "
             "parameters, buses / gens / costs, to_ppc (the C02-contracted _pd2ppc), MATPOWER files, the power flow equality itself."),
    "C27": dict(
        text="Proof against a set model (member lists as sets, generic group row and generic element): the real detach_from_groups removes "
             "exactly the detached elements from rows of that element type - for index groups members' = members minus D, for "
             "reference-column groups only reference values of detached elements that exist in the element table - leaves other rows "
             "unchanged and keeps a row iff it still has members; the real drop_elements_at_buses detaches the elements while their "
             "rows are still in the element table and drops them afterwards (ghost table versions). drop_switches_at_buses and drop_measurements_at_elements detach the rows they drop from the groups first. A bounded native stand-in covers attach_to_group to a later group, the drop_buses cascade over switches / measurements and reindex_elements for a part of the elements, against a set model.",
        note="Assumed: pandas Index.difference / intersection are set operations. Not decided: attach_to_group(s), group_element_index, "
             "in/out-of-service and result functions, reindexing of group members, create_group."),
    "C11": dict(
        text="Proof of lemmas on the real symmetrical-component code of pandapower.auxiliary (constants a, asq, Tabc, T012, "
             "sequence_to_phase, phase_to_sequence, S_from_VI_elementwise) for 3 x n arrays with arbitrary complex columns: the two "
             "transformations are inverse to each other; a purely positive-sequence solution gives phase quantities of equal "
             "magnitude shifted by -120 / +120 degrees and equal per-phase powers (one third of the total each); for any solution "
             "the phase powers add up to 3 * sum of the sequence powers. Proof on the real _load_mapping / _get_elements "
             "(pandapower.pf.runpp_3ph), tables of any length: the per-phase nodal injection S[phase, wye|delta][node] is stored once, "
             "through the distinct keys of the grouping, grouped by the node of the element's own bus, over exactly the in-service "
             "elements of that connection type of all four tables, with the element's own phase power (one third of p, q for "
             "symmetric loads / sgens, generation negative). The agreement of runpp_3ph with runpp on symmetric networks (one with "
             "busbar sections fused by a bus-bus switch) and the per-phase balance at the fused node are a bounded stand-in (native "
             "runs), labelled bounded. _get_elements / _load_mapping: every in-service load / sgen is injected, through the delta transformation iff its type is 'delta' and phase-earth for every other value of the type column. Bounded native stand-in also: elements at the ext_grid bus (per-phase balance at the slack bus), an out-of-service ext_grid listed first, two ext_grids at one bus, sgens of type 'PV' / None.",
        note="Assumed: cos(120 deg) = -1/2, sin(120 deg) = sqrt(3)/2 for the module constants; np.matmul; _sum_by_group returns the "
             "distinct keys with the per-key sums; a store through distinct keys. Not decided: the sequence iteration of runpp_3ph, the "
             "zero-sequence network build, the nodal balance of the solution itself, the *_3ph result functions beyond the "
             "transformation, that a symmetric network has no zero / negative sequence components."),
}

NOT_APPLICABLE = {
    "C06": "agreement of different floating-point iterations (NR, GS, FDPF, BFSW, lightsim2grid) is not expressible as a pre/postcondition a verifier can discharge; only each solver's own exit test is contract-shaped and that does not imply agreement (DESIGN.md section 6)",
    "C19": "convergence of the WLS Gauss-Newton iteration to the true state plus a statistical bad-data test: no contract within reach decides it (DESIGN.md section 6)",
    "C20": "behaviour of json/pandas/pickle/openpyxl/sqlite3 and reflection-driven (de)serialisation: every substantive clause would be an assumed library contract (DESIGN.md section 6)",
    "C28": "numerical equality of two solver runs on Schur-complement equivalents (dense inverses + power flows): outside deductive reach (DESIGN.md section 6)",
}
