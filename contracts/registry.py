"""What is claimed in MANIFEST.json (regenerate with tools/gen_manifest.py)."""

CLAIMED = {
    "C34": dict(
        text="Proof (all option names, all subsets of passed arguments, all values, all stored user options): relational "
             "non-interference obligation generated from the real text of runpp / _passed_runpp_parameters / "
             "_init_runpp_options / _add_*_options with explicit call-binding model; every path pair is an SMT query. "
             "The one failing input class is the recorded known finding (passed value == signature default).",
        note="Assumed: CPython call binding as modelled; helper checks (_check_lightsim2grid_compatibility, numba check, tdpf check) "
             "are pure functions of their arguments and of the element tables; _powerflow uses net._options as found on entry. "
             "Not decided: run_control=True, recycle shortcut."),
}

NOT_APPLICABLE = {
    "C06": "agreement of different floating-point iterations (NR, GS, FDPF, BFSW, lightsim2grid) is not expressible as a pre/postcondition a verifier can discharge; only each solver's own exit test is contract-shaped and that does not imply agreement (DESIGN.md section 6)",
    "C19": "convergence of the WLS Gauss-Newton iteration to the true state plus a statistical bad-data test: no contract within reach decides it (DESIGN.md section 6)",
    "C20": "behaviour of json/pandas/pickle/openpyxl/sqlite3 and reflection-driven (de)serialisation: every substantive clause would be an assumed library contract (DESIGN.md section 6)",
    "C28": "numerical equality of two solver runs on Schur-complement equivalents (dense inverses + power flows): outside deductive reach (DESIGN.md section 6)",
}
