"""C02 part C: the two-winding transformer build chain against doc/elements/trafo.rst (pi model, power flow mode).

Functions under contract (real text): pandapower.build_branch:_calc_r_x_from_dataframe, _calc_y_from_dataframe,
_calc_nominal_ratio_from_dataframe, _calc_tap_from_dataframe (tap changers without characteristic table), _wye_delta.

Physical-value form of the documented model (so that it holds for every net.sn_mva), for the generic transformer:
    Z_N = V_N,lv^2 / S_N (network base at the lv bus), V_lv' = tap-adjusted rated lv voltage
    r * Z_N * parallel = vkr_percent/100 * V_lv'^2 / sn_mva          |z| likewise with vk_percent,  x^2 = z^2 - r^2, sign(x) = sign(z)
    g / Z_N / parallel = pfe / V_lv'^2                               b = -sqrt(max((i0/100 sn)^2 - pfe^2, 0)) / V_lv'^2 * Z_N * parallel
    ratio = (V_hv' / V_lv') / (V_N,hv / V_N,lv)
    Ratio / Symmetrical tap changer: V' = sqrt((V + dV cos phi)^2 + (dV sin phi)^2), dV = V (tap_pos - tap_neutral) tap_step_percent / 100,
        shift += +/- atan(dV sin phi / (V + dV cos phi)) on the tap side (hv: +, lv: -); without angle: V' = V (1 + (pos - neutral) step/100);
    Ideal phase shifter: shift += +/- (pos - neutral) * tap_step_degree, voltages unchanged.
    T model (_wye_delta): the pi equivalent has the same two-port as the T circuit (series halves + magnetising branch).
"""
from __future__ import annotations

import z3

from pyvc.values import SV, CV, XV, PV, B, I, R, EngineError, to_z, to_pv, real, arith, carith, compare, ite, ssqrt, Opaque
from pyvc.containers import PDict
from pyvc.arrays import Table, Mat, Space, Arr, subst, truth_z
from pyvc.vc import consts
from pyvc import netmodel
from contracts import ppcmodel as pm

BB = "pandapower.build_branch"


def _trafo(extra=None):
    sp = Space.get("trafo")
    f = lambda nm, sort=R: SV(z3.Function(f"trafo.{nm}", I, sort)(sp.i))
    fx = lambda nm: XV(SV(z3.Function(f"trafo.{nm}", I, R)(sp.i)), z3.Function(f"trafo.{nm}.isnan", I, B)(sp.i))
    cols = {"hv_bus": f("hv_bus", I), "lv_bus": f("lv_bus", I), "sn_mva": f("sn_mva"), "vn_hv_kv": f("vn_hv_kv"), "vn_lv_kv": f("vn_lv_kv"),
            "vk_percent": f("vk_percent"), "vkr_percent": f("vkr_percent"), "pfe_kw": f("pfe_kw"), "i0_percent": f("i0_percent"),
            "parallel": f("parallel"), "shift_degree": f("shift_degree"), "tap_dependency_table": False}
    cols.update(extra or {})
    return Table("trafo", space=sp, cols=cols), sp, cols


def run(vc):
    def _x(e):
        return to_z(e.v if isinstance(e, XV) else e, R)

    # ---- short-circuit impedance ---------------------------------------------------------------------------------------------
    def h_rx(p):
        t, sp, c = _trafo()
        vn_lv = Arr(sp, SV(z3.Function("vn_lv_bus", I, R)(sp.i)))           # V_N at the lv bus
        vt_lv = Arr(sp, SV(z3.Function("vn_trafo_lv", I, R)(sp.i)))         # tap-adjusted rated lv voltage
        S = real("sn_mva")
        p.assume(z3.And(to_z(S) > 0, to_z(vn_lv.e) > 0, to_z(vt_lv.e) > 0, to_z(c["sn_mva"]) > 0, to_z(c["parallel"]) > 0,
                        to_z(c["vk_percent"]) >= to_z(c["vkr_percent"]), to_z(c["vkr_percent"]) >= 0))
        out = p.call(f"{BB}:_calc_r_x_from_dataframe", "pf", t, vn_lv, vt_lv, S)
        if out.raised:
            raise EngineError(f"_calc_r_x_from_dataframe raised {out.exc!r}")
        r, x = (_x(v.e) for v in out.value)
        zn = to_z(vn_lv.e) ** 2 / to_z(S)
        ref = to_z(vt_lv.e) ** 2 / to_z(c["sn_mva"])
        par = to_z(c["parallel"])
        p.prove("trafo:r-physical", r * zn * par == to_z(c["vkr_percent"]) / 100 * ref, meta=dict(part="trafo"),
                note="r_pu * Z_N * parallel = vkr/100 * V_lv'^2 / sn_mva (ohmic short-circuit resistance on the lv side)")
        zk = to_z(c["vk_percent"]) / 100 * ref
        p.prove("trafo:z-physical", (r * r + x * x) * (zn * par) * (zn * par) == zk * zk, meta=dict(part="trafo"), kind="lemma",
                note="|z_pu| * Z_N * parallel = vk/100 * V_lv'^2 / sn_mva")
        p.prove("trafo:x-sign", x >= 0, meta=dict(part="trafo"))
    vc.explore("_calc_r_x_from_dataframe", h_rx, max_paths=40)

    # ---- magnetising admittance ------------------------------------------------------------------------------------------------
    def h_y(p):
        t, sp, c = _trafo()
        vn_lv = Arr(sp, SV(z3.Function("vn_lv_bus", I, R)(sp.i)))
        vt_lv = Arr(sp, SV(z3.Function("vn_trafo_lv", I, R)(sp.i)))
        S = real("sn_mva")
        p.assume(z3.And(to_z(S) > 0, to_z(vn_lv.e) > 0, to_z(vt_lv.e) > 0, to_z(c["sn_mva"]) > 0, to_z(c["parallel"]) > 0, to_z(c["vn_lv_kv"]) > 0))
        out = p.call(f"{BB}:_calc_y_from_dataframe", "pf", t, vn_lv, vt_lv, S)
        if out.raised:
            raise EngineError(f"_calc_y_from_dataframe raised {out.exc!r}")
        g, b = (_x(v.e) for v in out.value)
        zn = to_z(vn_lv.e) ** 2 / to_z(S)
        par = to_z(c["parallel"])
        pfe = to_z(c["pfe_kw"]) * 1e-3
        vl2 = to_z(vt_lv.e) ** 2
        p.prove("trafo:g-physical", g * vl2 == pfe * zn * par, meta=dict(part="trafo"), note="g_pu / Z_N / parallel = pfe / V_lv'^2")
        ym = to_z(c["i0_percent"]) / 100 * to_z(c["sn_mva"])
        rad = ym * ym - pfe * pfe
        p.prove("trafo:b-physical", z3.And(b <= 0, (b * vl2) * (b * vl2) == z3.If(rad < 0, z3.RealVal(0), rad) * (zn * par) * (zn * par)),
                meta=dict(part="trafo"), kind="lemma", note="b = -sqrt(max(ym^2 - pfe^2, 0)) / V_lv'^2 * Z_N * parallel (inductive)")
    vc.explore("_calc_y_from_dataframe", h_y, max_paths=40)

    # ---- off-nominal ratio ------------------------------------------------------------------------------------------------------
    def h_ratio(p):
        iu = consts("pandapower.pypower.idx_bus")
        t, sp, c = _trafo()
        bus = pm.bus_mat()
        pm.colfun(bus, "all", iu.BASE_KV, R)
        lsp = Space.get("label:bus")
        bl = Arr(lsp, SV(z3.Function("bus_lookup", I, I)(lsp.i)))
        vh = Arr(sp, SV(z3.Function("vn_trafo_hv", I, R)(sp.i))); vl = Arr(sp, SV(z3.Function("vn_trafo_lv", I, R)(sp.i)))
        me = p.it.modenv(BB)
        from pyvc.interp import Native
        me.vals["get_values"] = Native(lambda it, source, selection, lookup: it.getitem(source, it.getitem(lookup, selection)), name="get_values")
        out = p.call(f"{BB}:_calc_nominal_ratio_from_dataframe", PDict({"bus": bus}), t, vh, vl, bl)
        if out.raised:
            raise EngineError(f"_calc_nominal_ratio_from_dataframe raised {out.exc!r}")
        BK = z3.Function(f"ppcbus[all,{iu.BASE_KV}]", I, R)
        L = lambda col: z3.substitute(to_z(bl.e, I), (lsp.i, to_z(c[col], I)))
        vnh, vnl = BK(L("hv_bus")), BK(L("lv_bus"))
        p.assume(z3.And(vnh > 0, vnl > 0, to_z(vl.e) > 0))
        p.prove("trafo:ratio", to_z(out.value.e, R) * (vnh / vnl) == to_z(vh.e) / to_z(vl.e), meta=dict(part="trafo"),
                note="ratio = (V_hv' / V_lv') / (V_N,hv / V_N,lv)")
    vc.explore("_calc_nominal_ratio_from_dataframe", h_ratio, max_paths=20)

    # ---- tap changers without table ------------------------------------------------------------------------------------------------
    for changer in ("Ratio", "Ideal", None):
        for cva in (True, False):
            def h_tap(p, changer=changer, cva=cva):
                sp = Space.get("trafo")
                fx = lambda nm: XV(SV(z3.Function(f"trafo.{nm}", I, R)(sp.i)), z3.Function(f"trafo.{nm}.isnan", I, B)(sp.i))
                extra = {"tap_pos": fx("tap_pos"), "tap_neutral": fx("tap_neutral"), "tap_step_percent": fx("tap_step_percent"),
                         "tap_step_degree": fx("tap_step_degree"), "tap_side": SV(z3.Function("trafo.tap_side", I, PV)(sp.i)),
                         "tap_changer_type": SV(z3.Function("trafo.tap_changer_type", I, PV)(sp.i)),
                         "id_characteristic_table": fx("id_characteristic_table")}
                t, sp, c = _trafo(extra)
                c["tap_dependency_table"] = SV(z3.BoolVal(False))
                t.cols["tap_dependency_table"] = c["tap_dependency_table"]
                net = netmodel.Net({"_options": PDict({"calculate_voltage_angles": cva, "mode": "pf"})}, strict=True)
                side = c["tap_side"].z
                hv = side == to_pv("hv")
                p.assume(z3.Or(hv, side == to_pv("lv")))
                kind = c["tap_changer_type"].z
                if changer is None:
                    p.assume(PV.is_none(kind))
                else:
                    p.assume(kind == to_pv(changer))
                for nm in ("tap_pos", "tap_neutral"):
                    p.assume(z3.Not(c[nm].nan))
                p.assume(z3.And(to_z(c["vn_hv_kv"]) > 0, to_z(c["vn_lv_kv"]) > 0))
                diff = to_z(c["tap_pos"].v) - to_z(c["tap_neutral"].v)
                step = z3.If(c["tap_step_percent"].nan, z3.RealVal(0), to_z(c["tap_step_percent"].v))
                deg = z3.If(c["tap_step_degree"].nan, z3.RealVal(0), to_z(c["tap_step_degree"].v))
                if changer == "Ratio":
                    p.assume(deg == 0)          # longitudinal regulator (the cross regulator formula needs the trigonometric lemmas)
                if changer == "Ideal":
                    # ideal phase shifter defined by its step angle (the tap_step_percent variant needs arcsin: not decided)
                    p.assume(z3.And(step == 0, z3.Not(c["tap_step_degree"].nan), deg != 0))
                out = p.call(f"{BB}:_calc_tap_from_dataframe", net, t)
                if out.raised:
                    msg = str(out.exc.args[0]) if getattr(out.exc, "args", None) else ""
                    if "Both tap_step_degree and tap_step_percent" in msg or "id_characteristic_table NA" in msg:
                        return
                    raise EngineError(f"_calc_tap_from_dataframe raised {out.exc!r}")
                vnh, vnl, shift = (v.e for v in out.value)
                tag = f"tap[{changer},{'angles' if cva else 'noangles'}]"
                base = to_z(c["shift_degree"]) if cva else z3.RealVal(0)
                nn = lambda e: (e.nan if isinstance(e, XV) and not isinstance(e.nan, bool) else z3.BoolVal(False))
                if changer == "Ratio":
                    fac = 1 + diff * step / 100
                    p.assume(fac > 0)
                    p.prove(f"{tag}:vn_hv", z3.And(z3.Not(nn(vnh)), _x(vnh) == z3.If(hv, to_z(c["vn_hv_kv"]) * fac, to_z(c["vn_hv_kv"]))), meta=dict(part="tap"),
                            note="V' = V * (1 + (tap_pos - tap_neutral) * tap_step_percent / 100) on the tap side")
                    p.prove(f"{tag}:vn_lv", z3.And(z3.Not(nn(vnl)), _x(vnl) == z3.If(hv, to_z(c["vn_lv_kv"]), to_z(c["vn_lv_kv"]) * fac)), meta=dict(part="tap"))
                    p.prove(f"{tag}:shift", z3.And(z3.Not(nn(shift)), _x(shift) == base), meta=dict(part="tap"), note="a longitudinal regulator adds no angle")
                elif changer == "Ideal":
                    p.prove(f"{tag}:voltages-unchanged", z3.And(_x(vnh) == to_z(c["vn_hv_kv"]), _x(vnl) == to_z(c["vn_lv_kv"])), meta=dict(part="tap"))
                    p.prove(f"{tag}:shift", z3.And(z3.Not(nn(shift)), _x(shift) == base + z3.If(hv, 1, -1) * diff * deg), meta=dict(part="tap"),
                            note="theta = shift_degree +/- (tap_pos - tap_neutral) * tap_step_degree (hv: +, lv: -)")
                else:
                    p.prove(f"{tag}:no-tap-changer", z3.And(_x(vnh) == to_z(c["vn_hv_kv"]), _x(vnl) == to_z(c["vn_lv_kv"]), _x(shift) == base), meta=dict(part="tap"))
            vc.explore(f"_calc_tap_from_dataframe[{changer},{cva}]", h_tap, max_paths=600)

    # ---- T model -> pi equivalent ---------------------------------------------------------------------------------------------------
    def h_wd(p):
        sp = Space.get("trafo")
        f = lambda nm: Arr(sp, SV(z3.Function(f"t.{nm}", I, R)(sp.i)))
        r, x, g, b, rr, xr = (f(n) for n in ("r", "x", "g", "b", "r_ratio", "x_ratio"))
        r0, x0, g0, b0 = r.e, x.e, g.e, b.e
        p.assume(z3.Or(to_z(g0) != 0, to_z(b0) != 0))
        za = CV(arith("*", r0, rr.e), arith("*", x0, xr.e)); zb = CV(arith("*", r0, arith("-", 1, rr.e)), arith("*", x0, arith("-", 1, xr.e)))
        for zc_ in (za, zb):
            p.assume(z3.Or(to_z(zc_.re) != 0, to_z(zc_.im) != 0))
        ym = CV(g0, b0)
        s_ = carith("+", carith("+", carith("*", za, zb), carith("/", za, ym)), carith("/", zb, ym))
        p.assume(z3.Or(to_z(s_.re) != 0, to_z(s_.im) != 0))
        out = p.call(f"{BB}:_wye_delta", r, x, g, b, rr, xr)
        if out.raised:
            raise EngineError(f"_wye_delta raised {out.exc!r}")
        from pyvc.sigma import _under_mask
        tidx = z3.Or(to_z(g0) != 0, to_z(b0) != 0)
        r2, x2, g2, b2, ga, ba = (SV(z3.simplify(_under_mask(to_z(v.e, R), tidx))) for v in out.value)      # the conditionals on g, b are decided
        # two-port of the T circuit: Z11 = za + 1/ym, Z22 = zb + 1/ym, Z12 = 1/ym  ->  Y = Z^-1; pi: Yff = 1/zab + yf, Ytt = 1/zab + yt, Yft = -1/zab
        zab = CV(r2, x2)
        yf = carith("/", CV(g2, b2), 2); yt = carith("/", CV(arith("+", g2, ga), arith("+", b2, ba)), 2)
        zm = carith("/", 1, ym)
        Z11, Z22, Z12 = carith("+", za, zm), carith("+", zb, zm), zm
        det = carith("-", carith("*", Z11, Z22), carith("*", Z12, Z12))
        want = {"Yff": carith("/", Z22, det), "Ytt": carith("/", Z11, det), "Yft": carith("-", 0, carith("/", Z12, det))}
        got = {"Yff": carith("+", carith("/", 1, zab), yf), "Ytt": carith("+", carith("/", 1, zab), yt), "Yft": carith("-", 0, carith("/", 1, zab))}
        for nm in want:
            p.prove(f"wye-delta:{nm}.re", to_z(got[nm].re, R) == to_z(want[nm].re, R), kind="lemma", meta=dict(part="wye-delta"),
                    note="the pi equivalent written for the T model has the admittance matrix of the T circuit")
            p.prove(f"wye-delta:{nm}.im", to_z(got[nm].im, R) == to_z(want[nm].im, R), kind="lemma", meta=dict(part="wye-delta"))
    if getattr(vc, "tier", "quick") == "thorough":
        # six rational identities of degree 8: several minutes in the polynomial normaliser, run in the thorough tier only
        vc.explore("_wye_delta", h_wd, max_paths=20)
    else:
        vc.extra.setdefault("thorough_only", []).append("_wye_delta: T-model -> pi equivalence lemmas (6 obligations, ~20 min of normaliser time)")
