"""C15 -- parallel contingency analysis equals the sequential analysis.

Functions under contract: pandapower.contingency.contingency_parallel:_update_contingency_results_parallel (both call modes),
_run_single_contingency (worker), run_contingency_parallel (task list / aggregation order).

Decided as: "both aggregation steps implement the same step specification" (the specification of C14, which the sequential
_update_contingency_results is proved against), so every fold over the same case list gives the same accumulators:
  * parallel mode (values handed over from a worker, main net untouched): for a generic row j the step result equals the
    specification with  valid_j := in_service_j and not own_outage_j and not isnan(val_j)  -- the tripped element's own
    row must not enter min/max/cause, exactly as in the sequential analysis where it is out of service;
  * sequential mode of the same function (n_procs = 1): same specification.
  * the worker evaluates a *copy*: the caller's element table is not written (no in_service flag can leak into later
    cases of the same chunk or into the caller's net), on normal and on exceptional exit; the values it returns are the
    result columns of that copy.
  * tasks are built in the order of the sequential double loop and skip out-of-service elements; Pool.map preserves task
    order (assumed), failed cases are skipped in both modes -- "any completion order" therefore reduces to this one fold.
"""
from __future__ import annotations

import z3

from pyvc import netmodel, lib_np
from pyvc.values import SV, XV, PV, B, I, R, EngineError, to_z
from pyvc.containers import PDict
from pyvc.arrays import Table, Space, Arr
from pyvc.interp import Native, PyRaise
from contracts.C14 import step_harness, _mk_net, _eq_x, configure as _cfg14

PROP = "C15"
CP = "pandapower.contingency.contingency_parallel"
MIN_OBLIGATIONS = 30
NOT_DECIDED = ["not decided: multiprocessing.Pool.map preserves task order and pickles the net per chunk (assumed library contract)",
               "not decided: the per-case power flows (same function in both modes, A-PURE)",
               "not decided deductively (bounded native stand-in only): the task list of the parallel path (which cases, in which order: ties in the "
               "maxima go to the first case)"]


def configure(it):
    _cfg14(it)


def run(vc):
    vc.configure = configure
    vc.trust("the sequential _update_contingency_results satisfies the same step specification (proved under C14)",
             "multiprocessing.Pool.map returns results in task order; contingency_evaluation_function is pure (A-PURE)",
             "copy.copy(net) copies the mapping only, copy.deepcopy(table) shares nothing with the original (A-PANDAS)")
    vc.assume_std("A-REAL (extended by NaN)", "A-GENERIC", "A-NUMPY", "A-PANDAS", "A-PURE")
    rv = PDict({"bus": ["vm_pu"], "line": ["loading_percent"], "trafo": ["loading_percent"]})
    for parallel in (True, False):
        for first in (True, False):
            for cause_element in ("line", "trafo"):
                vc.explore(f"_update_contingency_results_parallel[{'parallel' if parallel else 'sequential'},{'first' if first else 'later'},{cause_element}]",
                           lambda p, first=first, cause_element=cause_element, parallel=parallel:
                           step_harness(p, f"{CP}:_update_contingency_results_parallel", rv, first, cause_element, parallel), max_paths=300)

    # N-0 mode
    def h0(p):
        net, cr = _mk_net(False)
        out = p.call(f"{CP}:_update_contingency_results_parallel", net, cr, rv, False)
        if out.raised:
            raise EngineError("raised")
        for el, var in (("bus", "vm_pu"), ("line", "loading_percent"), ("trafo", "loading_percent")):
            p.prove(f"n0[{el}]", _eq_x(cr.raw(el).raw(var).e, net.fields.raw(f"res_{el}").cols[var]), meta=dict(clause="n0"))
    vc.explore("_update_contingency_results_parallel[n0]", h0)
    for parallel in (False, True):
        vc.explore(f"_update_contingency_results_parallel[{'parallel' if parallel else 'sequential'},later,line,trafo without limit column]",
                   lambda p, parallel=parallel: step_harness(p, f"{CP}:_update_contingency_results_parallel", rv, False, "line", parallel,
                                                             no_limit=("trafo",)), max_paths=300)

    # worker: evaluates a copy, never writes the caller's tables
    for fails in (False, True):
        for raise_errors in (False, True):
            def hw(p, fails=fails, raise_errors=raise_errors):
                p.fn(f"{CP}:_run_single_contingency")
                net, _ = _mk_net(True)
                t = net.fields.raw("line")
                before = dict(t.cols)
                seen = {}

                def evaluate(it, n, **kw):
                    lt = n.fields.raw("line")
                    seen["in_service"] = lt.cols["in_service"]
                    seen["same_table"] = lt is t
                    if fails:
                        raise PyRaise(RuntimeError("power flow did not converge"))
                i = SV(z3.Int("case_index"))
                out = p.call(f"{CP}:_run_single_contingency", ("line", i), net, PDict(), rv, Native(evaluate, pure=False, name="evaluate"), raise_errors)
                tag = f"fails={fails},raise_errors={raise_errors}"
                now = net.fields.raw("line")
                p.prove(f"worker:caller-table-untouched[{tag}]", now is t and all(now.cols[c] is before[c] or z3.eq(to_z(now.cols[c]), to_z(before[c])) for c in before),
                        note="the worker leaves the caller's element table as it found it (normal and exceptional exit)",
                        meta=dict(clause="worker"))
                if "in_service" not in seen:
                    raise EngineError("evaluation function was not called")
                ins = to_z(seen["in_service"])
                own = to_z(t.index_e, I) == i.z
                p.prove(f"worker:outage-applied-to-copy[{tag}]", ins == z3.And(to_z(before["in_service"]), z3.Not(own)),
                        note="the evaluated net has exactly the tripped element switched off", meta=dict(clause="worker"))
                if fails and raise_errors:
                    p.prove(f"worker:reraises[{tag}]", out.raised, meta=dict(clause="worker"))
                elif fails:
                    p.prove(f"worker:reports-failure[{tag}]", (not out.raised) and out.value.raw("success") is False, meta=dict(clause="worker"))
                else:
                    ok = (not out.raised) and out.value.raw("success") is True
                    p.prove(f"worker:reports-success[{tag}]", ok, meta=dict(clause="worker"))
                    if ok:
                        vals = out.value.raw("res_vals")
                        for el, var in (("bus", "vm_pu"), ("line", "loading_percent"), ("trafo", "loading_percent")):
                            got = vals.raw(el).raw(var)
                            p.prove(f"worker:returns-result-columns[{el}]", _eq_x(got.e, net.fields.raw(f"res_{el}").cols[var]),
                                    meta=dict(clause="worker"))
            vc.explore(f"_run_single_contingency[fails={fails},raise_errors={raise_errors}]", hw, max_paths=20)

    if not hasattr(vc, "native_standins"):
        vc.native_standins = []
    vc.native_standins.append(dict(
        name="run_contingency_parallel against run_contingency on fixed networks",
        bound="case9, case14, a ring with a parallel line, a network of double circuits with an unsorted line index (exact ties in the N-1 "
              "maxima, cases given in table order); n_procs in 1..3; every key and value of the result dictionaries incl. cause_element / "
              "cause_index (the task list of the parallel path -- which cases, in which order -- is not under a deductive contract)",
        script="from replaylib import run_all\nfrom replaylib.contingency import main_parallel, main_parallel_options\nrun_all(main_parallel, main_parallel_options)\n", timeout=1800))


def classify(ob, model):
    return ob.meta.get("clause", ob.meta.get("label", ob.id).split("[")[0])


def replay(ob, model, finding=None):
    if ob.meta.get("clause") == "worker":
        return {"script": f"# replay of {ob.id}\n# oracle (C15): the worker evaluates a copy and leaves the net it was given unchanged\n"
                          "from replaylib.contingency import main_worker\nmain_worker()\n",
                "description": "real _run_single_contingency with converging / failing evaluation: caller's net unchanged"}
    script = f"""# replay of {ob.id}
# oracle (C15): run_contingency_parallel for n_procs in 1..3 equals run_contingency (all keys, all values)
from replaylib.contingency import main_parallel
main_parallel()
"""
    return {"script": script, "description": "parallel vs sequential contingency analysis on meshed test networks"}
