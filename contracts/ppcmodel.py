"""Shared harness helpers: symbolic ppc matrices with row segments, lookups, element tables."""
from __future__ import annotations

import z3

from pyvc import netmodel, lib_np
from pyvc.values import SV, CV, XV, PV, B, I, R, to_z, EngineError
from pyvc.containers import PDict
from pyvc.arrays import Table, Mat, Space, Arr, SegBound
from pyvc.vc import consts

BRANCH_SEGMENTS = ["line", "trafo", "trafo3w_hv", "trafo3w_mv", "trafo3w_lv", "impedance", "xward", "switch"]


def configure(it):
    netmodel.install(it)
    lib_np.install(it)


def seg_space(seg):
    if seg.startswith("trafo3w"):
        return Space.get("trafo3w")
    return Space.get(seg)


def branch_mat(name="ppcbranch", complex_cols=()):
    """ppc['branch'] with one row segment per element table (trafo3w: three segments over the trafo3w rows)"""
    m = Mat(name, {s: seg_space(s) for s in BRANCH_SEGMENTS})
    return m


def branch_bounds():
    """boundary tokens: b[k] ends segment k-1 and starts segment k"""
    segs = BRANCH_SEGMENTS
    bs = []
    for k in range(len(segs) + 1):
        bs.append(SegBound(None, before=segs[k - 1] if k > 0 else None, after=segs[k] if k < len(segs) else None))
    return bs


def branch_lookup():
    bs = branch_bounds()
    idx = {s: k for k, s in enumerate(BRANCH_SEGMENTS)}
    lk = PDict()
    for el in ("line", "trafo", "impedance", "xward", "switch"):
        lk.set(el, (bs[idx[el]], bs[idx[el] + 1]))
    lk.set("trafo3w", (bs[idx["trafo3w_hv"]], bs[idx["trafo3w_lv"] + 1]))
    return lk, bs, idx


def trafo3w_lookups_summary(it):
    """_get_trafo3w_lookups: the trafo3w part of ppc['branch'] consists of three equally long blocks hv | mv | lv"""
    lk, bs, idx = branch_lookup()

    def f(it, net):
        return bs[idx["trafo3w_hv"]], bs[idx["trafo3w_mv"]], bs[idx["trafo3w_lv"]], bs[idx["trafo3w_lv"] + 1]
    f._pure = True
    it.summaries["pandapower.results_branch:_get_trafo3w_lookups"] = f


def bus_mat(name="ppcbus"):
    return Mat(name, {"all": Space.get("ppcbus")})


def colfun(mat, seg, col, sort=R):
    """explicit symbolic content of a ppc column on a segment: F(i)"""
    f = z3.Function(f"{mat.name}[{seg},{col}]", I, sort)
    e = SV(f(mat.segments[seg].i))
    mat.cols[(seg, col)] = e
    return e


def table(name, cols, space=None):
    t = Table(name, space=space)
    for c, sort in cols.items():
        if isinstance(sort, str) and sort == "nan":
            f = z3.Function(f"{name}.{c}", I, R)
            n = z3.Function(f"{name}.{c}.isnan", I, B)
            t.cols[c] = XV(SV(f(t.space.i)), n(t.space.i))
        else:
            t.add_col(c, sort)
    return t


def result_table(name, space, cols):
    t = Table(name, space=space)
    for c in cols:
        t.add_col(c, R)
    return t
