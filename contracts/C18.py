"""C18 -- short circuit: kappa range and the provenance of the network matrices (independence of the inverse_y option).

Functions under contract (real text): pandapower.shortcircuit.kappa:_kappa, _kappa_method_c; pandapower.shortcircuit.impedance:_calc_rx
(which matrix it reads).

  * _kappa(rx) = 1.02 + 0.98 exp(-3 rx) lies in (1.02, 2] for every R/X >= 0 (generic bus);
  * contract of _calc_rx(net, ppci, bus_idx): it reads ppci['internal']['Zbus'] when inverse_y else ppci['internal']['ybus_fact'] (shown on
    its real text with a read log) and *requires* that matrix to be the inverse / the factorisation of ppci['internal']['Ybus'] of the very
    same ppci -- so that both options describe the same network and the result cannot depend on inverse_y;
  * _kappa_method_c establishes that precondition for the equivalent-frequency copy ppc_c it passes to _calc_rx, for inverse_y True and
    False (matrix provenance tracked by tokens: Ybus(ppc) --inv--> Zbus, --factorized--> ybus_fact).
"""
from __future__ import annotations

import z3

from pyvc.values import SV, CV, XV, PV, B, I, R, EngineError, to_z, real, Opaque
from pyvc.containers import PDict
from pyvc.arrays import Space, Arr
from pyvc.interp import Native, PyRaise
from pyvc import netmodel
from contracts import ppcmodel as pm

PROP = "C18"
MIN_OBLIGATIONS = 8
KP = "pandapower.shortcircuit.kappa"
IM = "pandapower.shortcircuit.impedance"
NOT_DECIDED = ["not decided: ikss = c Un / (sqrt(3) |Zk|), skss, the 2ph / 3ph ratio, ip = kappa sqrt(2) ikss (2-D complex array code of "
               "currents.py outside the generic-index fragment), independence of net.sn_mva and of the set of faulted buses, the Thevenin "
               "impedance against an independent network model, kappa method B (graph search)"]


def configure(it):
    pm.configure(it)
    it.lenient_numpy = True


class Tok:
    """a network matrix with its provenance"""
    opaque_like = False

    def __init__(self, kind, src):
        self.kind, self.src = kind, src

    def __repr__(self):
        src = self.src
        return f"<{self.kind} of {src!r}>" if isinstance(src, Tok) else f"<{self.kind} of ppc#{id(src) % 10000}>"


def tok_attr(it, t, name):
    if name in ("tocsc", "tocsr", "toarray", "copy"):
        return Native(lambda it: t, name=name)          # format conversions keep the matrix
    return Opaque(f"{t.kind}.{name}")


def _install(p, log):
    it = p.it
    it.attr_hooks.append((Tok, tok_attr))

    def calc_ybus(it, ppci):
        ppci.raw("internal").set("Ybus", Tok("Ybus", ppci))
    def calc_zbus(it, net, ppci):
        ppci.raw("internal").set("Zbus", Tok("inv", ppci.raw("internal").raw("Ybus")))
    for m in (KP,):
        me = it.modenv(m)
        me.vals["_calc_ybus"] = Native(calc_ybus, name="_calc_ybus", pure=False)
        me.vals["_calc_zbus"] = Native(calc_zbus, name="_calc_zbus", pure=False)
        me.vals["factorized"] = Native(lambda it, m_: Tok("fact", m_), name="factorized")

        def calc_rx(it, net, ppci, idx):
            inv = net.fields.raw("_options").raw("inverse_y")
            internal = ppci.raw("internal")
            key = "Zbus" if inv else "ybus_fact"
            m_ = internal.raw(key) if internal.presence(key) is True else None
            log.append(dict(ppci=ppci, inverse_y=inv, matrix=m_))
        me.vals["_calc_rx"] = Native(calc_rx, name="_calc_rx", pure=False)


def run(vc):
    vc.configure = configure
    vc.trust("scipy: inv / factorized of a matrix are its inverse / LU factorisation; makeYbus builds Ybus of the ppc it is given (C02 two-port)",
             "exp is positive and at most 1 for non-positive arguments")
    vc.assume_std("A-REAL", "A-GENERIC")

    def h_kappa(p):
        sp = Space.get("scbus")
        rx = Arr(sp, SV(z3.Function("rx", I, R)(sp.i)))
        p.assume(to_z(rx.e) >= 0)
        out = p.call(f"{KP}:_kappa", rx)
        if out.raised:
            raise EngineError(f"_kappa raised {out.exc!r}")
        k = to_z(out.value.e, R)
        p.prove("kappa:range", z3.And(k > 1.02, k <= 2), note="1.02 < kappa <= 2 for every R/X >= 0")
    vc.explore("_kappa", h_kappa, max_paths=4)

    for inv in (True, False):
        def h_c(p, inv=inv):
            log = []
            _install(p, log)
            ppc = PDict({"bus": Opaque("bus"), "branch": Opaque("branch"), "internal": PDict(), "baseMVA": 1.0})
            ppc.raw("internal").set("Ybus", Tok("Ybus", ppc))          # the nominal-frequency matrix of the caller
            net = netmodel.Net({"_options": PDict({"inverse_y": inv}), "f_hz": 50}, strict=True)
            out = p.call(f"{KP}:_kappa_method_c", net, ppc)
            if out.raised:
                raise EngineError(f"_kappa_method_c raised {out.exc!r}")
            tag = f"method_c[inverse_y={inv}]"
            p.prove(f"{tag}:one-impedance-evaluation", len(log) == 1, meta=dict(part="provenance"))
            if log:
                e = log[0]
                m, cp = e["matrix"], e["ppci"]
                p.prove(f"{tag}:evaluated-on-the-equivalent-frequency-copy", cp is not ppc, meta=dict(part="provenance"),
                        note="R/X at the equivalent frequency is computed on the modified copy, the caller's ppc stays as it is")
                ok = isinstance(m, Tok) and m.kind == ("inv" if inv else "fact") and isinstance(m.src, Tok) and m.src.kind == "Ybus" and m.src.src is cp
                p.prove(f"{tag}:matrix-belongs-to-the-evaluated-ppc", ok, meta=dict(part="provenance"),
                        note=f"precondition of _calc_rx: the {'inverse' if inv else 'factorisation'} it reads is that of Ybus of the ppc it is given; found {m!r}")
        vc.explore(f"_kappa_method_c[inverse_y={inv}]", h_c, max_paths=20)

    for inv in (True, False):
        def h_rx(p, inv=inv):
            reads = []

            class TD(PDict):
                def raw(self, k):
                    reads.append(k)
                    return PDict.raw(self, k)
            internal = TD({"Zbus": Opaque("Zbus"), "ybus_fact": Opaque("ybus_fact"), "Ybus": Opaque("Ybus")})
            ppci = PDict({"bus": Opaque("bus"), "internal": internal, "baseMVA": 1.0})
            net = netmodel.Net({"_options": PDict({"inverse_y": inv, "r_fault_ohm": 0.0, "x_fault_ohm": 0.0})}, strict=True)
            me = p.it.modenv(IM)
            me.vals["_calc_zbus_diag"] = Native(lambda it, net_, ppci_, idx=None: (ppci_.raw("internal").raw("ybus_fact"), Opaque("diagZ"))[1],
                                                name="_calc_zbus_diag")
            out = p.call(f"{IM}:_calc_rx", net, ppci, Opaque("bus_idx"))
            if out.raised:
                raise EngineError(f"_calc_rx raised {out.exc!r}")
            used = set(reads) & {"Zbus", "ybus_fact"}
            p.prove(f"_calc_rx[inverse_y={inv}]:reads-the-matrix-of-its-option", used == ({"Zbus"} if inv else {"ybus_fact"}), meta=dict(part="reads"),
                    note=f"reads {sorted(used)}")
        vc.explore(f"_calc_rx[inverse_y={inv}]", h_rx, max_paths=10)


    from contracts import C18_extgrid
    C18_extgrid.run(vc)
    C18_extgrid.run_sgen(vc)

    if not hasattr(vc, "native_standins"):
        vc.native_standins = []
    vc.native_standins.append(dict(
        name="IEC 60909 relations on a fixed meshed network",
        bound="one 110/20 kV network with a 6-line mesh; faults 3ph / 2ph, cases max / min, inverse_y True / False, kappa method C: ikss = c Un / "
              "(sqrt(3) |Zk|), skss = sqrt(3) Un ikss, 2ph = sqrt(3)/2 3ph, kappa in [1.02, 2], results independent of inverse_y",
        script="from replaylib.shortcircuit import main\nmain()\n"))
    vc.native_standins.append(dict(
        name="several sources at one node",
        bound="fixed networks: two different synchronous generators at one bus (both orders in net.gen, and on two buses fused by a bus-bus "
              "switch); an asynchronous / doubly-fed sgen at the bus of a network feeder; two network feeders at one node: ikss at that node; peak current with kappa method B for net.sn_mva = 1 / 10 / 100",
        script="import subprocess, sys\nr = [subprocess.run([sys.executable, '-W', 'ignore', '-c', f'from replaylib.shortcircuit import {f}; {f}()']).returncode "
               "for f in ('main_gens_at_one_bus', 'main_sgen', 'main_feeders', 'main_kappa_b')]\nsys.exit(1 if 1 in r else max(r))\n"))


def classify(ob, model):
    return ob.meta.get("part", "kappa")


def replay(ob, model, finding=None):
    if ob.meta.get("part") == "sgen-sc":
        return {"script": f"# replay of {ob.id}\nfrom replaylib.shortcircuit import main_sgen\nmain_sgen()\n",
                "description": "calc_sc with an asynchronous / doubly-fed sgen at the bus of a network feeder: ikss against the feeder alone plus the sgen"}
    if ob.meta.get("part", "").startswith("ext_grid-sc"):
        return {"script": f"# replay of {ob.id}\nfrom replaylib.shortcircuit import main_feeders\nmain_feeders()\n",
                "description": "calc_sc with two network feeders on one node (same bus / fused buses), cases max and min, inverse_y True / False: "
                               "ikss against hand-computed parallel IEC feeder impedances"}
    return {"script": f"# replay of {ob.id}\nfrom replaylib.shortcircuit import main\nmain()\n",
            "description": "calc_sc on a meshed network: kappa in [1.02, 2], ip = kappa sqrt(2) ikss, results independent of inverse_y (3ph / 2ph, "
                           "min / max)"}
