"""C33 -- DER controller setpoints stay within the declared capability.

Functions under contract (pandapower.control.controller.DERController.der_control):
    DERController._saturate, DERController._saturate_sn_mva_step, DERController._determine_target_powers,
    DERController.control_step;  PQVAreas:BaseArea.in_area, BasePQVArea.q_flexibility (interval merge).

Obligations, generic controlled element (any number of elements, any p/q/vm/ratings):
  * after _saturate with saturation active:  p'^2 + q'^2 <= (saturate_sn_mva/sn_mva)^2 and p' >= 0  -- whatever PQV area
    is configured as well (the apparent-power limit is the outer limit) -- for both priority modes; the argument of
    every sqrt is non-negative; elements that were inside the limit and inside the area are unchanged.
  * after _saturate with only a PQV area (saturation inactive):  q_min <= q' <= q_max with
    [q_min, q_max] = area.q_flexibility(p, vm) evaluated at the element's own p and vm; p unchanged.
  * _determine_target_powers with damping_coef = 1: target_p = p'*sn_mva, target_q = q'*sn_mva (so the bounds
    carry over to net.sgen through control_step / write_to_net); BaseArea.in_area <=> q inside q_flexibility.
The PQV area is an object obeying the BaseArea protocol (assumed contract): q_flexibility returns, per element, an
interval with q_min <= q_max that depends only on that element's p and vm.
"""
from __future__ import annotations

import z3

from pyvc import netmodel, lib_np
from pyvc.values import SV, PV, B, I, R, EngineError, to_z, real, arith, compare, logic, ite
from pyvc.containers import PDict
from pyvc.arrays import Table, Space, Arr, Cols
from pyvc.interp import Native, PyRaise, ObjVal

PROP = "C33"
DER = "pandapower.control.controller.DERController.der_control"
AREAS = "pandapower.control.controller.DERController.PQVAreas"
MIN_OBLIGATIONS = 20
NOT_DECIDED = ["not decided: shapely polygon areas (contains => inside the vertical chord) and the concrete VDE area tables",
               "not decided: damping_coef > 1 (convex combination with the previous point)",
               "not decided: Q models (they only provide the unsaturated q)"]


def configure(it):
    netmodel.install(it)
    lib_np.install(it)


F_qmin = z3.Function("area_q_min", R, R, R)
F_qmax = z3.Function("area_q_max", R, R, R)


def _area(it):
    """an object obeying the BaseArea protocol"""
    def q_flex(it, p_pu=None, vm_pu=None, **k):
        p_pu, vm_pu = _a(p_pu), _a(vm_pu)
        lo = Arr(p_pu.space, SV(F_qmin(to_z(p_pu.e, R), to_z(vm_pu.e, R))), p_pu.mask)
        hi = Arr(p_pu.space, SV(F_qmax(to_z(p_pu.e, R), to_z(vm_pu.e, R))), p_pu.mask)
        it.ctx.facts.append(F_qmin(to_z(p_pu.e, R), to_z(vm_pu.e, R)) <= F_qmax(to_z(p_pu.e, R), to_z(vm_pu.e, R)))
        return Cols([lo, hi])

    def in_area(it, p_pu, q_pu, vm_pu):
        p_pu, q_pu, vm_pu = _a(p_pu), _a(q_pu), _a(vm_pu)
        lo, hi = F_qmin(to_z(p_pu.e, R), to_z(vm_pu.e, R)), F_qmax(to_z(p_pu.e, R), to_z(vm_pu.e, R))
        return Arr(p_pu.space, SV(z3.And(lo <= to_z(q_pu.e, R), to_z(q_pu.e, R) <= hi)), p_pu.mask)
    return ObjVal(None, {"q_flexibility": Native(q_flex, name="area.q_flexibility"), "in_area": Native(in_area, name="area.in_area")})


def _a(x):
    from pyvc.arrays import Series
    return x.arr() if isinstance(x, Series) else x


def _inputs():
    sp = Space.get("sgen_ctrl")
    p0 = SV(z3.Function("p_pu", I, R)(sp.i)); q0 = SV(z3.Function("q_pu", I, R)(sp.i)); vm = SV(z3.Function("vm_pu", I, R)(sp.i))
    sat = SV(z3.Function("saturate_sn_mva", I, R)(sp.i)); sn = SV(z3.Function("sn_mva", I, R)(sp.i))
    return sp, p0, q0, vm, sat, sn


def run(vc):
    vc.configure = configure
    vc.trust("PQV area objects obey the BaseArea protocol: q_flexibility(p, vm) is an interval q_min <= q_max per element, "
             "in_area <=> q within it (BaseArea.in_area is proved to be that; concrete areas are assumed)",
             "numpy element-wise semantics of clip / minimum / maximum / sqrt / sign / boolean-mask stores (A-NUMPY)")
    vc.assume_std("A-REAL", "A-GENERIC", "A-NUMPY")
    # one non-linear inequality (apparent power limit with a PQV area, p priority) is decided by cvc5 only: give it head-room so that
    # the verdict does not flip when all cores are busy
    vc.cvc5_timeout_s = max(vc.cvc5_timeout_s, 240)

    for with_area in (False, True):
        for sat_active in (True, False):
            for q_prio in (True, False):
                if not with_area and not sat_active:
                    continue
                if not sat_active and not q_prio:
                    continue
                def h(p, with_area=with_area, sat_active=sat_active, q_prio=q_prio):
                    cls = p.fn(f"{DER}:DERController")
                    p.fn(f"{DER}:DERController._saturate"); p.fn(f"{DER}:DERController._saturate_sn_mva_step")
                    sp, p0, q0, vm, sat, sn = _inputs()
                    p.assume(compare(">", sn, 0)); p.assume(compare(">", sat, 0)); p.assume(compare(">=", p0, 0))
                    dev = ObjVal(cls, {"pqv_area": _area(p.it) if with_area else None, "saturate_sn_mva_activated": sat_active,
                                       "saturate_sn_mva": Arr(sp, sat), "sn_mva": Arr(sp, sn), "q_prio": q_prio})
                    P, Q, V = Arr(sp, p0), Arr(sp, q0), Arr(sp, vm)
                    out = p.call(f"{DER}:DERController._saturate", dev, P, Q, V)
                    if out.raised:
                        raise EngineError(f"_saturate raised {out.exc!r}")
                    P2, Q2 = out.value
                    p2, q2 = to_z(P2.e, R), to_z(Q2.e, R)
                    tag = f"area={with_area},sat={sat_active},q_prio={q_prio}"
                    if sat_active:
                        s = to_z(arith("/", sat, sn), R)
                        p.prove(f"apparent-power-limit[{tag}]", p2 * p2 + q2 * q2 <= s * s,
                                note="S <= saturate_sn_mva after the saturation step, regardless of the PQV area",
                                watch={"p": p0.z, "q": q0.z, "vm": vm.z, "sat_pu": s, "p_out": p2, "q_out": q2},
                                meta=dict(case=tag))
                        p.prove(f"p-nonnegative[{tag}]", p2 >= 0, meta=dict(case=tag))
                        inside = z3.And(p0.z * p0.z + q0.z * q0.z <= s * s)
                        if not with_area:
                            p.prove(f"unsaturated-unchanged[{tag}]", z3.Implies(inside, z3.And(p2 == p0.z, q2 == q0.z)), meta=dict(case=tag))
                    else:
                        lo, hi = F_qmin(p0.z, vm.z), F_qmax(p0.z, vm.z)
                        p.prove(f"q-within-area-flexibility[{tag}]", z3.And(lo <= q2, q2 <= hi),
                                note="only a PQV area applies: q inside the area's flexibility at the element's p and vm",
                                watch={"p": p0.z, "q": q0.z, "vm": vm.z, "q_out": q2, "qmin": lo, "qmax": hi}, meta=dict(case=tag))
                        p.prove(f"p-unchanged[{tag}]", p2 == p0.z, meta=dict(case=tag))
                    p.cover(f"path[{tag}]", True)
                vc.explore(f"_saturate[area={with_area},sat={sat_active},q_prio={q_prio}]", h, max_paths=60)

    # sqrt arguments of the saturation step are non-negative (no NaN is produced)
    sqrt_seen = {}
    for q_prio in (True, False):
        def h2(p, q_prio=q_prio):
            cls = p.fn(f"{DER}:DERController")
            sp, p0, q0, vm, sat, sn = _inputs()
            p.assume(compare(">", sn, 0)); p.assume(compare(">", sat, 0)); p.assume(compare(">=", p0, 0))
            dev = ObjVal(cls, {"pqv_area": None, "saturate_sn_mva_activated": True, "saturate_sn_mva": Arr(sp, sat),
                               "sn_mva": Arr(sp, sn), "q_prio": q_prio})
            out = p.call(f"{DER}:DERController._saturate_sn_mva_step", dev, Arr(sp, p0), Arr(sp, q0), Arr(sp, vm))
            if out.raised:
                raise EngineError("raised")
            from pyvc.values import AX
            n = 0
            for f in AX.facts:
                # facts have the form  t >= 0 -> (s >= 0 and s*s == t)
                if z3.is_implies(f) and "sqrt" in f.sexpr():
                    arg_ok = f.arg(0)
                    mask = (p0.z * p0.z + q0.z * q0.z > to_z(arith("/", sat, sn), R) * to_z(arith("/", sat, sn), R))
                    p.prove(f"sqrt-argument-nonnegative[q_prio={q_prio}]#{n}", z3.Implies(mask, arg_ok),
                            note="radicand of the saturation step is >= 0 on the rows it is applied to")
                    n += 1
            sqrt_seen[q_prio] = sqrt_seen.get(q_prio, 0) + n
        vc.explore(f"_saturate_sn_mva_step:sqrt[q_prio={q_prio}]", h2, max_paths=20)
        if not sqrt_seen.get(q_prio):
            vc.errors.append("no sqrt found on any path of _saturate_sn_mva_step: contract needs revision")

    # BaseArea.in_area is "q within q_flexibility"
    def h3(p):
        cls = p.fn(f"{AREAS}:BaseArea")
        p.fn(f"{AREAS}:BaseArea.in_area")
        sp, p0, q0, vm, sat, sn = _inputs()
        area = _area(p.it)
        dev = ObjVal(cls, {"q_flexibility": area.attrs["q_flexibility"]})
        out = p.call(f"{AREAS}:BaseArea.in_area", dev, Arr(sp, p0), Arr(sp, q0), Arr(sp, vm))
        if out.raised:
            raise EngineError("raised")
        lo, hi = F_qmin(p0.z, vm.z), F_qmax(p0.z, vm.z)
        p.prove("in_area-definition", to_z(out.value.e) == z3.And(lo <= q0.z, q0.z <= hi))
    vc.explore("BaseArea.in_area", h3)

    # target powers (damping_coef == 1)
    def h4(p):
        cls = p.fn(f"{DER}:DERController")
        p.fn(f"{DER}:DERController._determine_target_powers")
        sp, p0, q0, vm, sat, sn = _inputs()
        p.assume(compare(">", sn, 0)); p.assume(compare(">", sat, 0)); p.assume(compare(">=", p0, 0))
        res_bus = Table("res_bus"); res_bus.add_col("vm_pu", R)
        net = netmodel.Net({"res_bus": res_bus}, strict=True)
        pser = Arr(sp, arith("*", p0, sn)); qser = Arr(sp, arith("*", q0, sn))
        dev = ObjVal(cls, {"pqv_area": None, "saturate_sn_mva_activated": True, "saturate_sn_mva": Arr(sp, sat),
                           "sn_mva": Arr(sp, sn), "q_prio": True, "q_model": None, "damping_coef": 1,
                           "p_series_mw": pser, "q_series_mw": qser, "p_mw": Arr(sp, real("p_old")), "q_mvar": Arr(sp, real("q_old")),
                           "bus": Arr(sp, SV(z3.Function("sgen_bus", I, I)(sp.i))), "element_index": Arr(sp, SV(z3.Function("sgen_index", I, I)(sp.i)))})
        out = p.call(f"{DER}:DERController._determine_target_powers", dev, net)
        if out.raised:
            raise EngineError(f"_determine_target_powers raised {out.exc!r}")
        tp, tq = to_z(dev.attrs["target_p_mw"].e, R), to_z(dev.attrs["target_q_mvar"].e, R)
        p.prove("target-within-saturate_sn_mva", tp * tp + tq * tq <= sat.z * sat.z,
                note="with damping_coef = 1 the written setpoint satisfies p^2 + q^2 <= saturate_sn_mva^2")
    vc.explore("_determine_target_powers", h4, max_paths=60)
    _standins(vc)


def _standins(vc):
    if not hasattr(vc, "native_standins"):
        vc.native_standins = []
    vc.native_standins.append(dict(
        name="the real DERController on grids of operating points and all built-in PQV areas",
        bound="13 x 13 x 13 grid of p / q / vm for every built-in PQV area, saturation 1.0 / 0.75 p.u. / none, both priorities (_saturate); 7 "
              "controller runs with integer and float constant-Q models (PQVArea4120V2, machine arithmetic of the in-place writes); the Q(V) "
              "characteristics of the built-in areas at their own break points",
        script="import sys\nfrom replaylib.der import main, main_more\n"
               "from replaylib import run_all\nrun_all(main, main_more)\n",
        timeout=1200))


def classify(ob, model):
    return ob.meta.get("label", ob.id).split("[")[0]


def replay(ob, model, finding=None):
    script = f"""# replay of {ob.id}
# oracle (C33): after a DERController step S <= saturate_sn_mva (when set) and, with only a PQV area, q within its flexibility
from replaylib.der import main
main()
"""
    return {"script": script, "description": "DERController sweeps over areas, voltages, p levels and priority modes"}
