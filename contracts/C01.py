"""C01 -- nodal power balance: the parts of the result / build code that aggregate several elements at one bus.

Functions under contract (real text): pandapower.pypower.pfsoln:_split_p_for_gens_at_same_bus (slack power of a reference bus shared
by several machines), pandapower.build_bus:_calc_pq_elements_and_add_on_ppc (ZIP coefficients of a bus with several loads).

Sums over the (arbitrarily many) machines / loads at one bus are linear functionals (pyvc.sigma): an obligation proved holds for
every population.
  * slack bus: after _split_p_for_gens_at_same_bus the active powers of all machines at the bus add up to the bus power p_bus
    (= network injection + local load) for every number of reference machines and PV gens, any slack weights (positive sum or not);
  * ZIP loads: the voltage dependent bus load PD*(cp + ci*v + cz*v^2) built for a bus equals the sum of its loads' own ZIP terms for
    every voltage v iff  PD * CID = sum p_l * ci_l  and  PD * CZD = sum p_l * cz_l  (same for q): obligation on the coefficients the
    real code writes. (The pinned code wrote the unweighted mean of the loads' percentages: repaired, see known_findings.json.)

Added later (same module):
  * _get_numba_functions establishes the precondition of the fast result routine pf_solution_single_slack (one machine, constant-power loads,
    no distributed slack, GS == BS == 0 at every bus) whenever it selects it (run_pfsoln_choice; also run under C02 and C03);
  * _update_q / _update_p add the load of the machine's bus *at the solved voltage* (ZIP law) to the network injection (run_local_load);
  * PD / QD of a node are the sums over the loads, sgens and storages whose bus maps to the node -- node-indexed contract of _sum_by_group
    (contracts/groupsum.py), fused buses included (h_busload);
  * known findings: the ZIP coefficients scale everything summed into PD and are kept per pandapower bus (F_ZIP_ALL, F_ZIP_NODE), res_bus omits
    dcline terminals (F_DCLINE, found by the bounded native stand-in replaylib.nodal.main_elements).
"""
from __future__ import annotations

import z3

from pyvc.values import SV, CV, XV, PV, B, I, R, EngineError, to_z, real, Opaque
from pyvc.containers import PDict
from pyvc.arrays import Table, Mat, Space, Arr, subst, truth_z
from pyvc.interp import Native
from pyvc.vc import consts
from pyvc.sigma import sigma
from pyvc import netmodel
from contracts import ppcmodel as pm

PROP = "C01"
F_ZIP_ALL = "C01/zip-coefficients-scale-all-elements-of-the-bus"
F_ZIP_NODE = "C01/zip-coefficients-per-bus-not-per-node"


def _excl(fid):
    return lambda ob: True if ob.meta.get("finding") == fid else None


KNOWN_EXCLUSIONS = {F_ZIP_ALL: _excl(F_ZIP_ALL), F_ZIP_NODE: _excl(F_ZIP_NODE)}
MIN_OBLIGATIONS = 4
NOT_DECIDED = ["not decided: the nodal balance at ordinary buses (sum of all element results per bus against the branch flows: _sum_by_group, "
               "_get_p_q_results, the Newton mismatch), reactive power split (_update_q), DC power flow slack (C03), dcline terminals, FACTS"]
def configure(it):
    pm.configure(it)
    it.generic_loops = True


def run(vc):
    vc.configure = configure
    vc.trust("finite sums are linear (pyvc.sigma); intersect1d / setdiff1d split the machines at a bus into reference machines and the others")
    vc.assume_std("A-REAL", "A-GENERIC", "A-SUM")
    ig = consts("pandapower.pypower.idx_gen")
    PS = "pandapower.pypower.pfsoln"

    def h_split(p):
        gsp = Space.get("ppcgen")
        gen = Mat("gen", {"all": gsp})
        pm.colfun(gen, "all", ig.PG, R); pm.colfun(gen, "all", ig.SL_FAC, R)
        esp, vsp, asp = Space.get("ext"), Space.get("pv"), Space.get("gab")
        ext = Arr(esp, SV(z3.Function("ext_idx", I, I)(esp.i)))
        pv = Arr(vsp, SV(z3.Function("pv_idx", I, I)(vsp.i)))
        gab = Arr(asp, SV(z3.Function("gab_idx", I, I)(asp.i)))
        p.assume(z3.And(asp.n == esp.n + vsp.n, esp.n >= 1, vsp.n >= 0))
        me = p.it.modenv(PS)
        me.vals["intersect1d"] = Native(lambda it, a, b: ext, name="intersect1d")
        me.vals["setdiff1d"] = Native(lambda it, a, b: pv, name="setdiff1d")
        p_bus = real("p_bus")
        pg_ext0 = Arr(esp, subst(gen.get("all", ig.PG), gsp.i, to_z(ext.e, I)))
        pg_pv0 = Arr(vsp, subst(gen.get("all", ig.PG), gsp.i, to_z(pv.e, I)))
        out = p.call(f"{PS}:_split_p_for_gens_at_same_bus", gen, p_bus, gab, Opaque("ref_gens"))
        if out.raised:
            raise EngineError(f"_split_p_for_gens_at_same_bus raised {out.exc!r}")
        many = asp.n > 1
        # several machines: reference machines get new PG, the others keep theirs
        new_ext = Arr(esp, gen.row_of(esp, ext.e, ig.PG, p.it))
        total = to_z(sigma(p.it, new_ext), R) + to_z(sigma(p.it, pg_pv0), R)
        p.prove("slack-bus:machine-powers-add-up-to-the-bus-power", z3.Implies(many, total == to_z(p_bus, R)), meta=dict(part="slack"),
                note="sum of PG over all machines at the reference bus == p_bus (network injection + local load)")
        one = gen.row_of(asp, SV(z3.substitute(to_z(gab.e, I), (asp.i, z3.IntVal(0)))), ig.PG, p.it)
        p.prove("slack-bus:single-machine", z3.Implies(z3.Not(many), to_z(one, R) == to_z(p_bus, R)), meta=dict(part="slack"))
    vc.explore("_split_p_for_gens_at_same_bus", h_split, max_paths=40)


    # ---- ZIP coefficients of a bus with several loads --------------------------------------------------------------------------
    iu = consts("pandapower.pypower.idx_bus")
    BBU = "pandapower.build_bus"

    def h_zip(p):
        cols = {"bus": I, "p_mw": R, "q_mvar": R, "scaling": R, "const_z_p_percent": R, "const_i_p_percent": R, "const_z_q_percent": R,
                "const_i_q_percent": R}
        load = pm.table("load", cols)
        sp = load.space
        p.assume(sp.n > 0)
        act = SV(z3.Function("is_load", I, B)(sp.i))
        empties = {}
        for n in ("motor", "storage", "ward", "xward", "asymmetric_load", "asymmetric_sgen", "load_dc"):
            empties[n] = pm.table(n, {"bus": I})
            p.assume(empties[n].space.n == 0)
        sgen = pm.table("sgen", {"bus": I, "p_mw": R, "q_mvar": R, "scaling": R})      # other elements may share the buses of the loads
        empties["sgen"] = sgen
        p.assume(sgen.space.n >= 0)
        bus = pm.bus_mat()
        lsp = Space.get("label:bus")
        bl = Arr(lsp, SV(z3.Function("bus_lookup", I, I)(lsp.i)))
        net = netmodel.Net(dict({"_options": PDict({"voltage_depend_loads": True, "mode": "pf"}), "_is_elements": PDict({"load": Arr(sp, act), "sgen": Arr(sgen.space, SV(z3.Function("is_sgen", I, B)(sgen.space.i)))}),
                                 "_pd2ppc_lookups": PDict({"bus": bl, "bus_dc": Opaque("bus_dc")}), "load": load}, **empties), strict=True)

        class GK:
            is_group_keys = True

            def __init__(self, b):
                self.b = b

        def sum_by_group(it, b, *vals):
            return (GK(b),) + tuple(("groupsum", b, v) for v in vals)
        p.it.summaries["pandapower.auxiliary:_sum_by_group"] = sum_by_group
        me = p.it.modenv(BBU)
        if me.has("_sum_by_group"):
            me.vals["_sum_by_group"] = Native(sum_by_group, name="_sum_by_group")
        out = p.call(f"{BBU}:_calc_pq_elements_and_add_on_ppc", net, PDict({"bus": bus}))
        if out.raised:
            msg = str(out.exc.args[0]) if getattr(out.exc, "args", None) else ""
            if "need to" in msg and "100%" in msg:
                return          # input validation (percentages above 100)
            raise EngineError(f"_calc_pq_elements_and_add_on_ppc raised {out.exc!r}")
        c = load.cols
        from pyvc.arrays import _key
        beta = z3.Const(f"member@set[load,{_key(to_z(c['bus']))}]", I)
        at_bus = z3.And(to_z(c["bus"], I) == beta, act.z)
        row = z3.substitute(to_z(bl.e, I), (lsp.i, beta))
        beta2 = z3.Int("another_load_bus")
        row2 = z3.substitute(to_z(bl.e, I), (lsp.i, beta2))
        p.prove("zip:coefficients-are-kept-per-node", z3.Implies(row2 == row, beta2 == beta), meta=dict(part="zip-node", finding=F_ZIP_NODE),
                note="the coefficients are written once per pandapower bus into the row of its node: two buses with loads that are one node "
                     "(bus-bus switch) overwrite each other")
        gs = getattr(bus, "group_stores", {})
        p.prove("zip:bus-load-is-written", iu.PD in gs and iu.QD in gs, meta=dict(part="zip-structure"))
        if iu.PD not in gs:
            return
        for (PDc, qcol, CI, CZ, ci, cz, tag) in ((iu.PD, "p_mw", iu.CID_P, iu.CZD_P, "const_i_p_percent", "const_z_p_percent", "p"),
                                                  (iu.QD, "q_mvar", iu.CID_Q, iu.CZD_Q, "const_i_q_percent", "const_z_q_percent", "q")):
            keys, val = gs[PDc]
            # bus load = sum of the powers handed to _sum_by_group for the rows whose (looked-up) bus is this bus
            parts = val[2].parts if hasattr(val[2], "parts") else [val[2]]
            p.prove(f"zip:{tag}:the-bus-load-scaled-by-the-coefficients-consists-of-the-loads-only",
                    len(parts) == 1 and isinstance(parts[0], Arr) and parts[0].space is sp, meta=dict(part="zip-node", finding=F_ZIP_ALL),
                    note="PD * (cp + ci v + cz v^2) applies the loads' coefficients to everything summed into PD: with an sgen / storage at the "
                         "bus the coefficients would have to be relative to the total")
            if not (parts and isinstance(parts[0], Arr) and parts[0].space is sp):
                continue
            pe = parts[0].e
            PDsum = to_z(sigma(p.it, Arr(sp, pe, at_bus)), R)
            own = to_z(c[qcol]) * z3.If(act.z, 1.0, 0.0) * to_z(c["scaling"])
            p.prove(f"zip:{tag}:summed-power-is-p*scaling-of-active-loads", to_z(pe, R) == own, meta=dict(part="zip-structure"))
            # the written coefficients (on the path where the generic bus has active loads)
            for COL, colname, nm in ((CI, ci, "ci"), (CZ, cz, "cz")):
                coeff = bus.row_of(None, SV(row), COL, p.it)
                rhs = to_z(sigma(p.it, Arr(sp, SV(own * to_z(c[colname]) / 100), at_bus)), R)
                total = to_z(sigma(p.it, Arr(sp, SV(to_z(c[qcol]) * to_z(c["scaling"])), at_bus)), R)
                p.prove(f"zip:{tag}:{nm}-weighted", z3.Implies(total != 0, PDsum * to_z(coeff, R) == rhs), meta=dict(part="zip"),
                        note=f"PD_bus * {nm}_bus == sum over the bus's loads of p_l * {nm}_l (so the bus ZIP load is the sum of the loads' ZIP terms)")
    vc.explore("_calc_pq_elements_and_add_on_ppc[zip]", h_zip, max_paths=200)

    def h_busload(p):
        """PD / QD of a node are the sums over the elements whose bus maps to the node (node-indexed contract of _sum_by_group)"""
        from contracts.groupsum import node_sum_by_group
        tabs = {n: pm.table(n, {"bus": I, "p_mw": R, "q_mvar": R, "scaling": R}) for n in ("load", "sgen", "storage")}
        act = {n: SV(z3.Function(f"is_{n}", I, B)(tabs[n].space.i)) for n in tabs}
        empties = {}
        for n in ("motor", "ward", "xward", "asymmetric_load", "asymmetric_sgen", "load_dc"):
            empties[n] = pm.table(n, {"bus": I})
            p.assume(empties[n].space.n == 0)
        bus = pm.bus_mat()
        nsp = bus.segments["all"]
        for col in (iu.PD, iu.QD):
            bus.cols[("all", col)] = 0.0            # ppc['bus'] is created by np.zeros
        lsp = Space.get("label:bus")
        bl = Arr(lsp, SV(z3.Function("bus_lookup", I, I)(lsp.i)))     # several buses may map to one node
        net = netmodel.Net(dict({"_options": PDict({"voltage_depend_loads": False, "mode": "pf"}),
                                 "_is_elements": PDict({k: Arr(tabs[k].space, act[k]) for k in tabs}),
                                 "_pd2ppc_lookups": PDict({"bus": bl, "bus_dc": Opaque("bus_dc")})}, **tabs, **empties), strict=True)
        summ = node_sum_by_group(nsp)
        p.it.summaries["pandapower.auxiliary:_sum_by_group"] = summ
        me = p.it.modenv(BBU)
        if me.has("_sum_by_group"):
            me.vals["_sum_by_group"] = Native(summ, name="_sum_by_group")
        out = p.call(f"{BBU}:_calc_pq_elements_and_add_on_ppc", net, PDict({"bus": bus}))
        if out.raised:
            raise EngineError(f"_calc_pq_elements_and_add_on_ppc raised {out.exc!r}")
        nu = nsp.i
        for PDc, qcol, tag in ((iu.PD, "p_mw", "p"), (iu.QD, "q_mvar", "q")):
            total = z3.RealVal(0)
            for name, sign in (("load", 1), ("sgen", -1), ("storage", 1)):
                t = tabs[name]
                node = z3.substitute(to_z(bl.e, I), (lsp.i, to_z(t.cols["bus"], I)))
                own = sign * to_z(t.cols[qcol], R) * z3.If(act[name].z, 1.0, 0.0) * to_z(t.cols["scaling"], R)
                total = total + to_z(sigma(p.it, Arr(t.space, SV(own), node == nu)), R)
            p.prove(f"bus-load:{tag}", to_z(bus.get("all", PDc), R) == total, meta=dict(part="bus-load"),
                    note="PD (QD) of a node = sum over the in-service loads, sgens (negative) and storages whose bus maps to the node of p * scaling")
    vc.explore("_calc_pq_elements_and_add_on_ppc[bus load]", h_busload, max_paths=200)
    run_pfsoln_choice(vc)
    run_local_load(vc)
    _standins(vc)


class _Fn:
    """marker for a result routine (the routines themselves are numba kernels: not interpreted)"""

    def __init__(self, name):
        self.name = name


def run_pfsoln_choice(vc):
    """the fast result routine pf_solution_single_slack computes the slack power as bus loads + branch losses: it is only valid for a
    network with one machine, without voltage dependent loads, distributed slack or any shunt admittance at any bus (its assumed
    precondition). _get_numba_functions must establish that precondition whenever it selects the routine."""
    iu = consts("pandapower.pypower.idx_bus")
    RN = "pandapower.pf.run_newton_raphson_pf"

    def h(p):
        bus = pm.bus_mat()
        gs, bs = pm.colfun(bus, "all", iu.GS), pm.colfun(bus, "all", iu.BS)
        gen = Mat("gen", {"all": Space.get("ppcgen")})
        vdl, ds = SV(z3.Bool("voltage_depend_loads")), SV(z3.Bool("distributed_slack"))
        me = p.it.modenv(RN)
        single, general, pyp = _Fn("pf_solution_single_slack"), _Fn("pfsoln_numba"), _Fn("pfsoln_pypower")
        me.vals["pf_solution_single_slack"], me.vals["pfsoln_numba"], me.vals["pfsoln_pypower"] = single, general, pyp
        me.vals["makeYbus_numba"], me.vals["makeYbus_pypower"] = _Fn("makeYbus_numba"), _Fn("makeYbus_pypower")
        me.vals["numba_installed"] = True
        out = p.call(f"{RN}:_get_numba_functions", PDict({"bus": bus, "gen": gen}), PDict({"numba": True, "voltage_depend_loads": vdl,
                                                                                             "distributed_slack": ds}))
        if out.raised:
            raise EngineError(f"_get_numba_functions raised {out.exc!r}")
        chosen = out.value[1]
        p.prove("pfsoln-choice: a result routine is returned", chosen in (single, general, pyp), meta=dict(part="pfsoln-choice"))
        if chosen is single:
            p.prove("pfsoln-choice: single-slack routine only without any shunt admittance at any bus", z3.And(to_z(gs, R) == 0, to_z(bs, R) == 0),
                    meta=dict(part="pfsoln-choice"),
                    note="generic bus: GS == 0 and BS == 0 (the routine leaves the shunt powers out of the slack power)")
            p.prove("pfsoln-choice: single-slack routine only for one machine, constant-power loads, no distributed slack",
                    z3.And(gen.segments["all"].n == 1, z3.Not(vdl.z), z3.Not(ds.z)), meta=dict(part="pfsoln-choice"))
        p.cover("pfsoln-choice-reach", True)
    vc.explore("_get_numba_functions", h, max_paths=40)


def run_local_load(vc):
    """_update_q / _update_p (result routines of every AC power flow): what a machine at a bus reports is the power the network takes from
    the bus plus the load at that bus *at the solved voltage* -- for a bus with voltage dependent loads PD * (cp + ci v + cz v^2), not the
    rated PD -- otherwise the machine's result and the loads' results (which follow the ZIP law, C04) do not balance with the branch flows."""
    PS = "pandapower.pypower.pfsoln"
    ig, iu = consts("pandapower.pypower.idx_gen"), consts("pandapower.pypower.idx_bus")

    def zip_load(bus, node, p_it, which):
        col = (iu.PD, iu.CID_P, iu.CZD_P) if which == "p" else (iu.QD, iu.CID_Q, iu.CZD_Q)
        at = lambda c: to_z(bus.row_of(None, SV(node), c, p_it), R)
        v = at(iu.VM)
        return at(col[0]) * ((1 - at(col[1]) - at(col[2])) + at(col[1]) * v + at(col[2]) * v * v)

    def bus_with_zip():
        bus = pm.bus_mat()
        for c in (iu.PD, iu.QD, iu.VM, iu.CID_P, iu.CZD_P, iu.CID_Q, iu.CZD_Q):
            pm.colfun(bus, "all", c)
        return bus

    def h_q(p):
        gsp = Space.get("ppcgen")
        gen = Mat("gen", {"all": gsp})
        for c in (ig.QG, ig.QMIN, ig.QMAX):
            pm.colfun(gen, "all", c)
        bus = bus_with_zip()
        osp = Space.get("on")
        p.assume(osp.n == 1)                   # one running machine (several machines share the bus total: not decided here)
        on = Arr(osp, SV(z3.Function("on_idx", I, I)(osp.i)))
        gbus = Arr(osp, SV(z3.Function("gbus", I, I)(osp.i)))
        sb = Arr(osp, CV(SV(z3.Function("Sbus.re", I, R)(osp.i)), SV(z3.Function("Sbus.im", I, R)(osp.i))))
        base = SV(z3.Real("baseMVA"))
        out = p.call(f"{PS}:_update_q", base, bus, gen, gbus, sb, on)
        if out.raised:
            raise EngineError(f"_update_q raised {out.exc!r}")
        qg = gen.row_of(osp, on.e, ig.QG, p.it)
        want = to_z(sb.e.im, R) * base.z + zip_load(bus, to_z(gbus.e, I), p.it, "q")
        p.prove("local-load:q of the machine = network injection + load of its bus at the solved voltage", to_z(qg, R) == want, meta=dict(part="local-load"))
    vc.explore("_update_q[local load]", h_q, max_paths=20)

    def h_p(p):
        gen = Mat("gen", {"all": Space.get("ppcgen")})
        bus = bus_with_zip()
        rsp = Space.get("ref")
        ref = Arr(rsp, SV(z3.Function("ref_bus", I, I)(rsp.i)))
        nsp = bus.segments["all"]
        sb = Arr(nsp, CV(SV(z3.Function("Sbus.re", I, R)(nsp.i)), SV(z3.Function("Sbus.im", I, R)(nsp.i))))
        base = SV(z3.Real("baseMVA"))
        got = []
        me = p.it.modenv(PS)
        me.vals["_split_p_for_gens_at_same_bus"] = Native(lambda it, gen, p_bus, gens_at_bus, ref_gens: got.append(p_bus), name="_split_p", pure=False)
        gsp2 = Space.get("gens_at_bus")
        me.vals["find"] = Native(lambda it, m: Arr(gsp2, SV(z3.Function("gens_at_bus", I, I)(gsp2.i))), name="find")
        p.assume(gsp2.n >= 1)
        gbus = Arr(Space.get("on"), SV(z3.Function("gbus", I, I)(Space.get("on").i)))
        out = p.call(f"{PS}:_update_p", base, bus, gen, ref, gbus, sb, Opaque("ref_gens"))
        if out.raised:
            raise EngineError(f"_update_p raised {out.exc!r}")
        p.prove("local-load:p: the bus power of a reference bus is handed to the split once", len(got) == 1, meta=dict(part="local-load"))
        if len(got) != 1:
            return
        node = to_z(ref.e, I)
        want = z3.substitute(to_z(sb.e.re, R), (nsp.i, node)) * base.z + zip_load(bus, node, p.it, "p")
        p.prove("local-load:p of the reference machines = network injection + load of the bus at the solved voltage", to_z(got[0], R) == want,
                meta=dict(part="local-load"))
    vc.explore("_update_p[local load]", h_p, max_paths=20)


F_DCLINE = "C01/res_bus-omits-dcline-terminals"


def _standins(vc):
    if not hasattr(vc, "native_standins"):
        vc.native_standins = []
    vc.native_standins.append(dict(
        name="nodal balance and res_bus on a fixed network with the bus elements outside the deductive part",
        bound="one 5-bus 110 kV network with a dcline, storage, ward, shunt, gen and loads; AC power flow; per bus: element results against "
              "branch flows, res_bus.p_mw / q_mvar against the elements' own results (dcline terminals counted as bus elements); a shunt following "
              "a step table at step 0 and 2; a DC power flow of a net with an SSC (refused or finite)",
        script="from replaylib import run_all\nfrom replaylib.nodal import main_elements, main_tables_and_facts\nrun_all(main_elements, main_tables_and_facts)\n",
        known={F_DCLINE: r"network with a dcline: bus \d+: res_bus\.(p_mw|q_mvar) .* != net element consumption"}))


def classify(ob, model):
    return ob.meta.get("part", "")


def replay(ob, model, finding=None):
    if ob.meta.get("part") == "local-load":
        return {"script": f"# replay of {ob.id}\nfrom replaylib.nodal import main_zip_machines\nmain_zip_machines()\n",
                "description": "voltage dependent loads at the buses of an ext_grid (1.05 pu) and of a gen (1.04 pu), and next to an sgen: nodal balance"}
    if ob.meta.get("part") == "pfsoln-choice":
        return {"script": f"# replay of {ob.id}\nfrom replaylib.nodal import main_single_slack\nmain_single_slack()\n",
                "description": "single ext_grid networks with shunt-type elements whose rated powers cancel in total: nodal balance at every bus"}
    if ob.meta.get("finding") == F_ZIP_ALL or finding == F_ZIP_ALL:
        return {"script": f"# replay of {ob.id}\nfrom replaylib.nodal import main_zip_sgen\nmain_zip_sgen()\n",
                "description": "a constant-impedance load and an sgen at one bus: nodal balance"}
    if ob.meta.get("finding") == F_ZIP_NODE or finding == F_ZIP_NODE:
        return {"script": f"# replay of {ob.id}\nfrom replaylib.nodal import main_zip_fused\nmain_zip_fused()\n",
                "description": "a constant-impedance load and a constant-power load on two busbar sections fused by a bus-bus switch: nodal balance"}
    if ob.meta.get("part") in ("zip", "zip-structure"):
        return {"script": f"# replay of {ob.id}\nfrom replaylib.nodal import main_zip_all\nmain_zip_all()\n",
                "description": "buses with constant-impedance and constant-power loads of different size, next to an sgen, on fused busbar sections: "
                               "nodal balance"}
    return {"script": f"# replay of {ob.id}\nfrom replaylib.nodal import main\nmain()\n",
            "description": "nodal balance at every bus of networks with several machines at the slack bus (slack weights zero / positive), loads, sgens"}
