"""C22 -- network edits never leave dangling references (drop cascade order, reindex reference updates).

Functions under contract (real text): pandapower.toolbox.grid_modification: drop_elements_simple, drop_trafos, drop_lines, drop_buses;
pandapower.toolbox.data_modification:reindex_elements (reference updates of switches, measurements, costs).

Ghost state: every table of the net carries a version; `drop` creates a new version. Contracts:
  * detach_from_groups(net, T, idx) requires the rows idx to be still present in net[T] (groups with a reference column look the
    members up in the element table): at every call site the table T is at the version the function was entered with;
  * cascade: drop_trafos / drop_lines remove the switches that refer to the dropped elements (code 't' / 't3' / 'l') and the measurements
    before the elements, and the result rows with the same indices; drop_buses cascades to the elements at the buses;
  * reindex_elements(net, T, lookup): a reference (switch.element with the switch code of T; measurement.element with element_type T;
    poly/pwl cost element with et T) to an old index i becomes lookup[i], every other reference is unchanged -- for the generic row of
    the referencing table and every T in line / trafo / trafo3w (switches), + gen, load, sgen ... (costs).

Added later: drop_elements_simple also drops measurements and cost rows of the dropped elements (the pinned code did not: repaired);
_select_cost_df keeps a cost row iff its element is in the subnet's table of the row's own element type (run_select_cost).
"""
from __future__ import annotations

import z3

from pyvc.values import SV, CV, XV, PV, B, I, R, EngineError, to_z, to_pv, real, Opaque
from pyvc.containers import PDict
from pyvc.arrays import Table, Space, Arr, subst, truth_z
from pyvc.interp import Native, ObjVal, PyRaise
from pyvc import netmodel
from contracts import ppcmodel as pm

PROP = "C22"
MIN_OBLIGATIONS = 20
GM = "pandapower.toolbox.grid_modification"
DM = "pandapower.toolbox.data_modification"
NOT_DECIDED = ["not decided: fuse_buses, select_subnet, merge_nets, reindex_buses, create_continuous_*_index, replace_* functions, controller "
               "targets and characteristic references, group members of reindex_elements (loop over group rows)",
               "not decided: the pandas drop / set_index operations themselves (trusted)"]


KNOWN_RES = "C22/reindex_elements-leaves-result-table-index"


def _excl_res(ob):
    return True if ob.meta.get("part") == "reindex-res" else None


KNOWN_EXCLUSIONS = {KNOWN_RES: _excl_res}


def configure(it):
    pm.configure(it)


class GTable:
    """ghost view of a table of the net: name + version (number of drops since the function was entered)"""
    opaque_like = False

    def __init__(self, log, name, version=0):
        self.log, self.name, self.version = log, name, version

    def sym_getitem(self, it, key):
        return Opaque(f"{self.name}[...]")

    def sym_len(self, it):
        return SV(z3.Int(f"len[{self.name}@{self.version}]"))

    def sym_isinstance(self, it, cls):
        return getattr(cls, "__name__", "") in ("DataFrame", "object")


def gtable_attr(it, t, name):
    if name == "drop":
        def drop(it, idx, inplace=False, **k):
            t.log.append(("drop", t.name, t.version, idx))
            if inplace:
                t.version += 1
                return None
            return GTable(t.log, t.name, t.version + 1)
        return Native(drop, name="drop", pure=False)
    if name == "index":
        return Opaque(f"{t.name}.index")
    return Opaque(f"{t.name}.{name}")


class GNet:
    def __init__(self, log, tables):
        self.log = log
        self.tables = {n: GTable(log, n) for n in tables}

    def sym_getitem(self, it, key):
        if key not in self.tables:
            self.tables[key] = GTable(self.log, key)
        return self.tables[key]

    def sym_setitem(self, it, key, val):
        if isinstance(val, GTable):
            self.log.append(("assign", key, val.name, val.version))
            self.tables[key] = val
        else:
            self.log.append(("assign-unknown", key))
            self.tables[key] = GTable(self.log, key, 99)

    def sym_contains(self, it, key):
        return key in self.tables


def gnet_attr(it, n, name):
    if name in n.tables:
        return n.tables[name]
    return Opaque(f"net.{name}")


TABLES = ["bus", "res_bus", "switch", "line", "res_line", "trafo", "res_trafo", "trafo3w", "res_trafo3w", "load", "res_load", "sgen", "res_sgen",
          "measurement", "group", "line_geodata", "bus_geodata", "impedance", "res_impedance", "poly_cost", "pwl_cost"]


def run(vc):
    vc.configure = configure
    vc.trust("pandas DataFrame.drop / set_index / .loc stores; detach_from_groups looks members of reference-column groups up in the element table",
             "get_indices(selection, lookup) maps every selected index through the lookup")
    vc.assume_std("A-GENERIC")

    # ---- drop functions: ghost order -----------------------------------------------------------------------------------------
    def drop_harness(fn, args, expect_detach, tag):
        def h(p):
            log = []
            p.it.attr_hooks.append((GTable, gtable_attr))
            p.it.attr_hooks.append((GNet, gnet_attr))
            net = GNet(log, TABLES)
            me = p.it.modenv(GM)

            def detach(it, net_, et, idx, index=None):
                log.append(("detach", et, net_.tables[et].version if et in net_.tables else None))
            me.vals["detach_from_groups"] = Native(detach, name="detach_from_groups", pure=False)
            me.vals["drop_measurements_at_elements"] = Native(lambda it, n, et, idx=None, side=None: log.append(("drop_measurements", et)),
                                                              name="drop_measurements_at_elements", pure=False)
            me.vals["drop_elements_at_buses"] = Native(lambda it, n, buses, **k: log.append(("drop_elements_at_buses",)),
                                                       name="drop_elements_at_buses", pure=False)
            me.vals["drop_controllers_at_buses"] = Native(lambda it, n, buses, **k: log.append(("drop_controllers_at_buses",)),
                                                          name="drop_controllers_at_buses", pure=False)
            me.vals["ensure_iterability"] = Native(lambda it, x, *a, **k: x, name="ensure_iterability")
            out = p.call(f"{GM}:{fn}", net, *args)
            if out.raised:
                raise EngineError(f"{fn} raised {out.exc!r}")
            det = [e for e in log if e[0] == "detach"]
            if not det and not any(e[0] == "drop" for e in log):
                return      # nothing to drop on this path (empty index list)
            for et in expect_detach:
                mine = [e for e in det if e[1] == et]
                p.prove(f"{tag}:detach[{et}]-called", len(mine) == 1, meta=dict(part="drop", fn=fn))
                p.prove(f"{tag}:detach[{et}]-before-rows-are-dropped", all(e[2] == 0 for e in mine), meta=dict(part="drop", fn=fn),
                        note="group members with a reference column are looked up in the element table: it must still hold the rows")
                drops = [k for k, e in enumerate(log) if e[0] == "drop" and e[1] == et]
                p.prove(f"{tag}:rows[{et}]-dropped-after-detach", bool(drops) and all(k > log.index(mine[0]) for k in drops) if mine else False,
                        meta=dict(part="drop", fn=fn))
            if fn == "drop_elements_simple":
                et = args[0]
                p.prove(f"{tag}:measurements-of-the-dropped-elements-are-dropped", ("drop_measurements", et) in log, meta=dict(part="drop", fn=fn),
                        note="a measurement that refers to a dropped element would dangle")
                for cost in ("poly_cost", "pwl_cost"):
                    p.prove(f"{tag}:{cost}-rows-of-the-dropped-elements-are-dropped", any(e[0] == "drop" and e[1] == cost for e in log),
                            meta=dict(part="drop", fn=fn), note="a cost row that refers to a dropped element would dangle")
            return log
        return h
    idx = Opaque("indices")
    vc.explore("drop_elements_simple", drop_harness("drop_elements_simple", ["load", idx], ["load"], "drop_elements_simple"), max_paths=20)
    vc.explore("drop_buses", drop_harness("drop_buses", [idx, True], ["bus"], "drop_buses"), max_paths=20)
    vc.explore("drop_lines", drop_harness("drop_lines", [idx], ["switch", "line"], "drop_lines"), max_paths=20)
    for table in ("trafo", "trafo3w"):
        vc.explore(f"drop_trafos[{table}]", drop_harness("drop_trafos", [idx, table], ["switch", table], f"drop_trafos[{table}]"), max_paths=20)

    # ---- cascade content of drop_trafos / drop_lines: the right switches are selected -------------------------------------------
    for fn, table, code in (("drop_lines", "line", "l"), ("drop_trafos", "trafo", "t"), ("drop_trafos", "trafo3w", "t3")):
        def h_sel(p, fn=fn, table=table, code=code):
            sw = pm.table("switch", {"bus": I, "element": I, "et": PV, "closed": B})
            dropped_sw = []
            me = p.it.modenv(GM)
            me.vals["detach_from_groups"] = Native(lambda it, n, et, i, index=None: dropped_sw.append((et, i)) if et == "switch" else None,
                                                   name="detach_from_groups", pure=False)
            me.vals["drop_measurements_at_elements"] = Native(lambda it, *a, **k: None, name="drop_measurements_at_elements", pure=False)
            els = Arr(Space.get("dropped"), SV(z3.Function("dropped_index", I, I)(Space.get("dropped").i)))
            net = netmodel.Net({"switch": sw, table: Opaque(table), "res_" + table: Opaque("res"), "line_geodata": Opaque("geo")}, strict=False)
            try:
                p.it.call(p.it.modenv(GM).get(fn), [net, els] + ([table] if fn == "drop_trafos" else []), {})
            except (PyRaise, EngineError) as e:
                if not dropped_sw:
                    raise EngineError(f"{fn}: not interpreted up to the switch selection: {e}")
                # the rest of the function works on pandas objects outside the model; the selection happened before
            p.fn(f"{GM}:{fn}")
            sel = [i for et, i in dropped_sw]
            if not sel:
                return      # empty index list: nothing is dropped on this path
            p.prove(f"cascade[{table}]:switch-selection-made", len(sel) == 1, meta=dict(part="cascade", table=table))
            if sel:
                i = sel[0]
                i = i.arr() if hasattr(i, "arr") else i
                from pyvc.lib_np import isin
                member = isin(p.it, Arr(sw.space, sw.cols["element"]), els).e
                want = z3.And(truth_z(member), sw.cols["et"].z == to_pv(code))
                ok = isinstance(i, Arr) and i.space is sw.space
                p.prove(f"cascade[{table}]:switches-of-dropped-elements", z3.BoolVal(False) if not ok else (i.mask if i.mask is not True else z3.BoolVal(True)) == want,
                        meta=dict(part="cascade", table=table),
                        note=f"exactly the switches with et == '{code}' whose element is dropped are removed with the {table}s")
        vc.explore(f"{fn}[{table}]:switch selection", h_sel, max_paths=20)

    # ---- reindex_elements: reference updates -----------------------------------------------------------------------------------
    for element_type, code in (("line", "l"), ("trafo", "t"), ("trafo3w", "t3"), ("gen", None), ("load", None)):
        def h_re(p, element_type=element_type, code=code):
            sw = pm.table("switch", {"bus": I, "element": I, "et": PV})
            meas = pm.table("measurement", {"element": I, "element_type": PV})
            poly = pm.table("poly_cost", {"element": I, "et": PV})
            pwl = pm.table("pwl_cost", {"element": I, "et": PV})
            before = {t.name: dict(t.cols) for t in (sw, meas, poly, pwl)}
            el = pm.table(element_type, {"in_service": B})
            L = z3.Function("lookup", I, I)
            osp = Space.get("old")
            old = Arr(osp, SV(z3.Function("old_index", I, I)(osp.i)))
            me = p.it.modenv(DM)
            me.vals["get_indices"] = Native(lambda it, sel, lookup, fused_indices=True: _map(sel, L), name="get_indices")
            grp = pm.table("group", {"element_type": PV})
            p.assume(grp.space.n == 0)
            p.assume(el.space.n > 0)
            p.assume(z3.Int("len[lookup]") > 0)
            res = pm.table("res_" + element_type, {"p_mw": R})
            res_index0 = res.index_e
            net = netmodel.Net({element_type: el, "res_" + element_type: res, "switch": sw, "measurement": meas, "poly_cost": poly, "pwl_cost": pwl,
                                "group": grp}, strict=True)
            lookup = _LookupDict(L)
            out = p.call(f"{DM}:reindex_elements", net, element_type, None, old, lookup)
            if out.raised:
                raise EngineError(f"reindex_elements raised {out.exc!r}")
            from pyvc.lib_np import isin

            def check(tab, refcol, typecol, typeval, label):
                pre = before[tab.name]
                member = truth_z(isin(p.it, Arr(tab.space, pre[refcol]), old).e)
                applies = z3.And(pre[typecol].z == to_pv(typeval), member) if typeval is not None else z3.BoolVal(False)
                want = z3.If(applies, L(to_z(pre[refcol], I)), to_z(pre[refcol], I))
                p.prove(f"reindex[{element_type}]:{label}", to_z(tab.cols[refcol], I) == want, meta=dict(part="reindex", element=element_type),
                        note=f"{tab.name}.{refcol} of rows referring to a re-indexed {element_type} is mapped through the lookup, others unchanged")
            # the result table of the element follows the new index
            r_post = net.fields.raw("res_" + element_type)
            pre_idx = to_z(res_index0, I)
            member_r = truth_z(isin(p.it, Arr(res.space, SV(pre_idx)), old).e)
            post_idx = r_post.index_e
            p.prove(f"reindex[{element_type}]:result-table-index", z3.BoolVal(False) if not isinstance(post_idx, SV) else
                    to_z(post_idx, I) == z3.If(member_r, L(pre_idx), pre_idx), meta=dict(part="reindex-res", element=element_type),
                    note=f"res_{element_type} rows of re-indexed elements carry the new index (result indices stay a subset of the element indices)")
            check(sw, "element", "et", code, "switch.element")
            # measurements can be placed at branches and at bus elements (create_measurement): every measurement of the re-indexed
            # element type follows (the expectation used to be copied from the code, which only re-targeted branch measurements)
            check(meas, "element", "element_type", element_type, "measurement.element")
            check(poly, "element", "et", element_type, "poly_cost.element")
            check(pwl, "element", "et", element_type, "pwl_cost.element")
        vc.explore(f"reindex_elements[{element_type}]", h_re, max_paths=200)
    run_select_cost(vc)
    run_inner_branches(vc)
    _standin(vc)


def _map(sel, L):
    from pyvc.arrays import Series
    a = sel.arr() if isinstance(sel, Series) else sel
    if isinstance(a, Arr):
        return Arr(a.space, SV(L(to_z(a.e, I))), a.mask)
    raise EngineError("get_indices of a non-array")


class _LookupDict:
    """dict old index -> new index given as an uninterpreted function"""

    def __init__(self, L):
        self.L = L

    def sym_getitem(self, it, k):
        return SV(self.L(to_z(k, I)))

    def sym_len(self, it):
        return SV(z3.Int("len[lookup]"))

    def keys(self):
        return self


def _standin(vc):
    if not hasattr(vc, "native_standins"):
        vc.native_standins = []
    vc.native_standins.append(dict(
        name="reference integrity after edits of a fixed network",
        bound="12 edit operations (drop_elements, drop_elements_simple, drop_lines, drop_trafos, drop_buses, reindex_elements x3, "
              "create_continuous_elements_index, select_subnet x2, drop_inactive_elements) on example_multivoltage with groups (index and "
              "reference column), t3 switch, costs on four element types (two sharing an element number), measurements on branches and bus elements; "
              "the listed known finding (result table index after reindex_elements) is excluded; five bus edits on a 4-bus network with svc / ssc / "
              "tcsc, drop_buses on a net with a ConstControl, replace_zero_branches_with_switches on impedances",
        script="from replaylib import run_all\nfrom replaylib.references import main, main_facts\nrun_all(main, main_facts)\n", timeout=900))


def run_inner_branches(vc):
    """_inner_branches(net, buses, 'drop') (fuse_buses, drop_inner_branches): every branch table is reduced through the drop function of its own
    kind -- lines through drop_lines, transformers through drop_trafos *of their own table*, the others through a function that also detaches
    group members and drops result rows, measurements and costs (drop_elements_simple) -- never by a bare DataFrame.drop."""
    def h(p):
        log = []
        p.it.attr_hooks.append((GTable, gtable_attr))
        p.it.attr_hooks.append((GNet, gnet_attr))
        net = GNet(log, TABLES + ["dcline", "res_dcline", "res_switch"])
        me = p.it.modenv(GM)
        me.vals["branch_element_bus_dict"] = Native(lambda it, include_switch=False, **k: PDict({
            "line": ["from_bus", "to_bus"], "impedance": ["from_bus", "to_bus"], "switch": ["bus"], "trafo": ["hv_bus", "lv_bus"],
            "trafo3w": ["hv_bus", "mv_bus", "lv_bus"], "dcline": ["from_bus", "to_bus"]}), name="branch_element_bus_dict")
        me.vals["any"] = Native(lambda it, v: True, name="any")          # every table has inner branches
        me.vals["drop_lines"] = Native(lambda it, n, idx, **k: log.append(("drop_lines",)), name="drop_lines", pure=False)
        me.vals["drop_trafos"] = Native(lambda it, n, idx, table="trafo", **k: log.append(("drop_trafos", table)), name="drop_trafos", pure=False)
        me.vals["drop_elements_simple"] = Native(lambda it, n, et, idx, **k: log.append(("drop_elements_simple", et)), name="drop_elements_simple", pure=False)
        me.vals["detach_from_groups"] = Native(lambda it, n, et, idx, index=None: log.append(("detach", et, n.tables[et].version)),
                                               name="detach_from_groups", pure=False)
        from pyvc.interp import Namespace
        me.vals["pd"] = Namespace("pandas", {"Series": Native(lambda it, *a, **k: Opaque("mask"), name="Series")})
        out = p.call(f"{GM}:_inner_branches", net, Opaque("buses"), "drop")
        if out.raised:
            raise EngineError(f"_inner_branches raised {out.exc!r}")
        meta = dict(part="inner-branches")
        p.prove("inner-branches: lines go through drop_lines", ("drop_lines",) in log, meta=meta)
        tr = [e[1] for e in log if e[0] == "drop_trafos"]
        p.prove("inner-branches: two-winding transformers are dropped from net.trafo, three-winding transformers from net.trafo3w",
                sorted(tr) == ["trafo", "trafo3w"], meta=meta, note="drop_trafos drops from the table it is given (default 'trafo')")
        for et in ("impedance", "dcline", "switch"):
            bare = [e for e in log if e[0] in ("drop", "assign") and e[1] == et]
            via = ("drop_elements_simple", et) in log or any(e[0] == "detach" and e[1] == et and e[2] == 0 for e in log)
            p.prove(f"inner-branches: {et} rows are not dropped without their group members, results, measurements and costs", via, meta=meta,
                    note=f"bare drops seen: {len(bare)}")
    vc.explore("_inner_branches[drop]", h, max_paths=40)


COST_TYPES = ["gen", "sgen", "ext_grid", "load", "storage", "dcline"]


def run_select_cost(vc):
    """_select_cost_df (select_subnet): a cost row is kept iff its element is in the subnet *as an element of the row's own element type*
    (two element types can carry the same element number). Series.unique is summarised by the list of all element types that can carry
    costs: iterating over types that do not occur selects nothing."""
    from pyvc.arrays import FilteredTable
    from pyvc.lib_np import isin as np_isin
    for cost_type in ("poly_cost", "pwl_cost"):
        def h(p, cost_type=cost_type):
            it = p.it
            cost = pm.table(cost_type, {"element": I, "et": PV})
            c = cost.cols
            p.assume(z3.Or(*[c["et"].z == to_pv(t) for t in COST_TYPES]))
            subs = {t: pm.table(f"subnet.{t}", {"bus": I}) for t in COST_TYPES}
            net = netmodel.Net({cost_type: cost}, strict=True)
            p2 = netmodel.Net(dict(subs), strict=False)
            # Series.unique(): the distinct element types of the cost table (assumed contract: a subset of the types that can carry costs)
            from pyvc import lib_np
            orig = lib_np.arr_attr

            def arr_attr(it_, a, name):
                if name == "unique" and a.space is cost.space:
                    return Native(lambda it__: list(COST_TYPES), name="unique")
                return orig(it_, a, name)
            lib_np.arr_attr = arr_attr
            try:
                out = p.call(f"{GM}:_select_cost_df", net, p2, cost_type)
            finally:
                lib_np.arr_attr = orig
            if out.raised:
                raise EngineError(f"_select_cost_df raised {out.exc!r}")
            got = p2.fields.raw(cost_type)
            ok = isinstance(got, FilteredTable) and got.table is cost
            p.prove(f"select[{cost_type}]: the subnet gets a selection of the rows of the cost table", ok, meta=dict(part="select-cost"))
            if not ok:
                return
            kept = got.mask if got.mask is not True else z3.BoolVal(True)
            for t in COST_TYPES:
                member = truth_z(np_isin(it, Arr(cost.space, c["element"]), Arr(subs[t].space, subs[t].index_e)).e)
                p.prove(f"select[{cost_type}]: a {t} cost row is kept iff that {t} is in the subnet", z3.Implies(c["et"].z == to_pv(t), kept == member),
                        meta=dict(part="select-cost"), note="membership in the subnet's table of the row's own element type")
        vc.explore(f"_select_cost_df[{cost_type}]", h, max_paths=40)


def classify(ob, model):
    return ob.meta.get("part", "") + ":" + str(ob.meta.get("fn", ob.meta.get("table", ob.meta.get("element", ""))))


def replay(ob, model, finding=None):
    if finding == KNOWN_RES or ob.meta.get("part") == "reindex-res":
        return {"script": f"# replay of {ob.id}\nfrom replaylib.references import main_known_res_index\nmain_known_res_index()\n",
                "description": "reindex_elements(net, 'line', new indices) on a network with results: res_line keeps the old index"}
    if ob.meta.get("part") == "inner-branches":
        return {"script": f"# replay of {ob.id}\nfrom replaylib.references import main_inner\nmain_inner()\n",
                "description": "fuse_buses with a switch, an impedance and a dcline (with cost, in a group) between the fused buses; drop_inner_branches with a "
                               "trafo and a trafo3w of the same index"}
    return {"script": f"# replay of {ob.id}\nfrom replaylib.references import main\nmain()\n",
            "description": "drop / reindex operations on a network with groups (with reference columns), switches of all kinds, measurements and costs: "
                           "every reference points to an existing row afterwards"}
