"""C02 -- power flow honours the documented element equivalent circuits.

Part R (result transcription, functions pandapower.results_branch:_get_branch_flows, _get_line_results, _get_trafo_results,
_get_trafo3w_results, _get_impedance_results): for a generic branch row of each element table (any table length, any
values of the solved ppc) every reported terminal power, current, voltage and loading equals the documented result
formula of doc/elements/*.rst evaluated on the solved branch powers and bus voltages:
    i_side_ka = |S_side| / (sqrt(3) * vm_side_pu * vn_bus_kv),   i_ka = max(i_from, i_to),
    line loading = i_ka / (max_i_ka * df * parallel) * 100,
    trafo loading (current) = max_side(i_side * vn_side_rated * sqrt(3) / sn) * 100 / parallel / df,
    trafo loading (power)   = max_side(|S_side|) / sn * 100 / parallel / df,
    trafo3w: per-winding with the winding's own rating, taken at the three *terminals* (hv, mv, lv),
    pl = sum of terminal p (AC), 0 (DC); vm/va gathered from the bus of the terminal.
Part B (build): pandapower.build_branch:_calc_line_parameter, _calc_impedance_parameters_from_dataframe, _wye_delta,
_calc_r_x_from_dataframe, _calc_y_from_dataframe, _calc_nominal_ratio_from_dataframe, _calc_tap_from_dataframe (step
changers) against the documented per-unit parameters; pandapower.pypower.makeYbus:branch_vectors against the pi two-port.
Part D (DC): pandapower.pf.run_dc_pf:_run_dc_pf result transcription, makeBdc per-branch susceptance.
"""
from __future__ import annotations

import z3

from pyvc.values import SV, CV, XV, PV, B, I, R, EngineError, to_z, real, arith, compare, logic, ite, ssqrt, Opaque
from pyvc.containers import PDict
from pyvc.arrays import Table, Mat, Space, Arr, subst
from pyvc.interp import Native, PyRaise
from pyvc.vc import consts
from pyvc import netmodel
from contracts import ppcmodel as pm

PROP = "C02"
RB = "pandapower.results_branch"
MIN_OBLIGATIONS = 60
NOT_DECIDED = ["not decided: that the voltages solve the network equations (C01 / A-SOLVE)", "not decided: tap dependency tables (C31), TDPF, "
               "zero-sequence models, tcsc / xward branch results", "not decided: makeYbus sparse assembly (A-SCIPY)"]


def configure(it):
    pm.configure(it)
    pm.trafo3w_lookups_summary(it)


def _sq(x):
    return arith("*", x, x)


def _abs_s(p, q):
    return ssqrt(arith("+", _sq(p), _sq(q)))


def _max(a, b):
    return ite(compare(">=", a, b), a, b)


def _setup(it, ac=True, trafo_loading="current"):
    ib = consts("pandapower.pypower.idx_brch")
    iu = consts("pandapower.pypower.idx_bus")
    branch = pm.branch_mat()
    bus = pm.bus_mat()
    lk, bs, idx = pm.branch_lookup()
    for seg in pm.BRANCH_SEGMENTS:
        for c in (ib.PF, ib.QF, ib.PT, ib.QT):
            pm.colfun(branch, seg, c, R)
        for c in (ib.F_BUS, ib.T_BUS):
            pm.colfun(branch, seg, c, I)
    for c in (iu.VM, iu.VA, iu.BASE_KV):
        pm.colfun(bus, "all", c, R)
    if not ac:
        # precondition of the result routines in a DC calculation, established by _extract_results (run_extract): |V| = 1 p.u.
        bus.cols[("all", iu.VM)] = SV(z3.RealVal(1))
    ppc = PDict({"branch": branch, "bus": bus, "baseMVA": real("baseMVA")})
    line = pm.table("line", {"max_i_ka": R, "df": R, "parallel": R, "length_km": R})
    trafo = pm.table("trafo", {"vn_hv_kv": R, "vn_lv_kv": R, "sn_mva": R, "parallel": R, "df": R})
    t3 = pm.table("trafo3w", {"vn_hv_kv": R, "vn_mv_kv": R, "vn_lv_kv": R, "sn_hv_mva": R, "sn_mv_mva": R, "sn_lv_mva": R})
    imp = pm.table("impedance", {"sn_mva": R})
    res_line = pm.result_table("res_line", line.space, ["p_from_mw", "q_from_mvar", "p_to_mw", "q_to_mvar", "pl_mw", "ql_mvar", "i_from_ka",
                                                        "i_to_ka", "i_ka", "vm_from_pu", "va_from_degree", "vm_to_pu", "va_to_degree", "loading_percent"])
    res_trafo = pm.result_table("res_trafo", trafo.space, ["p_hv_mw", "q_hv_mvar", "p_lv_mw", "q_lv_mvar", "pl_mw", "ql_mvar", "i_hv_ka", "i_lv_ka",
                                                           "vm_hv_pu", "va_hv_degree", "vm_lv_pu", "va_lv_degree", "loading_percent"])
    res_t3 = pm.result_table("res_trafo3w", t3.space, ["p_hv_mw", "q_hv_mvar", "p_mv_mw", "q_mv_mvar", "p_lv_mw", "q_lv_mvar", "pl_mw", "ql_mvar",
                                                       "i_hv_ka", "i_mv_ka", "i_lv_ka", "vm_hv_pu", "va_hv_degree", "vm_mv_pu", "va_mv_degree",
                                                       "vm_lv_pu", "va_lv_degree", "va_internal_degree", "vm_internal_pu", "loading_percent"])
    res_imp = pm.result_table("res_impedance", imp.space, ["p_from_mw", "q_from_mvar", "p_to_mw", "q_to_mvar", "pl_mw", "ql_mvar", "i_from_ka", "i_to_ka"])
    net = netmodel.Net({"_pd2ppc_lookups": PDict({"branch": lk}), "_options": PDict({"ac": ac, "trafo_loading": trafo_loading,
                        "consider_line_temperature": False, "tdpf": False, "mode": "pf"}),
                        "line": line, "trafo": trafo, "trafo3w": t3, "impedance": imp, "res_line": res_line, "res_trafo": res_trafo,
                        "res_trafo3w": res_t3, "res_impedance": res_imp, "sn_mva": real("sn_mva")}, strict=True)
    return net, ppc, branch, bus, ib, iu


def _term(branch, bus, seg, side, ib, iu):
    """documented quantities at one terminal of the generic row of a segment"""
    P = branch.get(seg, ib.PF if side == "f" else ib.PT)
    Q = branch.get(seg, ib.QF if side == "f" else ib.QT)
    b = branch.get(seg, ib.F_BUS if side == "f" else ib.T_BUS)
    sp = bus.segments["all"]
    vm = subst(bus.get("all", iu.VM), sp.i, to_z(b, I))
    va = subst(bus.get("all", iu.VA), sp.i, to_z(b, I))
    vn = subst(bus.get("all", iu.BASE_KV), sp.i, to_z(b, I))
    S = _abs_s(P, Q)
    i_ka = arith("/", arith("/", S, arith("*", vm, vn)), ssqrt(3))
    return dict(P=P, Q=Q, S=S, vm=vm, va=va, vn=vn, i=i_ka)


def _eq(p, label, got, want, note="", meta=None):
    p.prove(label, to_z(got, R) == to_z(want, R), note=note, meta=meta)


def run(vc):
    vc.configure = configure
    vc.trust("documented result formulas of doc/elements/{line,trafo,trafo3w,impedance}.rst (spec functions in this contract)",
             "A-LOOKUP: ppc['branch'] consists of one block of rows per element table in table order; trafo3w: hv | mv | lv blocks",
             "numpy element-wise / broadcasting semantics, np.max(axis) over a constant number of columns (A-NUMPY)")
    vc.assume_std("A-REAL", "A-GENERIC", "A-LOOKUP", "A-NUMPY")
    run_results(vc)
    run_extract(vc)
    if not hasattr(vc, "native_standins"):
        vc.native_standins = []
    vc.native_standins.append(dict(
        name="branch results against independent element models on fixed networks",
        bound="example_multivoltage and a 5-bus network with a heavily loaded three-winding transformer (4 option sets each: trafo_model t/pi, "
              "trafo_loading current/power); the same transformer with its lv bus out of service; one DC power flow with voltage set points "
              "1.06 / 1.05 (currents, loadings, res_bus.vm_pu)",
        script="import sys\nfrom replaylib.branchmodel import main, main_more\n"
               "from replaylib import run_all\nrun_all(main, main_more)\n",
        timeout=900))
    from contracts import C02_build, C02_trafo
    C02_build.run(vc)
    C02_trafo.run(vc)
    # bus injections at the slack bus: the fast result routine (slack power = loads + branch losses) is selected only without shunts
    from contracts import C01
    C01.run_pfsoln_choice(vc)


def run_results(vc):
    for ac in (True, False):
        def h_line(p, ac=ac):
            net, ppc, branch, bus, ib, iu = _setup(p.it, ac=ac)
            p.fn(f"{RB}:_get_branch_flows")
            flows = p.call(f"{RB}:_get_branch_flows", ppc)
            if flows.raised:
                raise EngineError(f"_get_branch_flows raised {flows.exc!r}")
            i_ft, s_ft = flows.value
            out = p.call(f"{RB}:_get_line_results", net, ppc, i_ft)
            if out.raised:
                raise EngineError(f"_get_line_results raised {out.exc!r}")
            res = net.fields.raw("res_line").cols
            line = net.fields.raw("line").cols
            F, T = _term(branch, bus, "line", "f", ib, iu), _term(branch, bus, "line", "t", ib, iu)
            tag = "ac" if ac else "dc"
            _eq(p, f"line:p_from[{tag}]", res["p_from_mw"], F["P"]); _eq(p, f"line:q_from[{tag}]", res["q_from_mvar"], F["Q"])
            _eq(p, f"line:p_to[{tag}]", res["p_to_mw"], T["P"]); _eq(p, f"line:q_to[{tag}]", res["q_to_mvar"], T["Q"])
            _eq(p, f"line:pl[{tag}]", res["pl_mw"], arith("+", F["P"], T["P"]) if ac else 0)
            _eq(p, f"line:ql[{tag}]", res["ql_mvar"], arith("+", F["Q"], T["Q"]) if ac else 0)
            _eq(p, f"line:i_from[{tag}]", res["i_from_ka"], F["i"], note="i_from_ka = |S_from| / (sqrt(3) vm_from vn_from)")
            _eq(p, f"line:i_to[{tag}]", res["i_to_ka"], T["i"])
            _eq(p, f"line:i_ka[{tag}]", res["i_ka"], _max(F["i"], T["i"]))
            for a, b in (("vm_from_pu", F["vm"]), ("va_from_degree", F["va"]), ("vm_to_pu", T["vm"]), ("va_to_degree", T["va"])):
                _eq(p, f"line:{a}[{tag}]", res[a], b)
            imax = arith("*", arith("*", line["max_i_ka"], line["df"]), line["parallel"])
            p.prove(f"line:loading[{tag}]", z3.Implies(to_z(imax, R) != 0, to_z(res["loading_percent"], R) ==
                                                       to_z(arith("*", arith("/", _max(F["i"], T["i"]), imax), 100), R)),
                    note="loading_percent = i_ka / (max_i_ka * df * parallel) * 100")
        vc.explore(f"_get_line_results[{'ac' if ac else 'dc'}]", h_line, max_paths=20)

        for loading in ("current", "power"):
            def h_trafo(p, ac=ac, loading=loading):
                net, ppc, branch, bus, ib, iu = _setup(p.it, ac=ac, trafo_loading=loading)
                flows = p.call(f"{RB}:_get_branch_flows", ppc)
                i_ft, s_ft = flows.value
                tr = net.fields.raw("trafo").cols
                p.assume(compare(">", tr["df"], 0))
                out = p.call(f"{RB}:_get_trafo_results", net, ppc, s_ft, i_ft)
                if out.raised and out.exc_name() == "UserWarning":
                    return      # some transformer has df <= 0: rejected input (outside the precondition df > 0 for all rows)
                if out.raised:
                    raise EngineError(f"_get_trafo_results raised {out.exc!r}")
                res = net.fields.raw("res_trafo").cols
                H, L = _term(branch, bus, "trafo", "f", ib, iu), _term(branch, bus, "trafo", "t", ib, iu)
                tag = f"{'ac' if ac else 'dc'},{loading}"
                _eq(p, f"trafo:p_hv[{tag}]", res["p_hv_mw"], H["P"]); _eq(p, f"trafo:p_lv[{tag}]", res["p_lv_mw"], L["P"])
                _eq(p, f"trafo:q_hv[{tag}]", res["q_hv_mvar"], H["Q"] if ac else 0); _eq(p, f"trafo:q_lv[{tag}]", res["q_lv_mvar"], L["Q"] if ac else 0)
                _eq(p, f"trafo:pl[{tag}]", res["pl_mw"], arith("+", H["P"], L["P"]) if ac else 0)
                _eq(p, f"trafo:ql[{tag}]", res["ql_mvar"], arith("+", H["Q"], L["Q"]) if ac else 0)
                _eq(p, f"trafo:i_hv[{tag}]", res["i_hv_ka"], H["i"]); _eq(p, f"trafo:i_lv[{tag}]", res["i_lv_ka"], L["i"])
                for a, b in (("vm_hv_pu", H["vm"]), ("va_hv_degree", H["va"]), ("vm_lv_pu", L["vm"]), ("va_lv_degree", L["va"])):
                    _eq(p, f"trafo:{a}[{tag}]", res[a], b)
                if loading == "current":
                    ld = _max(arith("/", arith("*", arith("*", H["i"], tr["vn_hv_kv"]), ssqrt(3)), tr["sn_mva"]),
                              arith("/", arith("*", arith("*", L["i"], tr["vn_lv_kv"]), ssqrt(3)), tr["sn_mva"]))
                else:
                    ld = _max(arith("/", H["S"], tr["sn_mva"]), arith("/", L["S"], tr["sn_mva"]))
                want = arith("/", arith("/", arith("*", ld, 100), tr["parallel"]), tr["df"])
                _eq(p, f"trafo:loading[{tag}]", res["loading_percent"], want,
                    note="loading from the larger of the two terminal currents (rated voltages) / apparent powers", meta=dict(element="trafo", loading=loading))
            vc.explore(f"_get_trafo_results[{'ac' if ac else 'dc'},{loading}]", h_trafo, max_paths=20)

            def h_t3(p, ac=ac, loading=loading):
                net, ppc, branch, bus, ib, iu = _setup(p.it, ac=ac, trafo_loading=loading)
                flows = p.call(f"{RB}:_get_branch_flows", ppc)
                i_ft, s_ft = flows.value
                out = p.call(f"{RB}:_get_trafo3w_results", net, ppc, s_ft, i_ft)
                if out.raised:
                    raise EngineError(f"_get_trafo3w_results raised {out.exc!r}")
                res = net.fields.raw("res_trafo3w").cols
                t3 = net.fields.raw("trafo3w").cols
                # terminals: hv = from side of the hv block, mv / lv = to sides of the mv / lv blocks; star point = their other ends
                H = _term(branch, bus, "trafo3w_hv", "f", ib, iu)
                M = _term(branch, bus, "trafo3w_mv", "t", ib, iu)
                L = _term(branch, bus, "trafo3w_lv", "t", ib, iu)
                X = _term(branch, bus, "trafo3w_hv", "t", ib, iu)
                tag = f"{'ac' if ac else 'dc'},{loading}"
                for side, Tm in (("hv", H), ("mv", M), ("lv", L)):
                    _eq(p, f"trafo3w:p_{side}[{tag}]", res[f"p_{side}_mw"], Tm["P"])
                    _eq(p, f"trafo3w:q_{side}[{tag}]", res[f"q_{side}_mvar"], Tm["Q"] if ac else 0)
                    _eq(p, f"trafo3w:i_{side}[{tag}]", res[f"i_{side}_ka"], Tm["i"])
                    _eq(p, f"trafo3w:vm_{side}[{tag}]", res[f"vm_{side}_pu"], Tm["vm"])
                    _eq(p, f"trafo3w:va_{side}[{tag}]", res[f"va_{side}_degree"], Tm["va"])
                _eq(p, f"trafo3w:vm_internal[{tag}]", res["vm_internal_pu"], X["vm"]); _eq(p, f"trafo3w:va_internal[{tag}]", res["va_internal_degree"], X["va"])
                _eq(p, f"trafo3w:pl[{tag}]", res["pl_mw"], arith("+", arith("+", H["P"], M["P"]), L["P"]) if ac else 0)
                _eq(p, f"trafo3w:ql[{tag}]", res["ql_mvar"], arith("+", arith("+", H["Q"], M["Q"]), L["Q"]) if ac else 0)
                if loading == "current":
                    lds = [arith("*", arith("/", arith("*", arith("*", Tm["i"], t3[f"vn_{s}_kv"]), ssqrt(3)), t3[f"sn_{s}_mva"]), 100)
                           for s, Tm in (("hv", H), ("mv", M), ("lv", L))]
                else:
                    lds = [arith("*", arith("/", Tm["S"], t3[f"sn_{s}_mva"]), 100) for s, Tm in (("hv", H), ("mv", M), ("lv", L))]
                _eq(p, f"trafo3w:loading[{tag}]", res["loading_percent"], _max(_max(lds[0], lds[1]), lds[2]),
                    note="loading = max over the three windings, each at its own terminal with its own rating",
                    meta=dict(element="trafo3w", loading=loading))
            vc.explore(f"_get_trafo3w_results[{'ac' if ac else 'dc'},{loading}]", h_t3, max_paths=20)

        def h_imp(p, ac=ac):
            net, ppc, branch, bus, ib, iu = _setup(p.it, ac=ac)
            flows = p.call(f"{RB}:_get_branch_flows", ppc)
            i_ft, s_ft = flows.value
            out = p.call(f"{RB}:_get_impedance_results", net, ppc, i_ft)
            if out.raised:
                raise EngineError(f"_get_impedance_results raised {out.exc!r}")
            res = net.fields.raw("res_impedance").cols
            F, T = _term(branch, bus, "impedance", "f", ib, iu), _term(branch, bus, "impedance", "t", ib, iu)
            tag = "ac" if ac else "dc"
            _eq(p, f"impedance:p_from[{tag}]", res["p_from_mw"], F["P"]); _eq(p, f"impedance:p_to[{tag}]", res["p_to_mw"], T["P"])
            _eq(p, f"impedance:pl[{tag}]", res["pl_mw"], arith("+", F["P"], T["P"]) if ac else 0)
            _eq(p, f"impedance:i_from[{tag}]", res["i_from_ka"], F["i"]); _eq(p, f"impedance:i_to[{tag}]", res["i_to_ka"], T["i"])
        vc.explore(f"_get_impedance_results[{'ac' if ac else 'dc'}]", h_imp, max_paths=20)


def run_extract(vc):
    """_extract_results hands a ppc to the result routines in which, for a DC calculation, every bus in service has |V| = 1 p.u. (the DC
    model; the ppc of a DC calculation still carries the set points of ext_grid / gen buses in VM) -- the precondition under which the
    DC results above are the documented ones."""
    RS = "pandapower.results"
    iu = consts("pandapower.pypower.idx_bus")
    for ac in (True, False):
        def h(p, ac=ac):
            bus = pm.bus_mat()
            sp = bus.segments["all"]
            vm0 = XV(SV(z3.Function("VM0", I, R)(sp.i)), z3.Function("VM0.isnan", I, B)(sp.i))
            bus.cols[("all", iu.VM)] = vm0
            ppc = PDict({"bus": bus})
            seen = []
            me = p.it.modenv(RS)
            readers = ("_get_bus_v_results", "_get_p_q_results", "_get_shunt_results", "_get_branch_results", "_get_gen_results", "_get_bus_results")
            for nm in ("_set_buses_out_of_service", "_set_dc_buses_out_of_service", "_get_aranged_lookup", "_get_bus_dc_v_results", "_get_p_dc_results",
                       "_get_dc_slack_results", "_get_bus_dc_results", "_get_b2b_vsc_results", "_get_costs", "_remove_costs") + readers:
                def f(it, *a, _nm=nm, **k):
                    if _nm in readers:
                        seen.append((_nm, bus.get("all", iu.VM)))
                    return Opaque(_nm)
                me.vals[nm] = Native(f, name=nm, pure=False)
            net = netmodel.Net({"_options": PDict({"ac": ac, "mode": "pf"})}, strict=True)
            out = p.call(f"{RS}:_extract_results", net, ppc)
            if out.raised:
                raise EngineError(f"_extract_results raised {out.exc!r}")
            p.prove(f"extract[{'ac' if ac else 'dc'}]: every result routine is called", sorted(n for n, _ in seen) == sorted(readers),
                    meta=dict(part="extract"))
            for nm, vm in seen:
                vm = vm if isinstance(vm, XV) else XV(vm, False)
                nan = _flag(vm.nan)
                if ac:
                    p.prove(f"extract[ac]: {nm} sees the solved voltage magnitudes", z3.And(nan == _flag(vm0.nan), z3.Implies(z3.Not(nan), to_z(vm.v, R) == to_z(vm0.v, R))),
                            meta=dict(part="extract"))
                else:
                    p.prove(f"extract[dc]: {nm} sees |V| = 1 p.u. at every bus in service", z3.And(nan == _flag(vm0.nan), z3.Implies(z3.Not(nan), to_z(vm.v, R) == 1)),
                            meta=dict(part="extract"), note="DC model: voltage magnitudes 1 p.u.; buses out of service keep NaN")
        vc.explore(f"_extract_results[{'ac' if ac else 'dc'}]", h, max_paths=10)


def _flag(x):
    return x if z3.is_expr(x) else z3.BoolVal(bool(x))


def classify(ob, model):
    return ob.meta.get("label", ob.id).split("[")[0]


def replay(ob, model, finding=None):
    if ob.meta.get("part") == "pfsoln-choice":
        from contracts import C01
        return C01.replay(ob, model, finding)
    if ob.meta.get("part") == "extract":
        return {"script": f"# replay of {ob.id}\nfrom replaylib.branchmodel import main_more\nmain_more()\n",
                "description": "DC power flow with voltage set points != 1 p.u.: currents, loadings and bus voltages against the DC model"}
    lab = ob.meta.get("label", "")
    script = f"""# replay of {ob.id}
# oracle (C02): reported branch results vs. an independent implementation of the documented element models on the solved voltages
from replaylib.branchmodel import main
main({lab.split(':')[0]!r})
"""
    return {"script": script, "description": "power flows on networks with lines / 2W / 3W transformers / impedances vs. independent two-port models"}
