"""C29 -- protection devices trip later for smaller currents, never earlier.

Functions under contract: pandapower.protection.protection_devices.fuse:Fuse.protection_function, Fuse.__init__,
Fuse.create_characteristic; pandapower.protection.protection_devices.ocrelay:OCRelay.protection_function,
OCRelay._select_k_alpha.

Obligations (relational: two executions of the real protection_function on the same device with currents i1 <= i2):
  * activation current: the reported activation_parameter_value is the device's own switch current from
    res_switch_sc.ikss_ka (scenario "sc") / res_switch.i_ka ("pp"); any other scenario raises ValueError.
  * trip condition: Fuse: trips  <=>  1000*i >= i_start_a ;  relay: trips  <=>  i > pick-up (I_g for DTOC, I_s else).
  * monotonicity: trip time t(i2) <= t(i1) in the extended reals (inf = no trip) under the statement's hypotheses:
    the fuse characteristic is non-increasing and non-negative on [i_start, i_stop]; the relay settings are
    consistently graded (0 < I_s <= I_g <= I_gg, t_gg <= t_g, tms*k >= 0, for IDTOC t_g <= IDMT time at I_g).
  * representation invariant of a Fuse built from a standard type: i_start_a / i_stop_a are the minimum / maximum of
    the x data of the very characteristic the fuse evaluates (whichever curve was selected).
x**alpha is an uninterpreted function with: monotone in x for alpha > 0, 1**alpha = 1 (A-TRANSC).
"""
from __future__ import annotations

import z3

from pyvc import netmodel, lib_np
from pyvc.values import SV, PV, Opaque, to_pv, B, I, R, EngineError, to_z, real, arith, compare, logic, ite, F_pow
from pyvc.containers import PDict
from pyvc.arrays import Table, Space, Arr
from pyvc.interp import Native, PyRaise, ObjVal

PROP = "C29"
FUSE = "pandapower.protection.protection_devices.fuse"
OCR = "pandapower.protection.protection_devices.ocrelay"
MIN_OBLIGATIONS = 40
NOT_DECIDED = ["not decided: that scipy's interpolator is monotone for monotone data (hypothesis of the statement, axiom on the "
               "characteristic callable)", "not decided: OCRelay.create_protection_function / time_grading (settings are inputs)"]
INF = float("inf")


def configure(it):
    netmodel.install(it)
    lib_np.install(it)


F_char = z3.Function("fuse_characteristic", R, R)


def _net(it, sw):
    """net with the two result tables and the characteristic table"""
    rs_sc = Table("res_switch_sc"); rs_sc.add_col("ikss_ka", R)
    rs = Table("res_switch"); rs.add_col("i_ka", R)
    ch = Table("characteristic")
    charobj = Native(lambda it, x: SV(F_char(to_z(x, R))), name="characteristic.__call__")
    ch.cols["object"] = charobj
    return netmodel.Net({"res_switch_sc": rs_sc, "res_switch": rs, "characteristic": ch}, strict=True), rs_sc, rs


def _le_ext(t2, t1):
    """t2 <= t1 over reals extended by +inf (python floats inf are concrete on each path)"""
    if isinstance(t1, float) and t1 == INF:
        return True
    if isinstance(t2, float) and t2 == INF:
        return False
    return compare("<=", t2, t1)


def _cur(tbl, col, sw):
    return tbl.by_label(None, col, to_z(sw, I))


def run(vc):
    vc.configure = configure
    vc.trust("x**alpha (alpha > 0): monotone, 1**alpha == 1 (A-TRANSC); fuse characteristic callable: non-increasing and "
             "non-negative on [i_start_a, i_stop_a] (hypothesis of the statement)",
             "pandas .at[label] returns the cell of the row with that index label (A-PANDAS)")
    vc.assume_std("A-REAL", "A-TRANSC", "A-PANDAS")

    # ---- Fuse.protection_function ---------------------------------------------------------------
    for scenario in ("sc", "pp", "other"):
        def h_fuse(p, scenario=scenario):
            cls = p.fn(f"{FUSE}:Fuse")
            p.fn(f"{FUSE}:Fuse.protection_function")
            sw = SV(z3.Int("switch_index"))
            i_start, i_stop = real("i_start_a"), real("i_stop_a")
            res = []
            nets = []
            for tag in ("1", "2"):
                net, rs_sc, rs = _net(p.it, sw)
                # two executions on the same device, different currents in the result tables
                rs_sc.cols["ikss_ka"] = SV(z3.Function(f"ikss_ka#{tag}", I, R)(rs_sc.space.i))
                rs.cols["i_ka"] = SV(z3.Function(f"i_ka#{tag}", I, R)(rs.space.i))
                dev = ObjVal(cls, {"switch_index": sw, "characteristic_index": SV(z3.Int("characteristic_index")),
                                   "i_start_a": i_start, "i_stop_a": i_stop, "tripped": False,
                                   "activation_parameter": "i_ka"})
                out = p.call(f"{FUSE}:Fuse.protection_function", dev, net, scenario)
                res.append((out, dev))
                nets.append((rs_sc, rs))
            if scenario == "other":
                for out, dev in res:
                    p.prove("fuse:bad-scenario-raises", out.raised and out.exc_name() == "ValueError",
                            note="a scenario other than sc/pp is rejected")
                return
            (o1, d1), (o2, d2) = res
            if o1.raised or o2.raised:
                raise EngineError(f"Fuse.protection_function raised {o1} {o2}")
            col, k = ("ikss_ka", 0) if scenario == "sc" else ("i_ka", 1)
            i1 = _cur(nets[0][k], col, sw)
            i2 = _cur(nets[1][k], col, sw)
            r1, r2 = o1.value, o2.value
            for tag, r, i, d in (("1", r1, i1, d1), ("2", r2, i2, d2)):
                p.prove(f"fuse:activation-current[{scenario}]#{tag}",
                        to_z(r.raw("activation_parameter_value"), R) == to_z(i, R),
                        note="reported activation current is the device's own switch current from the chosen result table")
                trip = r.raw("trip_melt")
                trip = trip if isinstance(trip, bool) else to_z(trip)
                p.prove(f"fuse:trip-iff-start[{scenario}]#{tag}",
                        (z3.BoolVal(trip) if isinstance(trip, bool) else trip) == to_z(compare(">=", arith("*", i, 1000), i_start)),
                        note="melts exactly when the current reaches the start value of its characteristic")
                p.prove(f"fuse:switch-id[{scenario}]#{tag}", to_z(r.raw("switch_id"), I) == to_z(sw, I))
            p.cover(f"fuse-path[{scenario}]", True)
            # hypotheses of the statement
            p.assume(compare("<=", i1, i2))
            p.assume(compare("<=", i_start, i_stop))
            x1, x2 = arith("*", i1, 1000), arith("*", i2, 1000)
            c1, c2 = F_char(to_z(x1, R)), F_char(to_z(x2, R))
            inside = lambda x: z3.And(to_z(i_start) <= to_z(x, R), to_z(x, R) <= to_z(i_stop))
            p.assume(z3.Implies(z3.And(inside(x1), inside(x2)), c2 <= c1))
            p.assume(z3.Implies(inside(x1), c1 >= 0))
            p.assume(z3.Implies(inside(x2), c2 >= 0))
            t1, t2 = r1.raw("trip_melt_time_s"), r2.raw("trip_melt_time_s")
            g = _le_ext(t2, t1)
            p.prove(f"fuse:monotone[{scenario}]", g, note="melting time is non-increasing in the current",
                    watch={"i1": to_z(i1, R), "i2": to_z(i2, R), "i_start": i_start.z, "i_stop": i_stop.z})
        vc.explore(f"Fuse.protection_function[{scenario}]", h_fuse, max_paths=40)

    # ---- Fuse.__init__ from a standard type -------------------------------------------------------
    for present in (("avg",), ("min", "total"), ("avg", "min", "total"), ("min",), ("total",)):
        for curve_select in (0, 1):
            def h_init(p, present=present, curve_select=curve_select):
                p.fn(f"{FUSE}:Fuse.__init__"); p.fn(f"{FUSE}:Fuse.create_characteristic")
                data = PDict({"i_rated_a": real("i_rated")})
                xs = {}
                for nm in ("avg", "min", "total"):
                    if nm in present:
                        xs[nm] = [real(f"x_{nm}{k}") for k in range(3)]
                        data.set(f"x_{nm}", xs[nm])
                        data.set(f"t_{nm}", [real(f"t_{nm}{k}") for k in range(3)])
                    else:
                        data.set(f"x_{nm}", 0)
                        data.set(f"t_{nm}", 0)
                created = []

                def logspline(it, net, x_values=None, y_values=None, **kw):
                    o = ObjVal(None, {"index": SV(z3.Int("char_index")), "x_values": x_values, "y_values": y_values})
                    created.append(o)
                    return o
                p.it.summaries[f"{FUSE}:LogSplineCharacteristic"] = logspline
                p.it.modenv(FUSE).vals["LogSplineCharacteristic"] = Native(logspline, pure=False, name="LogSplineCharacteristic")
                p.it.modenv(FUSE).vals["std_type_exists"] = Native(lambda it, *a, **k: True, name="std_type_exists")
                p.it.modenv(FUSE).vals["load_std_type"] = Native(lambda it, *a, **k: data, name="load_std_type")
                p.it.summaries["pandapower.protection.basic_protection_device:ProtectionDevice.__init__"] = lambda it, *a, **k: None
                sw_t = Table("switch"); sw_t.add_col("z_ohm", R)
                net = netmodel.Net({"switch": sw_t}, strict=True)
                cls = p.fn(f"{FUSE}:Fuse")
                out = p.call(cls, net, SV(z3.Int("switch_index")), fuse_type="some type", curve_select=curve_select)
                if out.raised:
                    # only legal when no curve matches the selection
                    selectable = ("avg" in present) or ("min" in present and curve_select == 0) or ("total" in present and curve_select == 1)
                    p.prove(f"fuse-init:raises-only-without-curve[{'+'.join(present)},{curve_select}]", not selectable)
                    return
                dev = out.value
                if len(created) != 1:
                    raise EngineError("Fuse.__init__ created %d characteristics" % len(created))
                xv = created[0].attrs["x_values"]
                lo, hi = xv[0], xv[0]
                for x in xv[1:]:
                    lo = ite(compare("<", x, lo), x, lo)
                    hi = ite(compare(">", x, hi), x, hi)
                p.prove(f"fuse-init:start-is-min-of-own-curve[{'+'.join(present)},{curve_select}]",
                        to_z(dev.attrs["i_start_a"], R) == to_z(lo, R),
                        note="i_start_a is the smallest x of the characteristic the fuse evaluates")
                p.prove(f"fuse-init:stop-is-max-of-own-curve[{'+'.join(present)},{curve_select}]",
                        to_z(dev.attrs["i_stop_a"], R) == to_z(hi, R))
                p.prove(f"fuse-init:char-index[{'+'.join(present)},{curve_select}]",
                        to_z(dev.attrs["characteristic_index"], I) == z3.Int("char_index"))
                want = "avg" if "avg" in present else ("min" if curve_select == 0 else "total")
                p.prove(f"fuse-init:curve-choice[{'+'.join(present)},{curve_select}]",
                        all(a is b for a, b in zip(xv, xs[want])), note="t_avg if given, else t_min / t_total by curve_select")
            vc.explore(f"Fuse.__init__[{'+'.join(present)},{curve_select}]", h_init, max_paths=20)

    # ---- OCRelay.protection_function --------------------------------------------------------------
    for rtype in ("DTOC", "IDMT", "IDTOC"):
        for curve in ("standard_inverse", "very_inverse", "extremely_inverse", "long_inverse"):
            if rtype == "DTOC" and curve != "standard_inverse":
                continue
            for scenario in ("sc", "pp"):
                def h_rel(p, rtype=rtype, curve=curve, scenario=scenario):
                    cls = p.fn(f"{OCR}:OCRelay")
                    p.fn(f"{OCR}:OCRelay.protection_function"); p.fn(f"{OCR}:OCRelay._select_k_alpha")
                    sw = SV(z3.Int("switch_index"))
                    S = {k: real(k) for k in ("I_g", "I_gg", "I_s", "t_g", "t_gg", "t_grade", "tms")}
                    # consistently graded settings (hypothesis of the statement)
                    p.assume(compare(">", S["I_s"], 0)); p.assume(compare("<=", S["I_s"], S["I_g"]))
                    p.assume(compare("<=", S["I_g"], S["I_gg"])); p.assume(compare(">", S["I_g"], 0))
                    p.assume(compare("<=", S["t_gg"], S["t_g"]))
                    res, nets = [], []
                    for tag in ("1", "2"):
                        net, rs_sc, rs = _net(p.it, sw)
                        rs_sc.cols["ikss_ka"] = SV(z3.Function(f"ikss_ka#{tag}", I, R)(rs_sc.space.i))
                        rs.cols["i_ka"] = SV(z3.Function(f"i_ka#{tag}", I, R)(rs.space.i))
                        dev = ObjVal(cls, dict(S, switch_index=sw, oc_relay_type=rtype, curve_type=curve, tripped=False,
                                               activation_parameter="i_ka"))
                        if rtype != "DTOC":
                            o = p.call(f"{OCR}:OCRelay._select_k_alpha", dev)
                            if o.raised or "k" not in dev.attrs:
                                raise EngineError("_select_k_alpha did not set k/alpha")
                        out = p.call(f"{OCR}:OCRelay.protection_function", dev, net, scenario)
                        if out.raised:
                            raise EngineError(f"OCRelay.protection_function raised {out.exc!r}")
                        res.append((out.value, dev)); nets.append((rs_sc, rs))
                    col, k = ("ikss_ka", 0) if scenario == "sc" else ("i_ka", 1)
                    i1, i2 = _cur(nets[0][k], col, sw), _cur(nets[1][k], col, sw)
                    pick = S["I_g"] if rtype == "DTOC" else S["I_s"]
                    for tag, (r, d), i in (("1", res[0], i1), ("2", res[1], i2)):
                        p.prove(f"relay:activation-current[{rtype},{curve},{scenario}]#{tag}",
                                to_z(r.raw("activation_parameter_value"), R) == to_z(i, R))
                        trip = r.raw("trip_melt")
                        p.prove(f"relay:trip-iff-pickup[{rtype},{curve},{scenario}]#{tag}",
                                (z3.BoolVal(trip) if isinstance(trip, bool) else to_z(trip)) == to_z(compare(">", i, pick)),
                                note="trips exactly when the current exceeds the pick-up value")
                    p.cover(f"relay-path[{rtype},{curve},{scenario}]", True)
                    p.assume(compare("<=", i1, i2))
                    d = res[0][1]
                    if rtype != "DTOC":
                        kk, al = d.attrs["k"], d.attrs["alpha"]
                        p.assume(compare(">=", arith("*", S["tms"], kk), 0))
                        al_z = to_z(al, R)
                        q1, q2 = arith("/", i1, S["I_s"]), arith("/", i2, S["I_s"])
                        qg = arith("/", S["I_g"], S["I_s"])
                        if al in (1, 2):
                            pows = None    # integer exponents are expanded by the executor: plain polynomial arithmetic
                        else:
                            # axioms of x**alpha for alpha > 0 at the terms that occur
                            terms = [q1, q2, qg]
                            for a in terms:
                                pa = F_pow(z3.simplify(to_z(a, R)), z3.simplify(al_z))
                                p.assume(z3.Implies(to_z(a, R) > 1, pa > 1))
                                for b2 in terms:
                                    pb = F_pow(z3.simplify(to_z(b2, R)), z3.simplify(al_z))
                                    p.assume(z3.Implies(z3.And(to_z(a, R) <= to_z(b2, R), to_z(a, R) > 0), pa <= pb))
                        if rtype == "IDTOC":
                            # t_g must not exceed the inverse-time value at I_g (graded settings)
                            from pyvc.values import spow
                            pg = arith("*", qg, qg) if al == 2 else (qg if al == 1 else SV(F_pow(z3.simplify(to_z(qg, R)), z3.simplify(al_z))))
                            idmt_at_Ig = arith("+", arith("/", arith("*", S["tms"], kk), arith("-", pg, 1)), S["t_grade"])
                            p.assume(z3.Implies(to_z(S["I_g"]) > to_z(S["I_s"]), to_z(S["t_g"]) <= to_z(idmt_at_Ig, R)))
                    t1, t2 = res[0][0].raw("trip_melt_time_s"), res[1][0].raw("trip_melt_time_s")
                    p.prove(f"relay:monotone[{rtype},{curve},{scenario}]", _le_ext(t2, t1),
                            note="trip time is non-increasing in the current", watch={"i1": to_z(i1, R), "i2": to_z(i2, R)})
                vc.explore(f"OCRelay.protection_function[{rtype},{curve},{scenario}]", h_rel, max_paths=60)
    _standins(vc)


def _standins(vc):
    if not hasattr(vc, "native_standins"):
        vc.native_standins = []
    vc.native_standins.append(dict(
        name="histories of device objects and hand-entered relay settings",
        bound="one fuse with two fixed monotone characteristics (5 and 6 points): after create_characteristic with the second data set, 66 "
              "currents: trip iff current >= new start, melting time non-increasing, data points reproduced (history of one device object: the "
              "deductive part treats one evaluation of a device whose characteristic is given); a fuse evaluated, printed and evaluated again; DTOC / "
              "IDTOC relays with a hand-entered I>> stage; three IDMT relays whose settings tables are ordered differently from the switches",
        script="from replaylib import run_all\nfrom replaylib.protection import fuse_reparameterised, devices_more\n"
               "run_all(fuse_reparameterised, devices_more)\n", timeout=600))


def classify(ob, model):
    return ob.meta.get("label", ob.id).split("[")[0]


def replay(ob, model, finding=None):
    lab = ob.meta.get("label", "")
    if lab.startswith("fuse"):
        return {"script": f"# replay of {ob.id}\n# sweep of the real Fuse objects built from every standard fuse type (both curve selections)\n"
                          "from replaylib.protection import fuse_main\nfuse_main()\n",
                "description": "Fuse from std types: start/stop of own characteristic, trip condition, monotone melting time"}
    if lab.startswith("relay"):
        import re
        m = re.search(r"\[(\w+),(\w+),(\w+)\]", lab)
        if m:
            return {"script": f"# replay of {ob.id}\nfrom replaylib.protection import relay_main\nrelay_main({m.group(1)!r}, {m.group(2)!r})\n",
                    "description": "current sweep through the real OCRelay.protection_function with graded settings"}
    return None
