"""C05 -- invariance under equivalent re-representations (per-unit base, parallel lines, end swap).

Functions under contract (real text): pandapower.build_branch:_calc_switch_parameter, _calc_line_parameter (per-unit conversion, via
the C02 line contract), pandapower.pypower.makeYbus:branch_vectors (homogeneity / additivity / symmetry lemmas).

  * per-unit conversion: every per-unit branch impedance written for lines and impedance bus-bus switches is ohm / (V_N^2 / S_N) with
    S_N = net.sn_mva: BR_R * V_N^2 / S_N is the physical resistance for *every* S_N (so results cannot depend on the base);
  * homogeneity of the branch two-port: scaling all series impedances by k and all shunt admittances by 1/k (what a base change
    S_N -> k S_N does) scales Yff, Yft, Ytf, Ytt by 1/k -- the physical admittances Y_pu * S_N / V_N^2 are unchanged;
  * a line with parallel = n (r/n, x/n, n b, n g) has n times the admittances of the single line (n identical lines in parallel);
  * swapping the ends of a branch without tap changer swaps Yff <-> Ytt and Yft <-> Ytf.
"""
from __future__ import annotations

import z3

from pyvc.values import SV, CV, XV, PV, B, I, R, EngineError, to_z, real, arith, carith, compare, ite, ssqrt
from pyvc.containers import PDict
from pyvc.arrays import Table, Mat, Space, Arr, subst
from pyvc.vc import consts
from pyvc import netmodel
from contracts import ppcmodel as pm
from contracts import C02_build

PROP = "C05"
MIN_OBLIGATIONS = 40
BB = "pandapower.build_branch"
NOT_DECIDED = ["not decided deductively (bounded native stand-in only): relabelling / row permutation (A-LOOKUP is assumed, not proved), splitting "
               "loads (sum per bus: C01), out-of-service elements (_branches_with_oos_buses), bus fusing through zero-impedance switches "
               "(create_bus_lookup: union-find over arrays)",
               "not decided: per-unit conversion of transformers, impedances, wards, shunts (trafo chain not under contract)"]


def configure(it):
    pm.configure(it)


def _bv(p, cols, tag):
    """the real branch_vectors on a branch matrix with the given column contents"""
    ib = consts("pandapower.pypower.idx_brch")
    sp = Space.get("br")
    branch = Mat(f"branch{tag}", {"br": sp})
    for nm in ("BR_STATUS", "BR_R", "BR_X", "BR_B", "BR_G", "BR_R_ASYM", "BR_X_ASYM", "BR_G_ASYM", "BR_B_ASYM", "TAP", "SHIFT"):
        branch.cols[("br", getattr(ib, nm))] = cols.get(nm, 0.0)
    out = p.call("pandapower.pypower.makeYbus:branch_vectors", branch, SV(sp.n))
    if out.raised:
        raise EngineError(f"branch_vectors raised {out.exc!r}")
    return [x.e if isinstance(x.e, CV) else CV(x.e, 0) for x in out.value]      # Ytt, Yff, Yft, Ytf


def run(vc):
    vc.configure = configure
    vc.trust("A-LOOKUP: block layout of ppc['branch']", "numpy element-wise semantics; reals for floats")
    vc.assume_std("A-REAL", "A-GENERIC", "A-LOOKUP", "A-NUMPY")
    # (0) lines: per-unit conversion (obligations of the C02 line build contract)
    before = len(vc.obligations)
    C02_build.run_lines(vc)
    for ob in vc.obligations[before:]:
        ob.id = ob.id.replace("C02/", "C05/", 1)
        ob.prop = "C05"

    # (1) impedance bus-bus switches
    def h_sw(p):
        ib = consts("pandapower.pypower.idx_brch"); iu = consts("pandapower.pypower.idx_bus")
        branch = pm.branch_mat(); bus = pm.bus_mat()
        pm.colfun(bus, "all", iu.BASE_KV, R)
        lk, bs, idx = pm.branch_lookup()
        sw = pm.table("switch", {"bus": I, "element": I, "z_ohm": R})
        ssp = sw.space
        imp = SV(z3.Function("impedance_bb_switch", I, B)(ssp.i))
        branch.seg_masks["switch"] = imp.z
        lsp = Space.get("label:bus")
        bl = Arr(lsp, SV(z3.Function("bus_lookup", I, I)(lsp.i)))
        net = netmodel.Net({"_pd2ppc_lookups": PDict({"branch": lk, "bus": bl}), "_options": PDict({"switch_rx_ratio": real("rx_ratio")}),
                            "switch": sw, "sn_mva": real("sn_mva"), "_impedance_bb_switches": Arr(ssp, imp)}, strict=True)
        p.assume(compare(">", net.fields.raw("sn_mva"), 0))
        out = p.call(f"{BB}:_calc_switch_parameter", net, PDict({"branch": branch, "bus": bus}))
        if out.raised:
            raise EngineError(f"_calc_switch_parameter raised {out.exc!r}")
        p.assume(imp.z)
        c = sw.cols
        fb = z3.substitute(to_z(bl.e, I), (lsp.i, to_z(c["bus"], I)))
        tb = z3.substitute(to_z(bl.e, I), (lsp.i, to_z(c["element"], I)))
        vn = z3.Function(f"ppcbus[all,{iu.BASE_KV}]", I, R)(fb)
        p.assume(vn > 0)
        S = to_z(net.fields.raw("sn_mva"))
        rx = to_z(net.fields.raw("_options").raw("switch_rx_ratio"))
        G = lambda col: to_z(branch.get("switch", col), R)
        root = to_z(ssqrt(SV(1 + rx * rx)), R)
        p.prove("switch:r-physical", G(ib.BR_R) * (vn * vn / S) == to_z(c["z_ohm"]) * rx / root,
                note="BR_R * V_N^2 / S_N = z_ohm * rx/sqrt(1+rx^2): the physical resistance, for every S_N", meta=dict(part="switch"))
        p.prove("switch:x-physical", G(ib.BR_X) * (vn * vn / S) == to_z(c["z_ohm"]) / root, meta=dict(part="switch"))
        p.prove("switch:F_BUS", G(ib.F_BUS) == z3.ToReal(fb), meta=dict(part="switch"))
        p.prove("switch:T_BUS", G(ib.T_BUS) == z3.ToReal(tb), meta=dict(part="switch"))
        p.prove("switch:frame", all(s == "switch" for s, _ in branch.written) and not bus.written, meta=dict(part="switch"))
    vc.explore("_calc_switch_parameter", h_sw, max_paths=20)

    # (2)-(4) lemmas on the real branch_vectors
    def h_lemmas(p):
        sp = Space.get("br")
        f = lambda nm: SV(z3.Function(f"col.{nm}", I, R)(sp.i))
        r, x, b, g, st, tap, sh = f("r"), f("x"), f("b"), f("g"), f("st"), f("tap"), f("shift")
        k = real("k")
        p.assume(z3.And(to_z(k) > 0, z3.Or(to_z(r) != 0, to_z(x) != 0)))
        base = dict(BR_STATUS=st, BR_R=r, BR_X=x, BR_B=b, BR_G=g, TAP=tap, SHIFT=sh)
        Y1 = _bv(p, base, "1")
        mul = lambda a, c: arith("*", a, c)
        div = lambda a, c: arith("/", a, c)
        Yk = _bv(p, dict(base, BR_R=mul(r, k), BR_X=mul(x, k), BR_B=div(b, k), BR_G=div(g, k)), "k")
        for nm, a, c in zip(("Ytt", "Yff", "Yft", "Ytf"), Y1, Yk):
            p.prove(f"base-change:{nm}.re", to_z(c.re, R) * to_z(k) == to_z(a.re, R), kind="lemma", meta=dict(part="lemma"),
                    note="impedances * k, shunt admittances / k  =>  two-port admittances / k (per-unit base S_N -> k S_N)")
            p.prove(f"base-change:{nm}.im", to_z(c.im, R) * to_z(k) == to_z(a.im, R), kind="lemma", meta=dict(part="lemma"))
        n = real("n_parallel")
        p.assume(to_z(n) >= 1)
        Yn = _bv(p, dict(base, BR_R=div(r, n), BR_X=div(x, n), BR_B=mul(b, n), BR_G=mul(g, n)), "n")
        for nm, a, c in zip(("Ytt", "Yff", "Yft", "Ytf"), Y1, Yn):
            p.prove(f"parallel:{nm}.re", to_z(c.re, R) == to_z(a.re, R) * to_z(n), kind="lemma", meta=dict(part="lemma"),
                    note="parallel = n  <=>  n identical lines in parallel (admittances add)")
            p.prove(f"parallel:{nm}.im", to_z(c.im, R) == to_z(a.im, R) * to_z(n), kind="lemma", meta=dict(part="lemma"))
        Ys = _bv(p, dict(BR_STATUS=st, BR_R=r, BR_X=x, BR_B=b, BR_G=g, TAP=1.0, SHIFT=0.0), "s")
        p.prove("end-swap:Yff=Ytt", z3.And(to_z(Ys[0].re, R) == to_z(Ys[1].re, R), to_z(Ys[0].im, R) == to_z(Ys[1].im, R)), kind="lemma",
                meta=dict(part="lemma"), note="a branch without tap changer is symmetric: swapping its ends swaps the terminal flows")
        p.prove("end-swap:Yft=Ytf", z3.And(to_z(Ys[2].re, R) == to_z(Ys[3].re, R), to_z(Ys[2].im, R) == to_z(Ys[3].im, R)), kind="lemma",
                meta=dict(part="lemma"))
    vc.explore("branch_vectors[lemmas]", h_lemmas, max_paths=40)

    if not hasattr(vc, "native_standins"):
        vc.native_standins = []
    vc.native_standins.append(dict(
        name="table-level re-representations on one fixed network",
        bound="one 6-bus 20 kV feeder with an energised spur to an out-of-service bus: out-of-service line as first / last row, reversed line "
              "table, permuted load and bus tables, a load split in two, a load moved to a fused bus, zero-power / out-of-service elements added; "
              "bus voltages and slack power against the reference representation; calculate_voltage_angles='auto' on a 110 kV feeder with a Dy5 "
              "transformer: swapped line ends, high-voltage buses as first rows",
        script="import sys\nfrom replaylib.representations import main_tables, main_relabel\n"
               "from replaylib import run_all\nrun_all(main_tables, main_relabel)\n",
        known={"C05/auto-voltage-angles-depend-on-line-orientation": r"calculate_voltage_angles='auto': with the second 110 kV line entered with swapped ends"}))


def classify(ob, model):
    return ob.meta.get("part", "line")


def replay(ob, model, finding=None):
    return {"script": f"# replay of {ob.id}\nfrom replaylib.representations import main\nmain()\n",
            "description": "power flows under a changed per-unit base, parallel lines split, line ends swapped, with impedance bus-bus switches"}
