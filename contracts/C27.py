"""C27 -- group operations behave as set operations on the group membership.

Functions under contract (real text): pandapower.groups:detach_from_groups (index groups and reference-column groups),
pandapower.toolbox.grid_modification:drop_elements_at_buses (order of detaching and dropping).

Abstract model: the member list of a group row is a set; for the generic group row r and the generic element x
  * detach_from_groups(net, T, D): members'(r) = members(r) \\ D if r has element type T (and is one of the addressed groups), unchanged
    otherwise; for a reference-column group D is mapped through the column (the names of the dropped elements); a row is kept iff it
    still has members (other rows are always kept);
  * drop_elements_at_buses detaches the elements from the groups while their rows are still in the element table (reference-column
    groups look the names up there) and drops the rows afterwards -- ghost table versions as in C22.
"""
from __future__ import annotations

import z3

from pyvc.values import SV, CV, XV, PV, B, I, R, EngineError, to_z, to_pv, real, Opaque
from pyvc.containers import PDict
from pyvc.arrays import Table, Space, Arr, SetVal, subst, truth_z
from pyvc.interp import Native
from pyvc.lib_np import isin
from pyvc import netmodel
from contracts import ppcmodel as pm
from contracts import C22

PROP = "C27"
MIN_OBLIGATIONS = 8
GR = "pandapower.groups"
GM = "pandapower.toolbox.grid_modification"
NOT_DECIDED = ["not decided: attach_to_group(s), group_element_index, set_group_in_service / out_of_service, result functions, reindexing of group "
               "members (loop over group rows in reindex_elements), create_group"]


def configure(it):
    pm.configure(it)
    it.generic_loops = True
    it.quantified_witnesses = True


def run(vc):
    vc.configure = configure
    vc.trust("pd.Index(...).difference / intersection are set operations; member lists are used as sets")
    vc.assume_std("A-GENERIC")

    for refcol in (None, "name"):
        def h(p, refcol=refcol):
            grp = Table("group", cols={})
            gs = grp.space
            x = z3.Const("x_member", I if refcol is None else PV)
            M = z3.Function("member", I, x.sort(), B)
            grp.cols["element_type"] = SV(z3.Function("group.element_type", I, PV)(gs.i))
            grp.cols["reference_column"] = refcol
            grp.cols["element_index"] = SetVal(x, M(gs.i, x))
            el = pm.table("load", {"name": PV, "bus": I})
            dsp = Space.get("dropped")
            dropped = Arr(dsp, SV(z3.Function("dropped_index", I, I)(dsp.i)))
            net = netmodel.Net({"group": grp, "load": el}, strict=True)
            me = p.it.modenv(GR)
            me.vals["ensure_iterability"] = Native(lambda it, v, *a, **k: v, name="ensure_iterability")
            p.assume(z3.And(gs.n > 0, gs.i >= 0, gs.i < gs.n))
            out = p.call(f"{GR}:detach_from_groups", net, "load", dropped)
            if out.raised:
                raise EngineError(f"detach_from_groups raised {out.exc!r}")
            g2 = net.fields.raw("group")
            tab2 = g2.table if hasattr(g2, "table") else g2
            keep = g2.mask if hasattr(g2, "mask") else z3.BoolVal(True)
            new = tab2.cols["element_index"]
            affected = grp.cols["element_type"].z == to_pv("load")
            if refcol is None:
                gone = truth_z(isin(p.it, Arr(Space.get("one"), SV(x)), dropped).e)
            else:
                # the names of the dropped elements that (still) exist in the element table
                names = Arr(dsp, subst(el.cols["name"], el.space.i, el.pos_of(to_z(dropped.e, I))))
                gone = None
            tag = f"detach[{'index' if refcol is None else 'reference column'}]"
            p.prove(f"{tag}:set-valued-member-list", isinstance(new, SetVal), meta=dict(part="detach"))
            if not isinstance(new, SetVal):
                return
            if gone is not None:
                p.prove(f"{tag}:members-are-the-set-difference", new.mem(x) == z3.If(affected, z3.And(M(gs.i, x), z3.Not(gone)), M(gs.i, x)),
                        meta=dict(part="detach"), note="members'(r) = members(r) minus the detached elements for rows of that element type, unchanged otherwise")
            else:
                p.prove(f"{tag}:only-members-are-removed", z3.Implies(new.mem(x), M(gs.i, x)), meta=dict(part="detach"))
                p.prove(f"{tag}:other-element-types-unchanged", z3.Implies(z3.Not(affected), new.mem(x) == M(gs.i, x)), meta=dict(part="detach"))
                w = z3.Int("w_element_row")
                in_dropped = truth_z(isin(p.it, Arr(el.space, el.index_e), dropped).e)
                exists = z3.Exists([w], z3.And(w >= 0, w < el.space.n, z3.substitute(in_dropped, (el.space.i, w)),
                                               z3.substitute(el.cols["name"].z, (el.space.i, w)) == x))
                p.prove(f"{tag}:names-are-looked-up-in-the-element-table", z3.Implies(z3.And(affected, M(gs.i, x), z3.Not(new.mem(x))), exists),
                        meta=dict(part="detach"), note="a removed member is the reference value of a detached element that exists in the element table")
            card = to_z(new.sym_len(p.it), I)
            p.prove(f"{tag}:row-kept-iff-members-remain", keep == z3.Or(z3.Not(affected), card != 0), meta=dict(part="detach"),
                    note="a group row disappears exactly when it has no members left; rows of other element types stay")
        vc.explore(f"detach_from_groups[{refcol}]", h, max_paths=100)

    # ---- order in drop_elements_at_buses (ghost table versions) -----------------------------------------------------------------
    def h_drop(p):
        log = []
        p.it.attr_hooks.append((C22.GTable, C22.gtable_attr))
        p.it.attr_hooks.append((C22.GNet, C22.gnet_attr))
        net = C22.GNet(log, C22.TABLES + ["poly_cost", "pwl_cost"])
        me = p.it.modenv(GM)
        me.vals["detach_from_groups"] = Native(lambda it, n, et, idx, index=None: log.append(("detach", et, n.tables[et].version)), name="detach_from_groups",
                                               pure=False)
        me.vals["drop_measurements_at_elements"] = Native(lambda it, *a, **k: None, name="drop_measurements_at_elements", pure=False)
        me.vals["element_bus_tuples"] = Native(lambda it, *a, **k: [("load", "bus")], name="element_bus_tuples")
        me.vals["any"] = Native(lambda it, v: True, name="any")
        out = p.call(f"{GM}:drop_elements_at_buses", net, Opaque("buses"))
        if out.raised:
            raise EngineError(f"drop_elements_at_buses raised {out.exc!r}")
        det = [e for e in log if e[0] == "detach" and e[1] == "load"]
        drops = [k for k, e in enumerate(log) if e[0] == "drop" and e[1] == "load"]
        p.prove("drop_elements_at_buses:detach-called", len(det) == 1, meta=dict(part="order"))
        p.prove("drop_elements_at_buses:detach-before-rows-are-dropped", all(e[2] == 0 for e in det) and bool(drops) and
                (not det or all(k > log.index(det[0]) for k in drops)), meta=dict(part="order"),
                note="reference-column groups find the members of the dropped elements in the element table: it must still hold the rows")
    vc.explore("drop_elements_at_buses", h_drop, max_paths=40)

    # ---- the other row-dropping helpers of the cascade: members are detached before the rows go -------------------------------------
    for fn, et, args in (("drop_switches_at_buses", "switch", [Opaque("buses")]),
                         ("drop_measurements_at_elements", "measurement", ["load", Opaque("idx")])):
        def h_other(p, fn=fn, et=et, args=args):
            log = []
            p.it.attr_hooks.append((C22.GTable, C22.gtable_attr))
            p.it.attr_hooks.append((C22.GNet, C22.gnet_attr))
            net = C22.GNet(log, C22.TABLES)
            me = p.it.modenv(GM)
            me.vals["detach_from_groups"] = Native(lambda it, n, et_, idx, index=None: log.append(("detach", et_, n.tables[et_].version)),
                                                   name="detach_from_groups", pure=False)
            me.vals["ensure_iterability"] = Native(lambda it, x, *a, **k: x, name="ensure_iterability")
            p.it.lenient_numpy = True
            out = p.call(f"{GM}:{fn}", net, *args)
            if out.raised:
                raise EngineError(f"{fn} raised {out.exc!r}")
            det = [e for e in log if e[0] == "detach" and e[1] == et]
            drops = [k for k, e in enumerate(log) if (e[0] == "drop" and e[1] == et) or (e[0] == "assign" and e[1] == et)]
            p.prove(f"{fn}:the dropped {et} rows are detached from the groups", len(det) == 1, meta=dict(part="order"),
                    note="a group that lists a dropped switch / measurement would keep a member that no longer exists")
            p.prove(f"{fn}:detach-before-rows-are-dropped", bool(det) and all(e[2] == 0 for e in det) and bool(drops) and
                    all(k > log.index(det[0]) for k in drops), meta=dict(part="order"))
        vc.explore(fn, h_other, max_paths=40)

    if not hasattr(vc, "native_standins"):
        vc.native_standins = []
    vc.native_standins.append(dict(
        name="further group operations against a set model",
        bound="three small fixed networks: attach_to_group to a group that is not the first row of net.group; drop_buses with switches and "
              "measurements of the bus in groups; reindex_elements for a part of the elements (lookup shorter than the table, old_indices "
              "shorter than the lookup)",
        script="from replaylib.groupsets import main_more\nmain_more()\n"))


def classify(ob, model):
    return ob.meta.get("part", "")


def replay(ob, model, finding=None):
    if "drop_switches_at_buses" in ob.id or "drop_measurements_at_elements" in ob.id:
        return {"script": f"# replay of {ob.id}\nfrom replaylib.groupsets import main_more\nmain_more()\n",
                "description": "drop_buses on a network whose switches and measurements are group members: membership against a set model"}
    return {"script": f"# replay of {ob.id}\nfrom replaylib.groupsets import main\nmain()\n",
            "description": "group membership after detach / drop operations against a set model (index groups and name-referenced groups)"}
