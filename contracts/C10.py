"""C10 -- distributed slack: the slack weights reach the solver unchanged and shared-bus power is split in proportion to them.

Functions under contract (real text): pandapower.build_gen:_build_pp_ext_grid, _build_pp_gen, _build_pp_xward (column SL_FAC),
pandapower.pypower.pfsoln:_split_p_for_gens_at_same_bus.

  * for the generic in-service ext_grid, gen and xward the slack contribution factor written into ppc['gen'] is the element's own
    slack_weight (not scaled by anything else: the deviation of a participant divided by its weight is what the solver equalises);
  * at a reference bus shared by several machines the real _split_p_for_gens_at_same_bus gives every reference machine the increment
    (p_bus - sum of all machine setpoints) * w / sum(w): the deviation from the setpoint divided by the weight is the same for all of
    them, the PV gens at the bus keep their setpoints.
The equalisation across buses is done by the Newton iteration (mismatch + slack_weights * slack): bounded native stand-in only.

Added later: _run_pf_algorithm runs the Newton-Raphson solver whenever distributed_slack is set -- the shortcut for networks of reference buses
only ignores the slack weights (run_dispatch).
"""
from __future__ import annotations

import z3

from pyvc.values import SV, CV, XV, PV, B, I, R, EngineError, to_z, real, Opaque
from pyvc.containers import PDict
from pyvc.arrays import Table, Mat, Space, Arr, subst, truth_z
from pyvc.interp import Native
from pyvc.vc import consts
from pyvc.sigma import sigma
from pyvc import netmodel
from contracts import ppcmodel as pm
from contracts import C16

PROP = "C10"
MIN_OBLIGATIONS = 6
BG = "pandapower.build_gen"
NOT_DECIDED = ["not decided deductively: the Newton iteration with the slack variable (newtonpf), weight normalisation per island "
               "(_normalise_slack_weights: graph components), xward result extraction -- bounded native stand-in only"]


def configure(it):
    pm.configure(it)
    it.generic_loops = True


def run(vc):
    vc.configure = configure
    vc.trust("A-LOOKUP: block layout of ppc['gen']; finite sums are linear (pyvc.sigma)")
    vc.assume_std("A-REAL", "A-GENERIC", "A-LOOKUP", "A-SUM")
    ig = consts("pandapower.pypower.idx_gen")

    def weight(fn, element, seg, cols, extra=None):
        def h(p):
            net, ppc, gen, bus, tab, is_el, f, t, ig_, iu, bl = C16._setup(element, seg, cols, mode="pf")
            if extra:
                extra(net, tab)
            pm.colfun(bus, "all", iu.BUS_TYPE, R)
            out = p.call(f"{BG}:{fn}", net, ppc, f, t)
            if out.raised:
                raise EngineError(f"{fn} raised {out.exc!r}")
            p.assume(is_el.z)
            p.prove(f"weight[{element}]:SL_FAC-is-slack_weight", to_z(gen.get(seg, ig.SL_FAC), R) == to_z(tab.cols["slack_weight"]),
                    meta=dict(part="weight", element=element), note="the contribution factor handed to the solver is the element's slack_weight")
        return h
    vc.explore("_build_pp_ext_grid[SL_FAC]", weight("_build_pp_ext_grid", "ext_grid", "ext_grid", {"bus": I, "vm_pu": R, "va_degree": R, "slack_weight": R}),
               max_paths=40)
    vc.explore("_build_pp_gen[SL_FAC]", weight("_build_pp_gen", "gen", "gen", {"bus": I, "p_mw": R, "vm_pu": R, "scaling": R, "sn_mva": R, "slack_weight": R,
                                                                             "min_p_mw": R, "max_p_mw": R, "min_q_mvar": R, "max_q_mvar": R}), max_paths=40)

    def xw_extra(net, tab):
        lsp = Space.get("label:xward")
        net.fields.raw("_pd2ppc_lookups").set("aux", PDict({"xward": Arr(tab.space, SV(z3.Function("aux_xward", I, I)(tab.space.i)))}))
        net.fields.raw("_options").set("q_lim_default", real("q_lim_default"))
    vc.explore("_build_pp_xward[SL_FAC]", weight("_build_pp_xward", "xward", "xward", {"bus": I, "vm_pu": R, "slack_weight": R}, xw_extra), max_paths=40)

    PS = "pandapower.pypower.pfsoln"

    def h_split(p):
        gsp = Space.get("ppcgen")
        gen = Mat("gen", {"all": gsp})
        pm.colfun(gen, "all", ig.PG, R); pm.colfun(gen, "all", ig.SL_FAC, R)
        esp, vsp, asp = Space.get("ext"), Space.get("pv"), Space.get("gab")
        ext = Arr(esp, SV(z3.Function("ext_idx", I, I)(esp.i)))
        pv = Arr(vsp, SV(z3.Function("pv_idx", I, I)(vsp.i)))
        gab = Arr(asp, SV(z3.Function("gab_idx", I, I)(asp.i)))
        p.assume(z3.And(asp.n == esp.n + vsp.n, esp.n >= 1, vsp.n >= 0, asp.n > 1))
        me = p.it.modenv(PS)
        me.vals["intersect1d"] = Native(lambda it, a, b: ext, name="intersect1d")
        me.vals["setdiff1d"] = Native(lambda it, a, b: pv, name="setdiff1d")
        p_bus = real("p_bus")
        PGf = z3.Function(f"gen[all,{ig.PG}]", I, R); Wf = z3.Function(f"gen[all,{ig.SL_FAC}]", I, R)
        pg0 = PGf(to_z(ext.e, I)); w = Wf(to_z(ext.e, I))
        sum_ext = to_z(sigma(p.it, Arr(esp, SV(pg0))), R); sum_pv = to_z(sigma(p.it, Arr(vsp, SV(PGf(to_z(pv.e, I))))), R)
        W = to_z(sigma(p.it, Arr(esp, SV(w))), R)
        out = p.call(f"{PS}:_split_p_for_gens_at_same_bus", gen, p_bus, gab, Opaque("ref_gens"))
        if out.raised:
            raise EngineError(f"_split_p_for_gens_at_same_bus raised {out.exc!r}")
        new = to_z(gen.row_of(esp, ext.e, ig.PG, p.it), R)
        p.prove("shared-bus:deviation-proportional-to-weight", z3.Implies(W > 0, (new - pg0) * W == (to_z(p_bus, R) - sum_pv - sum_ext) * w),
                meta=dict(part="split"), note="(PG' - PG) / w is the same for all reference machines at the bus: (p_bus - sum of setpoints) / sum(w)")
        p.prove("shared-bus:pv-gens-keep-their-setpoint", to_z(gen.row_of(vsp, pv.e, ig.PG, p.it), R) == PGf(to_z(pv.e, I)), meta=dict(part="split"))
    vc.explore("_split_p_for_gens_at_same_bus[weights]", h_split, max_paths=40)
    run_dispatch(vc)

    if not hasattr(vc, "native_standins"):
        vc.native_standins = []
    vc.native_standins.append(dict(
        name="distributed slack on fixed networks",
        bound="2 fixed ring networks (ext_grid, two gens at one bus, scaled gen, gen with weight 0, xward) with distributed_slack=True: deviation / "
              "weight equal for all participants, non-participants keep their setpoints, total balance; a ring of reference buses only; 5 xward "
              "scenarios (two participating xwards and one out of service, table order descending in the bus, sgen / scaled load at the xward "
              "bus, enforce_q_lims with a gen at its limit): ratios and nodal balance at every bus",
        script="import sys\nfrom replaylib.distslack import main, main_only_reference_buses, main_xwards\n"
               "from replaylib import run_all\nrun_all(main, main_only_reference_buses, main_xwards)\n"))


def classify(ob, model):
    return ob.meta.get("part", "") + ":" + ob.meta.get("element", "")


def run_dispatch(vc, options=None, label="with distributed_slack", part="dispatch", tag="distributed_slack", no_branch_finding=None):
    """_run_pf_algorithm: the shortcut for networks that consist of reference buses only (_bypass_pf_and_set_results: every reference
    machine covers its own bus) ignores the slack weights, so with distributed_slack the solver that equalises deviation / weight must run
    whatever the bus types are."""
    PF = "pandapower.powerflow"

    class Fn:
        def __init__(self, name):
            self.name = name
    for algorithm in ("nr", "iwamoto_nr"):
        def h(p, algorithm=algorithm):
            called = []
            me = p.it.modenv(PF)
            for nm in ("_bypass_pf_and_set_results", "_run_bfswpf", "_run_newton_raphson_pf", "_runpf_pypower", "_run_dc_pf"):
                me.vals[nm] = Native(lambda it, *a, _nm=nm, **k: (called.append(_nm), Opaque("result"))[1], name=nm, pure=False)
            npv, npq = SV(z3.Int("number_of_pv_buses")), SV(z3.Int("number_of_pq_buses"))
            p.assume(z3.And(npv.z >= 0, npq.z >= 0))

            class Idx:
                def __init__(self, n):
                    self.shape = (n,)
            me.vals["bustypes"] = Native(lambda it, bus, gen: (Opaque("ref"), Idx(npv), Idx(npq)), name="bustypes")
            facts = {nm: SV(z3.Int(f"rows[{nm}]")) for nm in ("svc", "tcsc", "ssc", "vsc")}
            for v in facts.values():
                p.assume(v.z >= 0)

            class Rows:
                def __init__(self, n):
                    self.n = n

                def sym_len(self, it):
                    return self.n
            nbr = SV(z3.Int("number_of_branches"))
            p.assume(nbr.z >= 0)
            ppci = PDict(dict({"bus": Opaque("bus"), "gen": Opaque("gen"), "branch": Idx(nbr)}, **{k: Rows(v) for k, v in facts.items()}))
            opts = {"algorithm": algorithm, "ac": True, "distributed_slack": True, "enforce_q_lims": False, "recycle": None}
            opts.update(options or {})
            out = p.call(f"{PF}:_run_pf_algorithm", ppci, PDict(opts))
            if out.raised:
                raise EngineError(f"_run_pf_algorithm raised {out.exc!r}")
            if no_branch_finding:
                p.prove(f"dispatch[{algorithm}]: {label} the Newton-Raphson solver runs (no shortcut) in a network with branches",
                        z3.Implies(nbr.z > 0, z3.BoolVal(called == ["_run_newton_raphson_pf"])), meta=dict(part=part),
                        note="also for networks without PV and PQ buses")
                p.prove(f"dispatch[{algorithm}]: {label} the Newton-Raphson solver runs (no shortcut) in a network without branches",
                        z3.Implies(nbr.z <= 0, z3.BoolVal(called == ["_run_newton_raphson_pf"])), meta=dict(part=part, finding=no_branch_finding))
            else:
                p.prove(f"dispatch[{algorithm}]: {label} the Newton-Raphson solver runs (no shortcut)", called == ["_run_newton_raphson_pf"],
                        meta=dict(part=part), note="also for networks without PV and PQ buses")
        vc.explore(f"_run_pf_algorithm[{algorithm}, {tag}]", h, max_paths=40)


def replay(ob, model, finding=None):
    if ob.meta.get("part") == "dispatch":
        return {"script": f"# replay of {ob.id}\nfrom replaylib.distslack import main_only_reference_buses\nmain_only_reference_buses()\n",
                "description": "runpp(distributed_slack=True) on a ring in which every bus carries an ext_grid or a slack gen: deviation / weight "
                               "equal for all participants"}
    return {"script": f"# replay of {ob.id}\nfrom replaylib.distslack import main\nmain()\n",
            "description": "runpp(distributed_slack=True): deviation from the setpoint divided by the slack weight is the same for all participants"}
