"""C26 -- topology graphs represent exactly the energizing connections.

Functions under contract (real text): pandapower.topology.create_graph:create_nxgraph (+ init_par, get_edge_table; add_edges is the
boundary: the contract is on what is handed to it), pandapower.topology.graph_searches:calc_distance_to_bus.

For the generic row of every branch table (any number of rows), for respect_switches in {True, False} and include_out_of_service in
{False, True}:
    an edge (element, index) between the table's bus columns is handed to add_edges
        <=>  (in_service or include_out_of_service) and not (respect_switches and an open switch with the element's code refers to it
             [trafo3w: at one of the two buses of the edge])
    bus-bus switches: edge bus -- element  <=>  et == 'b' and (closed or not respect_switches);
    lines carry their length as weight; out-of-service buses are removed from the graph unless include_out_of_service.
calc_distance_to_bus: the graph whose shortest paths are returned is a *multi* graph built with the caller's respect_switches /
nogobuses / notravbuses (parallel branches keep their own weights; nx.single_source_dijkstra_path_length is trusted).

Added later: every out-of-service bus that is a node is removed unless include_out_of_service, whatever other conditions hold.
"""
from __future__ import annotations

import z3

from pyvc.values import SV, CV, XV, PV, B, I, R, EngineError, to_z, to_pv, real, Opaque
from pyvc.containers import PDict
from pyvc.arrays import Table, Mat, Space, Arr, subst, truth_z
from pyvc.interp import Native, ObjVal, PyRaise, Namespace
from pyvc import netmodel
from pyvc.lib_np import isin
from contracts import ppcmodel as pm

PROP = "C26"
MIN_OBLIGATIONS = 30
CG = "pandapower.topology.create_graph"
GS = "pandapower.topology.graph_searches"
NOT_DECIDED = ["bounded native stand-in only: connected_components (generator over a networkx graph), nogobuses / notravbuses removal (networkx adjacency "
               "manipulation), branch impedances of the edges, tcsc / dcline / vsc / line_dc edges, graph_tool back end",
               "not decided: networkx itself (Dijkstra, MultiGraph) -- external"]


def configure(it):
    pm.configure(it)
    it.generic_loops = True
    it.opaque_loops = True


class Graph:
    opaque_like = False

    def __init__(self, kind, log):
        self.kind, self.log = kind, log

    def sym_contains(self, it, x):
        return Opaque("node in graph")


def graph_attr(it, g, name):
    if name in ("add_node", "remove_node", "add_edge", "add_nodes_from", "add_edges_from"):
        return Native(lambda it, *a, **k: g.log.append((name, a, k, list(it.ctx.pc))), name=name, pure=False)
    if name == "nodes":
        return Native(lambda it: Opaque("nodes"), name="nodes")
    return Opaque(f"graph.{name}")


def run(vc):
    vc.configure = configure
    vc.trust("add_edges(mg, indices, parameter, in_service, ...) adds one edge F_BUS -- T_BUS per row with in_service True (loop over the rows)",
             "networkx MultiGraph / Dijkstra")
    vc.assume_std("A-GENERIC", "A-NUMPY")

    for respect in (True, False):
        for incl_oos in (False, True):
            def h(p, respect=respect, incl_oos=incl_oos):
                it = p.it
                log, edges = [], {}
                it.attr_hooks.append((Graph, graph_attr))
                me = it.modenv(CG)
                me.vals["nx"] = Namespace("networkx", {"MultiGraph": Native(lambda it: Graph("multi", log), name="MultiGraph"),
                                                       "Graph": Native(lambda it: Graph("simple", log), name="Graph")})
                me.vals["graph_tool_available"] = False

                def add_edges(it, mg, indices, parameter, in_service, net, element, calc=False, unit="ohm"):
                    edges.setdefault(element, []).append((indices, parameter, in_service))
                me.vals["add_edges"] = Native(add_edges, name="add_edges", pure=False)
                line = pm.table("line", {"from_bus": I, "to_bus": I, "length_km": R, "in_service": B})
                imp = pm.table("impedance", {"from_bus": I, "to_bus": I, "in_service": B})
                trafo = pm.table("trafo", {"hv_bus": I, "lv_bus": I, "in_service": B})
                t3 = pm.table("trafo3w", {"hv_bus": I, "mv_bus": I, "lv_bus": I, "in_service": B})
                sw = pm.table("switch", {"bus": I, "element": I, "et": PV, "closed": B})
                bus = pm.table("bus", {"in_service": B})
                empty = {n: pm.table(n, {"from_bus": I, "to_bus": I, "in_service": B}) for n in ("tcsc", "dcline", "line_dc")}
                empty["vsc"] = pm.table("vsc", {"bus": I, "bus_dc": I, "in_service": B})
                for t in empty.values():
                    p.assume(t.space.n == 0)
                for t in (line, imp, trafo, t3, sw, bus):
                    p.assume(t.space.n > 0)
                net = netmodel.Net(dict({"line": line, "impedance": imp, "trafo": trafo, "trafo3w": t3, "switch": sw, "bus": bus}, **empty), strict=True)
                out = p.call(f"{CG}:create_nxgraph", net, respect, True, True, True, True, True, True, True, True, None, None, True, False, "ohm",
                             "networkx", incl_oos)
                if out.raised:
                    raise EngineError(f"create_nxgraph raised {out.exc!r}")
                p.prove(f"graph[{respect},{incl_oos}]:multigraph", isinstance(out.value, Graph) and out.value.kind == "multi")
                opened = z3.Not(to_z(sw.cols["closed"]))
                tag = f"respect={respect},oos={incl_oos}"

                def nonempty_lemmas(pred, m):
                    """lemma instances: 'x is among the rows selected by mask m' implies that m selects some row -- for the any() /
                    len() decisions the code made on a mask that is (provably) the same as m"""
                    def same(mm):
                        s_ = z3.Solver(); s_.set("timeout", 2000); s_.add(mm != m)
                        return s_.check() == z3.unsat
                    for ax in list(it.ctx.axioms):
                        if z3.is_implies(ax) and z3.is_const(ax.arg(1)) and ax.arg(1).decl().name().startswith("any[switch"):
                            if same(ax.arg(0)):
                                p.assume(z3.Implies(pred, ax.arg(1)))
                        elif z3.is_and(ax) and "count[switch" in ax.arg(0).sexpr()[:40]:
                            # count axiom: And(c >= 0, c <= n, Implies(And(n > 0, mask), c >= 1))
                            for part in ax.children():
                                if z3.is_implies(part):
                                    ante = part.arg(0)
                                    cands = [ante] + ([z3.And(*ante.children()[1:])] if z3.is_and(ante) and ante.num_args() >= 2 else [])
                                    if any(same(mm) for mm in cands):
                                        p.assume(z3.Implies(pred, part.arg(1)))

                def open_at(code, idx_e, bus_e=None):
                    """an open switch with this code refers to the element (at that bus)"""
                    m = z3.And(sw.cols["et"].z == to_pv(code), opened)
                    if bus_e is None:
                        test = Arr(sw.space, sw.cols["element"], m)
                        pred = truth_z(isin(it, Arr(idx_e[0], idx_e[1]), test).e)
                    else:
                        test = Arr(sw.space, CV(sw.cols["element"], sw.cols["bus"]), m)
                        pred = truth_z(isin(it, Arr(idx_e[0], CV(idx_e[1], bus_e)), test).e)
                    nonempty_lemmas(pred, m)
                    return pred

                def check(element, tab, fcol, tcol, code, k=0, three=False):
                    got = edges.get(element, [])
                    if len(got) <= k:
                        p.prove(f"edges[{element},{tag}]:handed-to-add_edges", False, meta=dict(part="edges", element=element))
                        return
                    indices, parameter, ins = got[k]
                    c = tab.cols
                    F, T, X = (to_z(indices.cols[j].e, I) for j in (1, 2, 0))
                    p.prove(f"edges[{element}{k},{tag}]:endpoints", z3.And(F == to_z(c[fcol], I), T == to_z(c[tcol], I), X == to_z(tab.index_e, I)),
                            meta=dict(part="edges", element=element), note=f"edge {fcol} -- {tcol} keyed by the element index")
                    base = z3.BoolVal(True) if incl_oos else to_z(c["in_service"])
                    if respect and code is not None:
                        if three:
                            blocked = z3.Or(open_at(code, (tab.space, tab.index_e), c[fcol]), open_at(code, (tab.space, tab.index_e), c[tcol]))
                        else:
                            blocked = open_at(code, (tab.space, tab.index_e))
                        want = z3.And(base, z3.Not(blocked))
                    else:
                        want = base
                    insz = truth_z(ins.e) if isinstance(ins, Arr) else z3.BoolVal(bool(ins))
                    # lemma instances: an element found among the open switches implies that there is an open switch of that kind
                    for fct in list(it.ctx.facts):
                        pass
                    p.prove(f"edges[{element}{k},{tag}]:exactly-the-energizing-branches", insz == want, meta=dict(part="edges", element=element),
                            note="edge <=> in service (or out-of-service elements included) and not interrupted by an open switch (if respected)")
                check("line", line, "from_bus", "to_bus", "l")
                check("impedance", imp, "from_bus", "to_bus", None)
                check("trafo", trafo, "hv_bus", "lv_bus", "t")
                for k, (f, t) in enumerate((("hv", "mv"), ("hv", "lv"), ("mv", "lv"))):
                    check("trafo3w", t3, f"{f}_bus", f"{t}_bus", "t3", k=k, three=True)
                if edges.get("line"):
                    par = edges["line"][0][1]
                    p.prove(f"edges[line,{tag}]:weight-is-length", to_z(par.cols[0].e, R) == to_z(line.cols["length_km"]), meta=dict(part="edges", element="line"))
                got = edges.get("switch", [])
                p.prove(f"edges[switch,{tag}]:handed-to-add_edges", len(got) == 1, meta=dict(part="edges", element="switch"))
                if got:
                    indices, parameter, ins = got[0]
                    isb = sw.cols["et"].z == to_pv("b")
                    want = z3.And(isb, to_z(sw.cols["closed"])) if respect else isb
                    p.prove(f"edges[switch,{tag}]:closed-bus-bus-switches", truth_z(ins.e) == want, meta=dict(part="edges", element="switch"))
                    p.prove(f"edges[switch,{tag}]:endpoints", z3.And(to_z(indices.cols[1].e, I) == to_z(sw.cols["bus"], I),
                                                                      to_z(indices.cols[2].e, I) == to_z(sw.cols["element"], I)),
                            meta=dict(part="edges", element="switch"))
                removed = [e for e in log if e[0] == "remove_node"]
                if incl_oos:
                    p.prove(f"nodes[{tag}]:out-of-service-buses-kept", not removed, meta=dict(part="nodes"))
                else:
                    # the generic bus: if it is out of service and a node of the graph, this path has removed it
                    oos_node = z3.And(z3.Not(to_z(bus.cols["in_service"])), z3.Bool("opaque_truth[node in graph]"))
                    own = [e for e in removed if len(e[1]) == 1 and isinstance(e[1][0], SV) and z3.eq(z3.simplify(to_z(e[1][0], I)),
                                                                                                    z3.simplify(to_z(bus.index_e, I)))]
                    p.prove(f"nodes[{tag}]:every-out-of-service-bus-is-removed", z3.BoolVal(True) if own else z3.Not(oos_node), meta=dict(part="nodes"),
                            note="whatever else holds (number of nodes, nogobuses): an out-of-service bus does not stay in the graph")
            vc.explore(f"create_nxgraph[respect={respect},oos={incl_oos}]", h, max_paths=3000)

    def h_dist(p):
        calls = []
        me = p.it.modenv(GS)

        def cng(it, net, *a, **k):
            calls.append((a, k))
            return Opaque("graph")
        me.vals["create_nxgraph"] = Native(cng, name="create_nxgraph", pure=False)
        me.vals["nx"] = Namespace("networkx", {"single_source_dijkstra_path_length": Native(lambda it, g, b, weight="weight": Opaque("dist"),
                                                                                              name="dijkstra")})
        rs, nogo, notrav = SV(z3.Bool("respect_switches")), Opaque("nogobuses"), Opaque("notravbuses")
        out = p.call(f"{GS}:calc_distance_to_bus", Opaque("net"), SV(z3.Int("bus")), rs, nogo, notrav)
        if out.raised:
            raise EngineError(f"calc_distance_to_bus raised {out.exc!r}")
        p.prove("distance:one-graph", len(calls) == 1, meta=dict(part="distance"))
        if calls:
            a, k = calls[0]
            sig = ["respect_switches", "include_lines", "include_impedances", "include_dclines", "include_trafos", "include_trafo3ws", "include_tcsc",
                   "include_vsc", "include_line_dc", "nogobuses", "notravbuses", "multi"]
            args = dict(zip(sig, a)); args.update(k)
            p.prove("distance:multigraph", args.get("multi", True) is True, meta=dict(part="distance"),
                    note="parallel branches of different length need a multigraph: a simple graph keeps only the last added edge")
            p.prove("distance:callers-options", args.get("respect_switches") is rs and args.get("nogobuses") is nogo and args.get("notravbuses") is notrav,
                    meta=dict(part="distance"))
            p.prove("distance:all-branch-types", all(args.get(n, True) is True for n in sig[1:9]), meta=dict(part="distance"))
    vc.explore("calc_distance_to_bus", h_dist, max_paths=10)
    if not hasattr(vc, "native_standins"):
        vc.native_standins = []
    vc.native_standins.append(dict(
        name="graph, components and distances on fixed networks (incl. notravbuses next to out-of-service buses)",
        bound="one 12-bus network with every branch type and switch kind (respect_switches in {True, False}); chains of 5..7 buses with "
              "out-of-service buses, nogobuses and notravbuses; connected_components with six notravbuses sets",
        script="import sys\nfrom replaylib.topology import main, main_nodes, main_notrav\n"
               "from replaylib import run_all\nrun_all(main, main_nodes, main_notrav)\n",
        timeout=600))


def classify(ob, model):
    return ob.meta.get("part", "graph") + ":" + ob.meta.get("element", "")


def replay(ob, model, finding=None):
    if ob.meta.get("part") == "nodes":
        return {"script": f"# replay of {ob.id}\nfrom replaylib.topology import main_nodes\nmain_nodes()\n",
                "description": "create_nxgraph on a chain with two out-of-service buses and several nogobuses sets: node set and connected components"}
    return {"script": f"# replay of {ob.id}\nfrom replaylib.topology import main\nmain()\n",
            "description": "create_nxgraph edges against an independent edge enumeration, distances against Bellman-Ford on the element tables "
                           "(parallel lines of different length, open switches of all kinds, out-of-service elements)"}
