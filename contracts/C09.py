"""C09 -- results do not depend on the history of the network object (state carried on the net between calls).

Functions under contract (real text): pandapower.build_bus:create_bus_lookup (cached switch masks), get_voltage_init_vector (start
vector from previous results).

Ghost view: every attribute of the net that a later phase of the calculation reads (net._impedance_bb_switches, read by
_initialize_branch_lookup / _calc_switch_parameter / the switch results) must be *re-derived from the current element tables* by the
current run -- for every value a previous run may have left there.
  * create_bus_lookup: afterwards net._impedance_bb_switches is, for the generic switch, closed and et == 'b' and both buses in service and
    z_ohm > 0 -- whatever the attribute held before (numba and numpy paths, with and without impedance switches);
  * get_voltage_init_vector(init='results'): the start vector has no NaN: buses without a previous result start flat (1.0 pu, 0 degree),
    all others start from their previous result -- previous results only change the starting point.

Added later: _powerflow resets net._pd2ppc_lookups for AC and DC runs, from flat start and from results, before the conversion starts
(run_lookup_reset: ghost = the lookups that _pd2ppc sees).
"""
from __future__ import annotations

import z3

from pyvc.values import SV, CV, XV, PV, B, I, R, EngineError, to_z, to_pv, real, Opaque
from pyvc.containers import PDict
from pyvc.arrays import Table, Space, Arr, subst, truth_z
from pyvc.interp import Native
from pyvc.lib_np import isin
from pyvc import netmodel
from contracts import ppcmodel as pm

PROP = "C09"
MIN_OBLIGATIONS = 8
BBU = "pandapower.build_bus"
NOT_DECIDED = ["not decided: the other cached state (net._ppc, net._pd2ppc_lookups, net._is_elements are rebuilt by _pd2ppc: C08 frame contracts; "
               "recycle shortcuts: C12), option reset per call (C34), convergence of the Newton iteration from a nearby start (numerical)"]


def configure(it):
    pm.configure(it)


def run(vc):
    vc.configure = configure
    vc.trust("create_bus_lookup_numba / create_bus_lookup_numpy compute the bus fusing (union-find) from the current tables")
    vc.assume_std("A-GENERIC", "A-NUMPY")

    for numba in (True, False):
        def h(p, numba=numba):
            sw = pm.table("switch", {"bus": I, "element": I, "et": PV, "closed": B, "z_ohm": R})
            bsp = Space.get("bus_is")
            bus_is_idx = Arr(bsp, SV(z3.Function("bus_is_idx", I, I)(bsp.i)))
            previous = Arr(sw.space, SV(z3.Function("previous_impedance_bb_switches", I, B)(sw.space.i)))
            net = netmodel.Net({"switch": sw, "_impedance_bb_switches": previous}, strict=False)
            me = p.it.modenv(BBU)
            me.vals["create_bus_lookup_numba"] = Native(lambda it, *a: (Opaque("bus_lookup"), Opaque("merged")), name="create_bus_lookup_numba")
            me.vals["create_bus_lookup_numpy"] = Native(lambda it, *a: (Opaque("bus_lookup"), Opaque("merged")), name="create_bus_lookup_numpy")
            out = p.call(f"{BBU}:create_bus_lookup", net, Opaque("bus_index"), bus_is_idx, numba)
            if out.raised:
                raise EngineError(f"create_bus_lookup raised {out.exc!r}")
            c = sw.cols
            inb = lambda col: truth_z(isin(p.it, Arr(sw.space, c[col]), bus_is_idx).e)
            want = z3.And(to_z(c["closed"]), c["et"].z == to_pv("b"), inb("bus"), inb("element"), to_z(c["z_ohm"]) > 0)
            got = net.fields.raw("_impedance_bb_switches")
            tag = f"bus_lookup[numba={numba}]"
            if isinstance(got, Arr) and got.space is sw.space:
                gz = truth_z(got.e) if not isinstance(got.e, (int, float)) or isinstance(got.e, bool) else z3.BoolVal(bool(got.e))
                p.prove(f"{tag}:impedance-switch-mask-rederived", gz == want, meta=dict(part="cache"),
                        note="net._impedance_bb_switches after the call is a function of the current switch table only (closed bus-bus switch between "
                             "in-service buses with z_ohm > 0), whatever a previous calculation left there")
            else:
                # np.zeros(shape): no impedance switch at all
                zero = (isinstance(got, Arr) and not isinstance(got.e, (SV,)) and got.e in (0, 0.0, False)) or got is not previous
                p.prove(f"{tag}:impedance-switch-mask-rederived", z3.And(z3.BoolVal(bool(zero) and got is not previous), z3.Not(want)), meta=dict(part="cache"),
                        note="no switch with z_ohm > 0: the mask is reset to zeros")
            p.prove(f"{tag}:previous-value-not-kept", got is not previous, meta=dict(part="cache"))
        vc.explore(f"create_bus_lookup[numba={numba}]", h, max_paths=40)

    for mode, col, flat in (("magnitude", "vm_pu", 1.0), ("angle", "va_degree", 0.0)):
        def h_init(p, mode=mode, col=col, flat=flat):
            bus = pm.table("bus", {"vn_kv": R})
            res = pm.table("res_bus", {"vm_pu": "nan", "va_degree": "nan"}, space=bus.space)
            res.index_e = bus.index_e
            net = netmodel.Net({"bus": bus, "res_bus": res}, strict=True)
            me = p.it.modenv(BBU)
            out = p.call(f"{BBU}:get_voltage_init_vector", net, "results", mode)
            if out.raised:
                msg = str(out.exc.args[0]) if getattr(out.exc, "args", None) else ""
                if "Init from results not possible" in msg:
                    return      # result table does not belong to the bus table: rejected input
                raise EngineError(f"get_voltage_init_vector raised {out.exc!r}")
            v = out.value
            prev = res.cols[col]
            e = v.e if isinstance(v, Arr) else v
            if isinstance(e, XV):
                nan, val = (e.nan if not isinstance(e.nan, bool) else z3.BoolVal(e.nan)), to_z(e.v, R)
            else:
                nan, val = z3.BoolVal(False), to_z(e, R)
            p.prove(f"init[{mode}]:no-nan-in-the-start-vector", z3.Not(nan), meta=dict(part="init"),
                    note="buses that had no result in the previous calculation must not poison the start vector")
            p.prove(f"init[{mode}]:previous-result-or-flat", val == z3.If(prev.nan, z3.RealVal(flat), to_z(prev.v, R)), meta=dict(part="init"))
            p.prove(f"init[{mode}]:result-table-untouched", not res.writes, meta=dict(part="init"))
        vc.explore(f"get_voltage_init_vector[{mode}]", h_init, max_paths=40)
    run_lookup_reset(vc)
    if not hasattr(vc, "native_standins"):
        vc.native_standins = []
    vc.native_standins.append(dict(
        name="histories of one net object against fresh copies",
        bound="fixed networks: an impedance coupler opened after a run (runpp / rundcpp / numba off), init='results' after an island was reconnected, "
              "a bus out of service and back, all ext_grids switched off before rundcpp / runpp(init='results'), calc_sc(check_connectivity=False) "
              "after machines were switched off and on a fresh net",
        script="import subprocess, sys\nr = [subprocess.run([sys.executable, '-W', 'ignore', '-c', f'from replaylib.history import {f}; {f}()']).returncode "
               "for f in ('main', 'main_lookups', 'main_selection')]\nsys.exit(1 if 1 in r else max(r))\n", timeout=1200))


def classify(ob, model):
    return ob.meta.get("part", "")


def run_lookup_reset(vc):
    """_powerflow (driver of runpp and rundcpp): whatever a previous calculation left in net._pd2ppc_lookups, the conversion (_pd2ppc) of this
    calculation starts from lookups created in this call -- for AC and DC, from flat start and from previous results. (Parts of the
    conversion only overwrite the entries they need, e.g. the ext_grid lookup only if an ext_grid is in service: a surviving entry of an
    earlier network state would be used as if it were current.)"""
    PF = "pandapower.powerflow"

    class Stale:
        """a lookup left behind by an earlier calculation"""
        no_identity_merge = True

    for ac in (True, False):
        for init_results in (True, False):
            def h(p, ac=ac, init_results=init_results):
                old = {k: Stale() for k in ("bus", "bus_dc", "ext_grid", "gen", "branch", "branch_dc", "aux")}
                load = pm.table("load", {"const_z_p_percent": R, "const_i_p_percent": R, "const_z_q_percent": R, "const_i_q_percent": R})
                net = netmodel.Net({"_options": PDict({"ac": ac, "init_results": init_results, "algorithm": "nr", "voltage_depend_loads": False}),
                                    "_pd2ppc_lookups": PDict(dict(old)), "load": load}, strict=False)
                seen = []
                me = p.it.modenv(PF)
                calls = []
                for nm in ("_add_auxiliary_elements", "verify_results", "init_results", "_ppci_to_net"):
                    me.vals[nm] = Native(lambda it, *a, _nm=nm, **k: calls.append(_nm), name=nm, pure=False)
                me.vals["_run_pf_algorithm"] = Native(lambda it, *a, **k: Opaque("result"), name="_run_pf_algorithm")

                def pd2ppc(it, n, **k):
                    seen.append(n.fields.raw("_pd2ppc_lookups"))
                    return Opaque("ppc"), Opaque("ppci")
                me.vals["_pd2ppc"] = Native(pd2ppc, name="_pd2ppc", pure=False)
                out = p.call(f"{PF}:_powerflow", net)
                if out.raised:
                    raise EngineError(f"_powerflow raised {out.exc!r}")
                tag = f"_powerflow[ac={ac},init_results={init_results}]"
                p.prove(f"{tag}: the network is converted exactly once", len(seen) == 1, meta=dict(part="lookup-reset"))
                # the result tables of an earlier calculation are only kept when this calculation starts from them
                p.prove(f"{tag}: the result tables are re-initialised unless the calculation starts from previous results",
                        ("init_results" in calls) == (not init_results) and ("verify_results" in calls) == bool(init_results),
                        meta=dict(part="result-reset"),
                        note="a DC run writes no reactive results: columns it does not write must not keep the values of an earlier AC run")
                if len(seen) != 1:
                    return
                lk = seen[0]
                vals = list(lk.e.values()) if isinstance(lk, PDict) else list(lk.values()) if isinstance(lk, dict) else None
                fresh = vals is not None and not any(isinstance(v, Stale) or (isinstance(v, (list, tuple)) and any(isinstance(x, Stale) for x in v))
                                                     for v in vals) and not any(isinstance(v, Stale) for v in _flatten(vals))
                p.prove(f"{tag}: the conversion starts without any lookup of an earlier calculation", fresh, meta=dict(part="lookup-reset"),
                        note="net._pd2ppc_lookups at the call of _pd2ppc holds no object that was there before the call")
            vc.explore(f"_powerflow[ac={ac},init_results={init_results}]", h, max_paths=20)


def _flatten(vals):
    out = []
    for v in vals:
        if isinstance(v, (list, tuple)):
            out += _flatten(list(v))
        else:
            out.append(v)
    return out


def replay(ob, model, finding=None):
    if ob.meta.get("part") == "result-reset":
        return {"script": f"# replay of {ob.id}\nfrom replaylib.history import main_dc_after_ac\nmain_dc_after_ac()\n",
                "description": "runpp, a load change, then rundcpp on the same net object against rundcpp on a fresh copy: all result columns"}
    if ob.meta.get("part") == "lookup-reset":
        return {"script": f"# replay of {ob.id}\nfrom replaylib.history import main_lookups\nmain_lookups()\n",
                "description": "all ext_grids switched off after a first calculation (a slack gen remains), then rundcpp / runpp(init='results') "
                               "against fresh copies of the same state"}
    return {"script": f"# replay of {ob.id}\nfrom replaylib.history import main\nmain()\n",
            "description": "sequences of switch / in_service modifications and calculations on one net object against fresh copies of the final "
                           "state (impedance bus-bus switches opened after a run, init='results' after an island was reconnected)"}
