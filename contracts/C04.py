"""C04 -- power flow honours setpoints and element response laws (the parts handed to / read from the solver).

Functions under contract (real text): pandapower.build_gen:_build_pp_ext_grid, _build_pp_gen (power flow mode);
pandapower.results_bus:write_voltage_dependend_load_results, write_pq_results_to_element.

For the generic in-service element:
  * ext_grid: the slack row of ppc['gen'] has VG = vm_pu and the ext_grid bus starts with VM = vm_pu, VA = va_degree (the reference
    bus voltage is not changed by the Newton iteration: A-SOLVE), gen: PG = p_mw * scaling, VG = vm_pu, bus VM = vm_pu, reactive box
    min_q_mvar / max_q_mvar;
  * sgen / load / storage results: p_mw * scaling (q_mvar * scaling) when in service, 0 otherwise;
  * ZIP loads (voltage_depend_loads): res_load.p_mw = p_mw * scaling * (cp + ci * v + cz * v^2) with v the solved voltage magnitude of
    the load's own bus, cp = 1 - ci - cz (same for q).
"""
from __future__ import annotations

import z3

from pyvc.values import SV, CV, XV, PV, B, I, R, EngineError, to_z, real, arith, compare, ite, Opaque
from pyvc.containers import PDict
from pyvc.arrays import Table, Mat, Space, Arr, SegBound, subst, truth_z
from pyvc.vc import consts
from pyvc.interp import Native
from pyvc import netmodel
from contracts import ppcmodel as pm
from contracts import C16

PROP = "C04"
MIN_OBLIGATIONS = 20
BG = "pandapower.build_gen"
NOT_DECIDED = ["not decided: the Q-limit enforcement loop _run_ac_pf_with_qlims_enforced (index loop over a growing set of limited gens: needs a "
               "sum invariant over gens per bus), so 'a gen at its binding limit sits exactly at that limit' is not decided",
               "not decided: the Newton solver holding PV / reference voltages (A-SOLVE), motors, asymmetric elements",
               "not decided: shunts with step characteristic tables (step_dependency_table), svc / ssc / vsc results, the star-point "
               "losses of trafo3w in _calc_shunts_and_add_on_ppc (trafo3w_losses='star')"]


def configure(it):
    pm.configure(it)


def run(vc):
    vc.configure = configure
    vc.trust("A-SOLVE: the Newton-Raphson solver keeps VM (and VA) of reference buses and VM of PV buses at the values in ppc['bus'] / VG",
             "A-LOOKUP: block layout of ppc['gen']")
    vc.assume_std("A-REAL", "A-GENERIC", "A-LOOKUP", "A-NUMPY", "A-SOLVE")
    for ob_before in [len(vc.obligations)]:
        C16.run_gen(vc, ("pf",))
        C16.run_results(vc)
    for ob in vc.obligations:
        ob.id = ob.id.replace("C16/", "C04/", 1)
        ob.prop = "C04"

    for cva in (True, False):
        def h_eg(p, cva=cva):
            cols = {"bus": I, "vm_pu": R, "va_degree": R, "slack_weight": R}
            net, ppc, gen, bus, tab, is_el, f, t, ig, iu, bl = C16._setup("ext_grid", "ext_grid", cols, mode="pf")
            net.fields.raw("_options").set("calculate_voltage_angles", cva)
            out = p.call(f"{BG}:_build_pp_ext_grid", net, ppc, f, t)
            if out.raised:
                raise EngineError(f"_build_pp_ext_grid raised {out.exc!r}")
            p.assume(is_el.z)
            c = tab.cols
            G = lambda col: to_z(gen.get("ext_grid", col), R)
            tag = f"ext_grid[angles={cva}]"
            p.prove(f"{tag}:VG", G(ig.VG) == to_z(c["vm_pu"]), meta=dict(part="ext_grid"))
            eb = z3.substitute(to_z(bl.e, I), (bl.space.i, to_z(c["bus"], I)))
            p.prove(f"{tag}:GEN_BUS", G(ig.GEN_BUS) == z3.ToReal(eb), meta=dict(part="ext_grid"))
            p.prove(f"{tag}:bus-VM", to_z(bus.row_of(tab.space, SV(eb), iu.VM, p.it), R) == to_z(c["vm_pu"]), meta=dict(part="ext_grid"),
                    note="the ext_grid bus is given the ext_grid voltage magnitude")
            if cva:
                p.prove(f"{tag}:bus-VA", to_z(bus.row_of(tab.space, SV(eb), iu.VA, p.it), R) == to_z(c["va_degree"]), meta=dict(part="ext_grid"))
        vc.explore(f"_build_pp_ext_grid[{cva}]", h_eg, max_paths=40)

    def h_zip(p):
        iu = consts("pandapower.pypower.idx_bus")
        cols = {"bus": I, "p_mw": R, "q_mvar": R, "scaling": R, "const_z_p_percent": R, "const_i_p_percent": R, "const_z_q_percent": R,
                "const_i_q_percent": R}
        tab = pm.table("load", cols)
        sp = tab.space
        res = pm.result_table("res_load", sp, ["p_mw", "q_mvar"])
        is_l = SV(z3.Function("is_load", I, B)(sp.i))
        bus = pm.bus_mat()
        pm.colfun(bus, "all", 7, R)
        lsp = Space.get("label:bus")
        bl = Arr(lsp, SV(z3.Function("bus_lookup", I, I)(lsp.i)))
        net = netmodel.Net({"_options": PDict({"voltage_depend_loads": True}), "_is_elements": PDict({"load": Arr(sp, is_l)}),
                            "_pd2ppc_lookups": PDict({"bus": bl}), "load": tab, "res_load": res, "_ppc": PDict({"bus": bus})}, strict=True)
        p.assume(z3.And(sp.i >= 0, sp.i < sp.n))
        out = p.call("pandapower.results_bus:write_voltage_dependend_load_results", net, Opaque("p"), Opaque("q"), Opaque("b"))
        if out.raised:
            raise EngineError(f"write_voltage_dependend_load_results raised {out.exc!r}")
        c = tab.cols
        row = z3.substitute(to_z(bl.e, I), (lsp.i, to_z(c["bus"], I)))
        v = z3.Function("ppcbus[all,7]", I, R)(row)
        act = z3.If(is_l.z, 1.0, 0.0)
        for q, zc, ic in (("p_mw", "const_z_p_percent", "const_i_p_percent"), ("q_mvar", "const_z_q_percent", "const_i_q_percent")):
            cz, ci = to_z(c[zc]) / 100, to_z(c[ic]) / 100
            want = to_z(c[q]) * to_z(c["scaling"]) * act * ((1 - cz - ci) + ci * v + cz * v * v)
            p.prove(f"zip:{q}", to_z(res.cols[q], R) == want, meta=dict(part="zip"),
                    note=f"res_load.{q} = {q} * scaling * (cp + ci*v + cz*v^2) at the voltage of the load's own bus")
    vc.explore("write_voltage_dependend_load_results", h_zip, max_paths=40)


    from contracts import C04_shunt
    C04_shunt.run(vc)
    run_update_q(vc)
    run_dispatch_qlims(vc)

    if not hasattr(vc, "native_standins"):
        vc.native_standins = []
    vc.native_standins.append(dict(
        name="setpoints and q-limit enforcement on fixed power flows",
        bound="6 power flows of two fixed networks (meshed 20 kV net with ZIP load, shunt, storage, sgen, two gens; 110 kV chain whose q limits "
              "become binding in two successive rounds) with / without angles, voltage dependent loads, enforce_q_lims",
        script="import sys\nfrom replaylib.setpoints import main, main_reference_buses_only\n"
               "from replaylib import run_all\nrun_all(main, main_reference_buses_only)\n",
        known={"C04/enforce_q_lims-ignored-in-networks-of-reference-buses-without-branches":
               r"REPRODUCED: one bus with ext_grid, gen and load, algorithm=(nr|iwamoto_nr): gen 0 q = 30\.0000 Mvar outside"}))


F_QLIM_NO_BRANCH = "C04/enforce_q_lims-ignored-in-networks-of-reference-buses-without-branches"
KNOWN_EXCLUSIONS = {F_QLIM_NO_BRANCH: lambda ob: True if ob.meta.get("finding") == F_QLIM_NO_BRANCH else None}


def run_dispatch_qlims(vc):
    """_run_pf_algorithm: the shortcut for networks of reference buses only (_bypass_pf_and_set_results) never runs the reactive limit
    loop; a gen at a reference bus is limited as well, so with enforce_q_lims the Newton-Raphson path (which contains the loop) must run."""
    from contracts import C10
    C10.run_dispatch(vc, options={"distributed_slack": False, "enforce_q_lims": True}, label="with enforce_q_lims", part="dispatch-qlims",
                     tag="enforce_q_lims", no_branch_finding=F_QLIM_NO_BRANCH)


def run_update_q(vc):
    """_update_q (result routine of every AC power flow; callee of the Q-limit loop, which books the reactive power of a gen it has switched
    off as a negative load and relies on the routine reporting nothing for it): a machine that is not in the list of running machines
    reports q = 0, whatever it held before; the split among running machines only touches running machines."""
    PS = "pandapower.pypower.pfsoln"
    ig, iu = consts("pandapower.pypower.idx_gen"), consts("pandapower.pypower.idx_bus")

    def h(p):
        gsp = Space.get("ppcgen")
        gen = Mat("gen", {"all": gsp})
        q0 = pm.colfun(gen, "all", ig.QG)
        pm.colfun(gen, "all", ig.QMIN); pm.colfun(gen, "all", ig.QMAX)
        bus = pm.bus_mat()
        pm.colfun(bus, "all", iu.QD)
        osp = Space.get("on")
        on = Arr(osp, SV(z3.Function("on_idx", I, I)(osp.i)))
        gbus = Arr(osp, SV(z3.Function("gbus", I, I)(osp.i)))
        me = p.it.modenv(PS)
        for nm in ("csr_matrix", "asarray", "range", "ones"):
            me.vals[nm] = Native(lambda it, *a, **k: Opaque("sparse"), name=nm)
        me.vals["find"] = Native(lambda it, *a, **k: Arr(Space.get("ig"), SV(z3.Function("ig_idx", I, I)(Space.get("ig").i))), name="find")
        g = z3.Int("g")      # a machine that is not running
        p.assume(z3.And(g >= 0, g < gsp.n))
        p.assume(z3.Not(to_z(on.e, I) == g))                       # for the generic running machine: it is another one
        out = p.call(f"{PS}:_update_q", SV(z3.Real("baseMVA")), bus, gen, gbus, Opaque("Sbus"), on)
        if out.raised:
            raise EngineError(f"_update_q raised {out.exc!r}")
        qg = gen.row_of(None, SV(g), ig.QG, p.it)
        p.prove("update_q: a machine that is not running reports q = 0", z3.BoolVal(False) if isinstance(qg, Opaque) else to_z(qg, R) == 0,
                meta=dict(part="update_q"), note="also when it held a value before (a gen switched off by the Q-limit loop keeps its limit value "
                                                "only in the loop's own bookkeeping)")
    vc.explore("_update_q", h, max_paths=20)


def classify(ob, model):
    return ob.meta.get("part", "setpoints") + ":" + ob.meta.get("element", "")


def replay(ob, model, finding=None):
    if ob.meta.get("part") == "dispatch-qlims":
        return {"script": f"# replay of {ob.id}\nfrom replaylib.setpoints import main_reference_buses_only\nmain_reference_buses_only()\n",
                "description": "runpp(enforce_q_lims=True) on networks in which every bus carries an ext_grid: gens with reactive limits at them"}
    if ob.meta.get("part") == "update_q":
        return {"script": f"# replay of {ob.id}\nfrom replaylib.setpoints import main\nmain()\n",
                "description": "power flows with enforce_q_lims whose limits become binding in successive rounds: reported q against what the "
                               "network takes from each gen"}
    if ob.meta.get("part", "").startswith("shunt") and "[dc]" in ob.id:
        return {"script": f"# replay of {ob.id}\nfrom replaylib.setpoints import main_shunt_dc\nmain_shunt_dc()\n",
                "description": "DC power flow with a shunt and a ward at a generator bus with vm_pu = 1.05: nodal balance with the reported results"}
    if ob.meta.get("part", "").startswith("shunt"):
        return {"script": f"# replay of {ob.id}\nfrom replaylib.setpoints import main_shunt\nmain_shunt()\n",
                "description": "power flow with shunts (steps, own / missing voltage rating, out of service), wards and an xward: voltage law of "
                               "the results, nodal balance at their buses"}
    return {"script": f"# replay of {ob.id}\nfrom replaylib.setpoints import main\nmain()\n",
            "description": "power flows (with and without voltage angles, ZIP loads, q limits): ext_grid / gen voltages, p*scaling of pq elements, "
                           "ZIP law at the solved voltage"}
