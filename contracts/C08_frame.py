"""C08 (b): the ppc build pipeline does not store into the user's element tables (frame-tracking execution).

Every top-level function of build_branch / build_bus / build_gen whose parameters start with (net, ppc, ...) -- the list is
read from the source on every run -- is executed in frame-tracking mode (pyvc.frame) for the option sets below with an
unknown ppc; callees are followed.  Obligation per function and path: no column, row set or binding of any element table
of `net` differs from its state on entry.  Paths that end in an exception of the abstraction (unknown values used where the
real code has concrete ones) are listed in the evidence; each function needs at least one path that returns normally.
"""
from __future__ import annotations

import ast

import z3

from pyvc import frame, lib_np, source
from pyvc.values import SV, Opaque, EngineError
from pyvc.containers import PDict
from pyvc.interp import Native, PyRaise

MODULES = ["pandapower.build_branch", "pandapower.build_bus", "pandapower.build_gen"]

OPTION_SETS = [
    dict(mode="pf", trafo_model="t", voltage_depend_loads=True, calculate_voltage_angles=True),
    dict(mode="pf", trafo_model="pi", voltage_depend_loads=False, calculate_voltage_angles=False, init_vm_pu="results",
         init_va_degree="results", init_results=True, consider_line_temperature=True),
    dict(mode="opf", trafo_model="t"),
    dict(mode="sc", trafo_model="pi", case="min", fault="3ph", kappa=False, ip=False, ith=False, branch_results=False, use_pre_fault_voltage=False,
         topology="auto", tk_s=1., kappa_method="C", r_fault_ohm=0., x_fault_ohm=0., lv_tol_percent=10, inverse_y=True, return_all_currents=False),
]
BASE = dict(ac=True, algorithm="nr", init_results=False, voltage_depend_loads=False, mode="pf", recycle=None,
            only_v_results=False, init="flat", tdpf=False, tdpf_update_r_theta=True, tdpf_delay_s=None, distributed_slack=False,
            numba=False, max_iteration=10, trafo_model="t", check_connectivity=True, init_vm_pu="flat", init_va_degree="flat",
            calculate_voltage_angles=True, switch_rx_ratio=2, enforce_q_lims=False, consider_line_temperature=False,
            delta=0, trafo3w_losses="hv", p_lim_default=1e9, q_lim_default=1e9, neglect_open_switch_branches=False,
            trafo_loading="current", tolerance_mva=1e-8, v_debug=False, lightsim2grid=False, use_umfpack=True, permc_spec=None)


def build_functions():
    out = []
    for mod in MODULES:
        m = source.load_module(mod)
        for node in m.tree.body:
            if isinstance(node, ast.FunctionDef):
                ps = [a.arg for a in node.args.args]
                if ps[:2] == ["net", "ppc"]:
                    out.append((mod, node.name, ps, len(node.args.defaults)))
    if len(out) < 10:
        raise source.SourceError("build functions (net, ppc, ...) not found")
    return out


def configure(it):
    lib_np.install(it)
    frame.install(it)


def run(vc):
    vc.trust("frame-tracking execution (pyvc.frame): every store form on tables / columns / .values views / net attributes is tracked; "
             "values read from tables are unknown; ppc arrays are unknown objects (stores into them are allowed)",
             "numpy / scipy functions do not store into their array arguments unless through out= (tracked)")
    fns = build_functions()
    vc.extra["build_functions_covered"] = [f"{m}:{n}" for m, n, _, _ in fns]
    normal = {}
    abstraction_exits = {}
    for mod, name, params, n_def in fns:
        for k, opts in enumerate(OPTION_SETS):
            def h(p, mod=mod, name=name, params=params, n_def=n_def, opts=opts, k=k):
                configure(p.it)
                key = f"{mod}:{name}"
                p.fn(key)
                # modular: the other build functions are under the same contract themselves (their own units below);
                # at a call site only that contract is used: no store into the net, unknown result
                for m2, n2, _, _ in fns:
                    if n2 != name:
                        p.it.summaries[f"{m2}:{n2}"] = (lambda n2: (lambda it, *a, **k: Opaque(f"{n2}()")))(n2)
                o = dict(BASE)
                o.update(opts)
                net = frame.FrameNet(extra={"_options": PDict(o), "_pd2ppc_lookups": Opaque("lookups"), "_is_elements": Opaque("is_elements"),
                                            "user_pf_options": PDict(), "_isolated_buses": Opaque("isolated"), "_ppc": Opaque("ppc_old"),
                                            "_impedance_bb_switches": Opaque("bb"), "_fused_bb_switches": Opaque("fbb")})
                n_req = len(params) - n_def
                args = [net, Opaque("ppc")] + [Opaque(f"arg:{q}") for q in params[2:n_req]]
                out = p.call(key, *args)
                viol = frame.frame_violations(net)
                if out.raised:
                    abstraction_exits.setdefault(name, set()).add(repr(out.exc)[:80])
                else:
                    normal[name] = normal.get(name, 0) + 1
                p.prove(f"frame[{name},{opts.get('mode')},{opts.get('trafo_model')}]", len(viol) == 0,
                        note=f"{name} leaves every element table of the net unchanged; violations on this path: {viol}",
                        meta=dict(clause="frame", function=name, violations=[f"{a}: {b}" for a, b in viol]))
            vc.explore(f"{name}[{k}]", h, max_paths=4000)
    vc.extra["exits_by_exception_under_abstraction"] = {k: sorted(v) for k, v in abstraction_exits.items()}
    for mod, name, _, _ in fns:
        if not normal.get(name):
            vc.extra.setdefault("functions_without_normal_path", []).append(name)
